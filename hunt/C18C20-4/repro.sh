#!/usr/bin/env bash
# Run from the repository root. Exit 0 = defect present.
set -u
DIR="$(cd "$(dirname "$0")" && pwd)"
T=crates/compiler/tests/zz_query_probe_c18c20_4.rs
trap 'rm -f "$T"' EXIT
cp "$DIR/query_probe.rs" "$T"
cargo test --offline -p compiler --test zz_query_probe_c18c20_4 --no-run >/dev/null 2>&1 || { echo "test build failed"; exit 2; }
# cursor right after `x.` (0-based line 1, col 6)
OUT="$(Q_FILE="$DIR/input.gom" Q_LINE=1 Q_COL=6 cargo test --offline -p compiler --test zz_query_probe_c18c20_4 -- --nocapture 2>&1)"
echo "$OUT" | grep -E "^(HOVER|DOT|CC)|panicked|Expected a constructor"
# cursor after `y.v` (0-based line 5, col 7): prefix "v", no placeholder involved
OUT2="$(Q_FILE="$DIR/input2.gom" Q_LINE=5 Q_COL=7 cargo test --offline -p compiler --test zz_query_probe_c18c20_4 -- --nocapture 2>&1)"
echo "$OUT2" | grep -E "^(HOVER|DOT|CC)|panicked|Expected a constructor"
if echo "$OUT" | grep -q "^DOT PANIC" && echo "$OUT" | grep -q "tast.rs" ; then
  echo "PRESENT: dot_completions panicked"
  exit 0
fi
exit 1
