// Throw-away integration test: runs the three editor queries at one position.
// env: Q_FILE (text to query), Q_PATH (path passed to the query API), Q_LINE, Q_COL (0-based)
use compiler::query::{colon_colon_completions, dot_completions, hover_type};
use std::path::Path;

#[test]
fn query_probe() {
    let file = std::env::var("Q_FILE").expect("Q_FILE");
    let src = std::fs::read_to_string(&file).unwrap();
    let line: u32 = std::env::var("Q_LINE").unwrap().parse().unwrap();
    let col: u32 = std::env::var("Q_COL").unwrap().parse().unwrap();
    let path_s = std::env::var("Q_PATH").unwrap_or_else(|_| "dummy".into());
    let path = Path::new(&path_s);
    let h = std::panic::catch_unwind(|| hover_type(path, &src, line, col));
    println!("HOVER {:?}", h.map_err(|_| "PANIC"));
    let d = std::panic::catch_unwind(|| dot_completions(path, &src, line, col));
    match d {
        Ok(Some(items)) => println!(
            "DOT {:?}",
            items.iter().map(|i| format!("{}:{:?}:{}", i.name, i.kind, i.detail.clone().unwrap_or_default())).collect::<Vec<_>>()
        ),
        Ok(None) => println!("DOT None"),
        Err(_) => println!("DOT PANIC"),
    }
    let c = std::panic::catch_unwind(|| colon_colon_completions(path, &src, line, col));
    match c {
        Ok(Some(items)) => println!(
            "CC {:?}",
            items.iter().map(|i| format!("{}:{:?}", i.name, i.kind)).collect::<Vec<_>>()
        ),
        Ok(None) => println!("CC None"),
        Err(_) => println!("CC PANIC"),
    }
}
