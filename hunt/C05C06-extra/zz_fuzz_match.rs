// throw-away fuzzer: random pattern matrices, ANF interpreter vs first-match semantics
use compiler::anf::{AExpr, CExpr, ImmExpr};
use compiler::common::{Constructor, Prim};
use std::collections::HashMap;

#[derive(Clone, Debug, PartialEq)]
enum T {
    Bool,
    Int,
    Unit,
    Str,
    Color,
    Pair,
    Shape,
    Opt(Box<T>),
    Wrap(Box<T>),
    Tup(Vec<T>),
}

#[derive(Clone, Debug, PartialEq)]
enum V {
    Bool(bool),
    Int(i64),
    Unit,
    Str(String),
    Enum(usize, Vec<V>),
    Struct(Vec<V>),
    Tup(Vec<V>),
}

#[derive(Clone, Debug)]
enum P {
    Wild,
    Var(String),
    Bool(bool),
    Int(i64),
    Unit,
    Str(String),
    Ctor(String, usize, Vec<P>),          // enum ctor name, index, args
    Struct(String, Vec<(String, usize, P)>), // struct name, (field name, decl index, pat) in written order
    Tup(Vec<P>),
}

struct Rng(u64);
impl Rng {
    fn next(&mut self) -> u64 {
        self.0 ^= self.0 << 13;
        self.0 ^= self.0 >> 7;
        self.0 ^= self.0 << 17;
        self.0
    }
    fn below(&mut self, n: usize) -> usize {
        (self.next() % n as u64) as usize
    }
    fn chance(&mut self, pct: usize) -> bool {
        self.below(100) < pct
    }
}

fn ty_src(t: &T) -> String {
    match t {
        T::Bool => "bool".into(),
        T::Int => "int32".into(),
        T::Unit => "unit".into(),
        T::Str => "string".into(),
        T::Color => "Color".into(),
        T::Pair => "Pair".into(),
        T::Shape => "Shape".into(),
        T::Opt(t) => format!("Opt[{}]", ty_src(t)),
        T::Wrap(t) => format!("Wrap[{}]", ty_src(t)),
        T::Tup(ts) => format!(
            "({})",
            ts.iter().map(ty_src).collect::<Vec<_>>().join(", ")
        ),
    }
}

// enum variants: name, arg types
fn variants(t: &T) -> Vec<(String, Vec<T>)> {
    match t {
        T::Color => vec![
            ("Red".into(), vec![]),
            ("Green".into(), vec![]),
            ("Blue".into(), vec![]),
        ],
        T::Shape => vec![
            ("Dot".into(), vec![]),
            ("Circle".into(), vec![T::Int]),
            ("Rect".into(), vec![T::Int, T::Bool]),
            ("Tagged".into(), vec![T::Color, T::Pair]),
        ],
        T::Opt(t) => vec![("Nope".into(), vec![]), ("Just".into(), vec![(**t).clone()])],
        _ => unreachable!(),
    }
}

fn fields(t: &T) -> (String, Vec<(String, T)>) {
    match t {
        T::Pair => (
            "Pair".into(),
            vec![("a".into(), T::Int), ("b".into(), T::Bool)],
        ),
        T::Wrap(t) => (
            "Wrap".into(),
            vec![("v".into(), (**t).clone()), ("n".into(), T::Int)],
        ),
        _ => unreachable!(),
    }
}

fn values(t: &T) -> Vec<V> {
    match t {
        T::Bool => vec![V::Bool(true), V::Bool(false)],
        T::Int => vec![V::Int(0), V::Int(1), V::Int(2)],
        T::Unit => vec![V::Unit],
        T::Str => vec![V::Str("a".into()), V::Str("b".into()), V::Str("c".into())],
        T::Color | T::Shape | T::Opt(_) => {
            let mut out = vec![];
            for (i, (_, args)) in variants(t).iter().enumerate() {
                for combo in product(&args.iter().map(values).collect::<Vec<_>>()) {
                    out.push(V::Enum(i, combo));
                }
            }
            out
        }
        T::Pair | T::Wrap(_) => {
            let (_, fs) = fields(t);
            product(&fs.iter().map(|(_, t)| values(t)).collect::<Vec<_>>())
                .into_iter()
                .map(V::Struct)
                .collect()
        }
        T::Tup(ts) => product(&ts.iter().map(values).collect::<Vec<_>>())
            .into_iter()
            .map(V::Tup)
            .collect(),
    }
}

fn product(lists: &[Vec<V>]) -> Vec<Vec<V>> {
    let mut out = vec![vec![]];
    for l in lists {
        let mut next = vec![];
        for prefix in &out {
            for v in l {
                let mut p = prefix.clone();
                p.push(v.clone());
                next.push(p);
            }
        }
        out = next;
    }
    out
}

fn gen_ty(r: &mut Rng, depth: usize) -> T {
    let n = if depth == 0 { 7 } else { 10 };
    match r.below(n) {
        0 => T::Bool,
        1 => T::Int,
        2 => T::Unit,
        3 => T::Str,
        4 => T::Color,
        5 => T::Pair,
        6 => T::Shape,
        7 => T::Opt(Box::new(gen_ty(r, depth - 1))),
        8 => T::Wrap(Box::new(gen_ty(r, depth - 1))),
        _ => {
            let n = 2 + r.below(2);
            T::Tup((0..n).map(|_| gen_ty(r, depth - 1)).collect())
        }
    }
}

fn gen_pat(r: &mut Rng, t: &T, vars: &mut Vec<(String, T)>, depth: usize) -> P {
    let c = r.below(100);
    if c < 15 || (depth == 0 && c < 40) {
        return P::Wild;
    }
    if c < 35 || (depth == 0 && c < 70) {
        let name = if vars.is_empty() && r.chance(30) { "v".to_string() } else { format!("v{}", vars.len()) };
        vars.push((name.clone(), t.clone()));
        return P::Var(name);
    }
    match t {
        T::Bool => P::Bool(r.chance(50)),
        T::Int => P::Int(r.below(3) as i64),
        T::Unit => P::Unit,
        T::Str => P::Str(["a", "b", "c"][r.below(3)].into()),
        T::Color | T::Shape | T::Opt(_) => {
            let vs = variants(t);
            let i = r.below(vs.len());
            let args = vs[i]
                .1
                .iter()
                .map(|at| gen_pat(r, at, vars, depth.saturating_sub(1)))
                .collect();
            P::Ctor(vs[i].0.clone(), i, args)
        }
        T::Pair | T::Wrap(_) => {
            let (name, fs) = fields(t);
            let mut items: Vec<(String, usize, P)> = fs
                .iter()
                .enumerate()
                .map(|(i, (fname, ft))| {
                    (
                        fname.clone(),
                        i,
                        gen_pat(r, ft, vars, depth.saturating_sub(1)),
                    )
                })
                .collect();
            if r.chance(50) {
                items.reverse();
            }
            P::Struct(name, items)
        }
        T::Tup(ts) => P::Tup(
            ts.iter()
                .map(|at| gen_pat(r, at, vars, depth.saturating_sub(1)))
                .collect(),
        ),
    }
}

fn pat_src(p: &P) -> String {
    match p {
        P::Wild => "_".into(),
        P::Var(n) => n.clone(),
        P::Bool(b) => b.to_string(),
        P::Int(i) => i.to_string(),
        P::Unit => "()".into(),
        P::Str(s) => format!("\"{}\"", s),
        P::Ctor(n, _, args) => {
            if args.is_empty() {
                n.clone()
            } else {
                format!(
                    "{}({})",
                    n,
                    args.iter().map(pat_src).collect::<Vec<_>>().join(", ")
                )
            }
        }
        P::Struct(n, fs) => format!(
            "{} {{ {} }}",
            n,
            fs.iter()
                .map(|(f, _, p)| format!("{}: {}", f, pat_src(p)))
                .collect::<Vec<_>>()
                .join(", ")
        ),
        P::Tup(ps) => format!(
            "({})",
            ps.iter().map(pat_src).collect::<Vec<_>>().join(", ")
        ),
    }
}

fn pmatch(p: &P, v: &V, b: &mut HashMap<String, V>) -> bool {
    match (p, v) {
        (P::Wild, _) => true,
        (P::Var(n), v) => {
            b.insert(n.clone(), v.clone());
            true
        }
        (P::Bool(x), V::Bool(y)) => x == y,
        (P::Int(x), V::Int(y)) => x == y,
        (P::Unit, V::Unit) => true,
        (P::Str(x), V::Str(y)) => x == y,
        (P::Ctor(_, i, args), V::Enum(j, vs)) => {
            i == j && args.iter().zip(vs).all(|(p, v)| pmatch(p, v, b))
        }
        (P::Struct(_, fs), V::Struct(vs)) => fs.iter().all(|(_, i, p)| pmatch(p, &vs[*i], b)),
        (P::Tup(ps), V::Tup(vs)) => ps.iter().zip(vs).all(|(p, v)| pmatch(p, v, b)),
        _ => panic!("ill-typed {:?} vs {:?}", p, v),
    }
}

// body: K + sum over int vars (w_i * var) + bool vars via if
fn body_src(k: i64, vars: &[(String, T)]) -> String {
    let mut s = format!("{}", k);
    for (i, (n, t)) in vars.iter().enumerate() {
        match t {
            T::Int => s = format!("{} + {} * {}", s, n, 3 + i * 4),
            T::Bool => s = format!("{} + (if {} {{ {} }} else {{ 0 }})", s, n, 50 + i),
            T::Color => {
                s = format!(
                    "{} + (match {} {{ Red => 100, Green => 200, Blue => 300 }})",
                    s, n
                )
            }
            _ => {}
        }
    }
    s
}

fn body_val(k: i64, vars: &[(String, T)], b: &HashMap<String, V>) -> i64 {
    let mut s = k;
    for (i, (n, t)) in vars.iter().enumerate() {
        match (t, b.get(n)) {
            (T::Int, Some(V::Int(x))) => s += x * (3 + i as i64 * 4),
            (T::Bool, Some(V::Bool(x))) => {
                if *x {
                    s += 50 + i as i64
                }
            }
            (T::Color, Some(V::Enum(j, _))) => s += 100 * (*j as i64 + 1),
            (T::Int | T::Bool | T::Color, other) => panic!("unbound {} {:?}", n, other),
            _ => {}
        }
    }
    s
}

#[derive(Debug, PartialEq)]
enum Outcome {
    Val(i64),
    Missing,
    Fallthrough, // Go switch without matching case and without default
    Error(String),
}

fn prim_to_v(p: &Prim) -> V {
    match p {
        Prim::Unit { .. } => V::Unit,
        Prim::Bool { value } => V::Bool(*value),
        Prim::Int32 { value } => V::Int(*value as i64),
        Prim::String { value } => V::Str(value.clone()),
        other => panic!("prim {:?}", other),
    }
}

fn eval_imm(i: &ImmExpr, env: &HashMap<String, V>) -> Result<V, Outcome> {
    match i {
        ImmExpr::ImmVar { name, .. } => env
            .get(name)
            .cloned()
            .ok_or_else(|| Outcome::Error(format!("unbound var {}", name))),
        ImmExpr::ImmPrim { value, .. } => Ok(prim_to_v(value)),
        ImmExpr::ImmTag { index, .. } => Ok(V::Enum(*index, vec![])),
    }
}

fn eval_a(e: &AExpr, env: &mut HashMap<String, V>) -> Result<V, Outcome> {
    match e {
        AExpr::ACExpr { expr } => eval_c(expr, env),
        AExpr::ALet {
            name, value, body, ..
        } => {
            let v = eval_c(value, env)?;
            env.insert(name.clone(), v);
            eval_a(body, env)
        }
    }
}

fn eval_c(e: &CExpr, env: &mut HashMap<String, V>) -> Result<V, Outcome> {
    match e {
        CExpr::CImm { imm } => eval_imm(imm, env),
        CExpr::EConstr {
            constructor, args, ..
        } => {
            let vs = args
                .iter()
                .map(|a| eval_imm(a, env))
                .collect::<Result<Vec<_>, _>>()?;
            Ok(match constructor {
                Constructor::Enum(c) => V::Enum(c.index, vs),
                Constructor::Struct(_) => V::Struct(vs),
            })
        }
        CExpr::ETuple { items, .. } => Ok(V::Tup(
            items
                .iter()
                .map(|a| eval_imm(a, env))
                .collect::<Result<Vec<_>, _>>()?,
        )),
        CExpr::EMatch {
            expr,
            arms,
            default,
            ..
        } => {
            let v = eval_imm(expr, env)?;
            for arm in arms {
                let hit = match (&arm.lhs, &v) {
                    (ImmExpr::ImmTag { index, .. }, V::Enum(j, _)) => index == j,
                    (ImmExpr::ImmPrim { value, .. }, v) => &prim_to_v(value) == v,
                    (l, v) => return Err(Outcome::Error(format!("arm {:?} vs {:?}", l, v))),
                };
                if hit {
                    return eval_a(&arm.body, env);
                }
            }
            if let Some(d) = default {
                return eval_a(d, env);
            }
            Err(Outcome::Fallthrough)
        }
        CExpr::EIf {
            cond, then, else_, ..
        } => match eval_imm(cond, env)? {
            V::Bool(true) => eval_a(then, env),
            V::Bool(false) => eval_a(else_, env),
            o => Err(Outcome::Error(format!("if on {:?}", o))),
        },
        CExpr::EConstrGet {
            expr,
            constructor,
            field_index,
            ..
        } => {
            let v = eval_imm(expr, env)?;
            match (constructor, v) {
                (Constructor::Enum(c), V::Enum(j, vs)) => {
                    if c.index != j {
                        return Err(Outcome::Error(format!(
                            "field read of variant {} on value of variant {}",
                            c.index, j
                        )));
                    }
                    Ok(vs[*field_index].clone())
                }
                (Constructor::Struct(_), V::Struct(vs)) => Ok(vs[*field_index].clone()),
                (c, v) => Err(Outcome::Error(format!("constrget {:?} on {:?}", c, v))),
            }
        }
        CExpr::EBinary { op, lhs, rhs, .. } => {
            let l = eval_imm(lhs, env)?;
            let r = eval_imm(rhs, env)?;
            match (op, l, r) {
                (common_defs::BinaryOp::Add, V::Int(a), V::Int(b)) => Ok(V::Int(a + b)),
                (common_defs::BinaryOp::Mul, V::Int(a), V::Int(b)) => Ok(V::Int(a * b)),
                (op, l, r) => Err(Outcome::Error(format!("binop {:?} {:?} {:?}", op, l, r))),
            }
        }
        CExpr::ECall { func, .. } => match func {
            ImmExpr::ImmVar { name, .. } if name == "missing" => Err(Outcome::Missing),
            other => Err(Outcome::Error(format!("call {:?}", other))),
        },
        CExpr::EProj { tuple, index, .. } => match eval_imm(tuple, env)? {
            V::Tup(vs) => Ok(vs[*index].clone()),
            o => Err(Outcome::Error(format!("proj on {:?}", o))),
        },
        other => Err(Outcome::Error(format!("unsupported {:?}", other))),
    }
}

const DECLS: &str = r#"
enum Color { Red, Green, Blue }
struct Pair { a: int32, b: bool }
enum Shape { Dot, Circle(int32), Rect(int32, bool), Tagged(Color, Pair) }
enum Opt[T] { Nope, Just(T) }
struct Wrap[T] { v: T, n: int32 }
"#;

#[test]
fn zz_fuzz_match() {
    let seed: u64 = std::env::var("FUZZ_SEED")
        .ok()
        .and_then(|s| s.parse().ok())
        .unwrap_or(0x9E3779B97F4A7C15);
    let iters: usize = std::env::var("FUZZ_ITERS")
        .ok()
        .and_then(|s| s.parse().ok())
        .unwrap_or(300);
    let mut r = Rng(seed);
    let dir = tempfile::tempdir().unwrap();
    let path = dir.path().join("main.gom");
    let mut failures = 0;
    let mut rejected = 0;
    let mut ok = 0;
    for it in 0..iters {
        let t = gen_ty(&mut r, 2);
        let vals = values(&t);
        if vals.len() > 400 {
            continue;
        }
        let use_let = r.chance(15);
        let narms = if use_let { 1 } else { 1 + r.below(5) };
        let mut arms = vec![];
        for i in 0..narms {
            let mut vars = vec![];
            let p = gen_pat(&mut r, &t, &mut vars, 3);
            arms.push((p, vars, (i as i64 + 1) * 10000));
        }
        let add_wild = !use_let && r.chance(60);
        if add_wild {
            arms.push((P::Wild, vec![], 990000));
        }
        let mut src = String::from(DECLS);
        if use_let {
            let (p, vars, k) = &arms[0];
            src.push_str(&format!(
                "fn m(v: {}) -> int32 {{\n    let {} = v;\n    {}\n}}\n",
                ty_src(&t),
                pat_src(p),
                body_src(*k, vars)
            ));
        } else {
            src.push_str(&format!("fn m(v: {}) -> int32 {{\n    match v {{\n", ty_src(&t)));
            for (p, vars, k) in &arms {
                src.push_str(&format!(
                    "        {} => {},\n",
                    pat_src(p),
                    body_src(*k, vars)
                ));
            }
            src.push_str("    }\n}\n");
        }
        src.push_str("fn main() { () }\n");
        std::fs::write(&path, &src).unwrap();
        let p2 = path.clone();
        let s2 = src.clone();
        let res = std::panic::catch_unwind(move || compiler::pipeline::pipeline::compile(&p2, &s2));
        let comp = match res {
            Err(_) => {
                println!("=== PANIC iteration {} ===\n{}", it, src);
                failures += 1;
                continue;
            }
            Ok(Err(e)) => {
                let msgs: Vec<String> = e
                    .diagnostics()
                    .iter()
                    .map(|d| d.message().to_string())
                    .collect();
                // expected rejection: int literal column without catch-all
                let expected = msgs.iter().all(|m| m.contains("non-exhaustive match on integer"));
                if !expected {
                    println!("=== REJECTED iteration {} ===\n{}\n{:?}", it, src, msgs);
                    failures += 1;
                } else {
                    // check that it's really non exhaustive
                    let mut exhaustive = true;
                    for v in &vals {
                        let mut any = false;
                        for (p, _, _) in &arms {
                            let mut b = HashMap::new();
                            if pmatch(p, v, &mut b) {
                                any = true;
                                break;
                            }
                        }
                        if !any {
                            exhaustive = false;
                        }
                    }
                    // ints outside 0..2 always exist, so a literal-only column is never exhaustive;
                    // but report if our sampled domain says exhaustive AND a wildcard arm exists
                    if exhaustive && add_wild {
                        println!("=== REJECTED-BUT-HAS-WILDCARD iteration {} ===\n{}\n{:?}", it, src, msgs);
                        failures += 1;
                    }
                    rejected += 1;
                }
                continue;
            }
            Ok(Ok(c)) => c,
        };
        let f = comp
            .anf
            .toplevels
            .iter()
            .find(|f| f.name == "m")
            .expect("fn m");
        let pname = f.params[0].0.clone();
        for v in &vals {
            let mut expect = Outcome::Missing;
            for (p, vars, k) in &arms {
                let mut b = HashMap::new();
                if pmatch(p, v, &mut b) {
                    expect = Outcome::Val(body_val(*k, vars, &b));
                    break;
                }
            }
            let mut env = HashMap::new();
            env.insert(pname.clone(), v.clone());
            let got = match eval_a(&f.body, &mut env) {
                Ok(V::Int(i)) => Outcome::Val(i),
                Ok(o) => Outcome::Error(format!("result {:?}", o)),
                Err(o) => o,
            };
            if expect == Outcome::Missing && got == Outcome::Fallthrough { continue; }
            if got != expect {
                println!(
                    "=== MISMATCH iteration {} value {:?}: expected {:?} got {:?} ===\n{}",
                    it, v, expect, got, src
                );
                failures += 1;
                break;
            }
        }
        ok += 1;
    }
    println!("ok={} rejected={} failures={}", ok, rejected, failures);
    assert_eq!(failures, 0);
}

// ---------------- Go AST interpreter ----------------
use compiler::go::goast as g;
use compiler::go::goty::GoType;

#[derive(Clone, Debug, PartialEq)]
enum GV {
    Int(i64),
    Bool(bool),
    Str(String),
    Unit,
    Nil,
    Struct(String, Vec<(String, GV)>),
}

enum Flow {
    Normal,
    Return(GV),
    Break,
}

struct GoInterp<'a> {
    fns: HashMap<String, &'a g::Fn>,
    steps: usize,
}

fn ty_name(t: &GoType) -> String {
    match t {
        GoType::TName { name } => name.clone(),
        GoType::TStruct { name, .. } => name.clone(),
        GoType::TUnit => "struct{}".into(),
        other => format!("{:?}", other),
    }
}

fn zero(t: &GoType) -> GV {
    match t {
        GoType::TInt8 | GoType::TInt16 | GoType::TInt32 | GoType::TInt64 | GoType::TUint8
        | GoType::TUint16 | GoType::TUint32 | GoType::TUint64 => GV::Int(0),
        GoType::TBool => GV::Bool(false),
        GoType::TString => GV::Str(String::new()),
        GoType::TUnit => GV::Unit,
        _ => GV::Nil,
    }
}

type Scopes = Vec<HashMap<String, GV>>;

fn lookup(sc: &Scopes, n: &str) -> Result<GV, Outcome> {
    for s in sc.iter().rev() {
        if let Some(v) = s.get(n) {
            return Ok(v.clone());
        }
    }
    Err(Outcome::Error(format!("go: undefined {}", n)))
}

impl<'a> GoInterp<'a> {
    fn call(&mut self, name: &str, args: Vec<GV>) -> Result<GV, Outcome> {
        if name == "missing" {
            return Err(Outcome::Missing);
        }
        let f = *self
            .fns
            .get(name)
            .ok_or_else(|| Outcome::Error(format!("go: unknown fn {}", name)))?;
        let mut sc: Scopes = vec![HashMap::new()];
        for ((p, _), a) in f.params.iter().zip(args) {
            sc[0].insert(p.clone(), a);
        }
        match self.block(&f.body, &mut sc)? {
            Flow::Return(v) => Ok(v),
            _ => Ok(GV::Unit),
        }
    }

    fn block(&mut self, b: &g::Block, sc: &mut Scopes) -> Result<Flow, Outcome> {
        sc.push(HashMap::new());
        let r = self.stmts(&b.stmts, sc);
        sc.pop();
        r
    }

    fn stmts(&mut self, stmts: &[g::Stmt], sc: &mut Scopes) -> Result<Flow, Outcome> {
        for s in stmts {
            self.steps += 1;
            if self.steps > 200000 {
                return Err(Outcome::Error("go: step limit".into()));
            }
            match s {
                g::Stmt::Expr(e) => {
                    self.expr(e, sc)?;
                }
                g::Stmt::VarDecl { name, ty, value } => {
                    let v = match value {
                        Some(e) => self.expr(e, sc)?,
                        None => zero(ty),
                    };
                    if sc.last().unwrap().contains_key(name) {
                        return Err(Outcome::Error(format!("go: {} redeclared", name)));
                    }
                    sc.last_mut().unwrap().insert(name.clone(), v);
                }
                g::Stmt::Assignment { name, value } => {
                    let v = self.expr(value, sc)?;
                    let mut done = false;
                    for s in sc.iter_mut().rev() {
                        if s.contains_key(name) {
                            s.insert(name.clone(), v.clone());
                            done = true;
                            break;
                        }
                    }
                    if !done {
                        return Err(Outcome::Error(format!("go: assign to undefined {}", name)));
                    }
                }
                g::Stmt::Return { expr } => {
                    let v = match expr {
                        Some(e) => self.expr(e, sc)?,
                        None => GV::Unit,
                    };
                    return Ok(Flow::Return(v));
                }
                g::Stmt::If { cond, then, else_ } => {
                    let c = self.expr(cond, sc)?;
                    let f = match c {
                        GV::Bool(true) => self.block(then, sc)?,
                        GV::Bool(false) => match else_ {
                            Some(b) => self.block(b, sc)?,
                            None => Flow::Normal,
                        },
                        o => return Err(Outcome::Error(format!("go: if on {:?}", o))),
                    };
                    if !matches!(f, Flow::Normal) {
                        return Ok(f);
                    }
                }
                g::Stmt::Loop { body } => loop {
                    match self.block(body, sc)? {
                        Flow::Break => break,
                        Flow::Return(v) => return Ok(Flow::Return(v)),
                        Flow::Normal => {}
                    }
                },
                g::Stmt::Break => return Ok(Flow::Break),
                g::Stmt::SwitchExpr {
                    expr,
                    cases,
                    default,
                } => {
                    let v = self.expr(expr, sc)?;
                    let mut chosen: Option<&g::Block> = None;
                    let mut seen: Vec<GV> = vec![];
                    for (ce, blk) in cases {
                        let cv = self.expr(ce, sc)?;
                        if seen.contains(&cv) {
                            return Err(Outcome::Error(format!("go: duplicate case {:?}", cv)));
                        }
                        seen.push(cv.clone());
                        if chosen.is_none() && cv == v {
                            chosen = Some(blk);
                        }
                    }
                    let blk = chosen.or(default.as_ref());
                    if let Some(blk) = blk {
                        let f = self.block(blk, sc)?;
                        match f {
                            Flow::Normal => {}
                            // a break inside a Go switch only leaves the switch
                            Flow::Break => {}
                            r => return Ok(r),
                        }
                    }
                }
                g::Stmt::SwitchType {
                    bind,
                    expr,
                    cases,
                    default,
                } => {
                    let v = self.expr(expr, sc)?;
                    let tn = match &v {
                        GV::Struct(n, _) => n.clone(),
                        o => return Err(Outcome::Error(format!("go: type switch on {:?}", o))),
                    };
                    // static check: scrutinee expression must have interface type
                    if let g::Expr::Var { name, .. } = expr {
                        // find whether an enclosing type switch rebinds this name to a concrete type
                        for s in sc.iter().rev() {
                            if let Some(GV::Struct(_, _)) = s.get(&format!("#concrete:{}", name)) {
                                return Err(Outcome::Error(format!(
                                    "go: type switch on non-interface {}",
                                    name
                                )));
                            }
                            if s.contains_key(name) {
                                break;
                            }
                        }
                    }
                    let mut chosen: Option<&g::Block> = None;
                    for (ct, blk) in cases {
                        if ty_name(ct) == tn {
                            chosen = Some(blk);
                            break;
                        }
                    }
                    let blk = chosen.or(default.as_ref());
                    if let Some(blk) = blk {
                        sc.push(HashMap::new());
                        if let Some(b) = bind {
                            sc.last_mut().unwrap().insert(b.clone(), v.clone());
                            sc.last_mut()
                                .unwrap()
                                .insert(format!("#concrete:{}", b), v.clone());
                        }
                        let f = self.block(blk, sc);
                        sc.pop();
                        match f? {
                            Flow::Normal | Flow::Break => {}
                            r => return Ok(r),
                        }
                    }
                }
                other => return Err(Outcome::Error(format!("go: stmt {:?}", other))),
            }
        }
        Ok(Flow::Normal)
    }

    fn expr(&mut self, e: &g::Expr, sc: &mut Scopes) -> Result<GV, Outcome> {
        match e {
            g::Expr::Unit { .. } => Ok(GV::Unit),
            g::Expr::Nil { .. } => Ok(GV::Nil),
            g::Expr::Var { name, .. } => lookup(sc, name),
            g::Expr::Bool { value, .. } => Ok(GV::Bool(*value)),
            g::Expr::Int { value, .. } => Ok(GV::Int(value.parse().unwrap())),
            g::Expr::String { value, .. } => Ok(GV::Str(value.clone())),
            g::Expr::Call { func, args, .. } => {
                let mut vs = vec![];
                for a in args {
                    vs.push(self.expr(a, sc)?);
                }
                match func.as_ref() {
                    g::Expr::Var { name, .. } => self.call(name, vs),
                    o => Err(Outcome::Error(format!("go: call {:?}", o))),
                }
            }
            g::Expr::BinaryOp { op, lhs, rhs, .. } => {
                let l = self.expr(lhs, sc)?;
                let r = self.expr(rhs, sc)?;
                match (op, l, r) {
                    (g::GoBinaryOp::Add, GV::Int(a), GV::Int(b)) => Ok(GV::Int(a + b)),
                    (g::GoBinaryOp::Mul, GV::Int(a), GV::Int(b)) => Ok(GV::Int(a * b)),
                    (op, l, r) => Err(Outcome::Error(format!("go: binop {:?} {:?} {:?}", op, l, r))),
                }
            }
            g::Expr::UnaryOp { op, expr, .. } => {
                let v = self.expr(expr, sc)?;
                match (op, v) {
                    (g::GoUnaryOp::Not, GV::Bool(b)) => Ok(GV::Bool(!b)),
                    (op, v) => Err(Outcome::Error(format!("go: unop {:?} {:?}", op, v))),
                }
            }
            g::Expr::FieldAccess { obj, field, .. } => match self.expr(obj, sc)? {
                GV::Struct(n, fs) => fs
                    .iter()
                    .find(|(f, _)| f == field)
                    .map(|(_, v)| v.clone())
                    .ok_or_else(|| Outcome::Error(format!("go: no field {} in {}", field, n))),
                o => Err(Outcome::Error(format!("go: field {} of {:?}", field, o))),
            },
            g::Expr::StructLiteral { fields, ty } => {
                if matches!(ty, GoType::TUnit) {
                    return Ok(GV::Unit);
                }
                let mut fs = vec![];
                for (n, e) in fields {
                    fs.push((n.clone(), self.expr(e, sc)?));
                }
                Ok(GV::Struct(ty_name(ty), fs))
            }
            other => Err(Outcome::Error(format!("go: expr {:?}", other))),
        }
    }
}

fn val_src(v: &V, t: &T) -> String {
    match (v, t) {
        (V::Bool(b), _) => b.to_string(),
        (V::Int(i), _) => i.to_string(),
        (V::Unit, _) => "()".into(),
        (V::Str(s), _) => format!("\"{}\"", s),
        (V::Enum(i, args), t) => {
            let vs = variants(t);
            let (name, ats) = &vs[*i];
            if args.is_empty() {
                name.clone()
            } else {
                format!(
                    "{}({})",
                    name,
                    args.iter()
                        .zip(ats)
                        .map(|(a, at)| val_src(a, at))
                        .collect::<Vec<_>>()
                        .join(", ")
                )
            }
        }
        (V::Struct(vs), t) => {
            let (name, fs) = fields(t);
            format!(
                "{} {{ {} }}",
                name,
                fs.iter()
                    .zip(vs)
                    .map(|((f, ft), v)| format!("{}: {}", f, val_src(v, ft)))
                    .collect::<Vec<_>>()
                    .join(", ")
            )
        }
        (V::Tup(vs), T::Tup(ts)) => format!(
            "({})",
            vs.iter()
                .zip(ts)
                .map(|(v, t)| val_src(v, t))
                .collect::<Vec<_>>()
                .join(", ")
        ),
        _ => panic!(),
    }
}

#[test]
fn zz_fuzz_match_go() {
    let seed: u64 = std::env::var("FUZZ_SEED")
        .ok()
        .and_then(|s| s.parse().ok())
        .unwrap_or(0x9E3779B97F4A7C15);
    let iters: usize = std::env::var("FUZZ_ITERS")
        .ok()
        .and_then(|s| s.parse().ok())
        .unwrap_or(300);
    let mut r = Rng(seed);
    let dir = tempfile::tempdir().unwrap();
    let path = dir.path().join("main.gom");
    let mut failures = 0;
    let mut ok = 0;
    for it in 0..iters {
        let t = gen_ty(&mut r, 2);
        let vals = values(&t);
        if vals.len() > 120 {
            continue;
        }
        let use_let = r.chance(15);
        let narms = if use_let { 1 } else { 1 + r.below(5) };
        let mut arms = vec![];
        for i in 0..narms {
            let mut vars = vec![];
            let p = gen_pat(&mut r, &t, &mut vars, 3);
            arms.push((p, vars, (i as i64 + 1) * 10000));
        }
        if !use_let && r.chance(60) {
            arms.push((P::Wild, vec![], 990000));
        }
        let mut src = String::from(DECLS);
        if use_let {
            let (p, vars, k) = &arms[0];
            src.push_str(&format!(
                "fn m(v: {}) -> int32 {{\n    let {} = v;\n    {}\n}}\n",
                ty_src(&t),
                pat_src(p),
                body_src(*k, vars)
            ));
        } else {
            let mode = r.below(4);
            let (head, scrut, tail) = match mode {
                0 => (String::new(), "v".to_string(), String::new()),
                1 => (format!("    let f = |w: {}| ", ty_src(&t)), "w".to_string(), ";\n    f(v)\n".to_string()),
                2 => (String::new(), "id(v)".to_string(), String::new()),
                _ => (String::new(), "(v, 7)".to_string(), String::new()),
            };
            src.push_str(&format!("fn id(x: {}) -> {} {{ x }}\n", ty_src(&t), ty_src(&t)));
            src.push_str(&format!("fn m(v: {}) -> int32 {{\n{}    match {} {{\n", ty_src(&t), head, scrut));
            for (i, (p, vars, k)) in arms.iter().enumerate() {
                let ps = if mode == 3 { format!("({}, {})", pat_src(p), if i % 2 == 0 { "7" } else { "_" }) } else { pat_src(p) };
                src.push_str(&format!("        {} => {},\n", ps, body_src(*k, vars)));
            }
            src.push_str(&format!("    }}{}\n}}\n", tail));
        }
        src.push_str(&format!("fn mk(i: int32) -> {} {{\n    match i {{\n", ty_src(&t)));
        for (i, v) in vals.iter().enumerate() {
            if i + 1 == vals.len() {
                src.push_str(&format!("        _ => {},\n", val_src(v, &t)));
            } else {
                src.push_str(&format!("        {} => {},\n", i, val_src(v, &t)));
            }
        }
        src.push_str("    }\n}\n");
        src.push_str("fn main() { string_println(int32_to_string(m(mk(0)))) }\n");
        std::fs::write(&path, &src).unwrap();
        std::fs::write("/tmp/huntwt/C05C06/scratch/last.gom", format!("// iteration {}\n{}", it, src)).unwrap();
        let p2 = path.clone();
        let s2 = src.clone();
        let res = std::panic::catch_unwind(move || compiler::pipeline::pipeline::compile(&p2, &s2));
        let comp = match res {
            Err(_) => {
                println!("=== PANIC iteration {} ===\n{}", it, src);
                failures += 1;
                continue;
            }
            Ok(Err(e)) => {
                let msgs: Vec<String> = e.diagnostics().iter().map(|d| d.message().to_string()).collect();
                if !msgs.iter().all(|m| m.contains("non-exhaustive match on integer")) {
                    println!("=== REJECTED iteration {} ===\n{}\n{:?}", it, src, msgs);
                    failures += 1;
                }
                continue;
            }
            Ok(Ok(c)) => c,
        };
        let mut fns = HashMap::new();
        for item in &comp.go.toplevels {
            if let g::Item::Fn(f) = item {
                fns.insert(f.name.clone(), f);
            }
        }
        for (i, v) in vals.iter().enumerate() {
            let mut expect = Outcome::Missing;
            for (p, vars, k) in &arms {
                let mut b = HashMap::new();
                if pmatch(p, v, &mut b) {
                    expect = Outcome::Val(body_val(*k, vars, &b));
                    break;
                }
            }
            let mut interp = GoInterp { fns: fns.clone(), steps: 0 };
            let got = match interp.call("mk", vec![GV::Int(i as i64)]).and_then(|gv| interp.call("m", vec![gv])) {
                Ok(GV::Int(i)) => Outcome::Val(i),
                Ok(o) => Outcome::Error(format!("result {:?}", o)),
                Err(o) => o,
            };
            // known: string match without default falls through (result stays zero)
            if got != expect {
                let known = expect == Outcome::Missing && got == Outcome::Val(0);
                if !known {
                    println!(
                        "=== GO MISMATCH iteration {} value {:?}: expected {:?} got {:?} ===\n{}",
                        it, v, expect, got, src
                    );
                    failures += 1;
                    break;
                }
            }
        }
        ok += 1;
    }
    println!("go-level ok={} failures={}", ok, failures);
    assert_eq!(failures, 0);
}

// ---------------- scoping fuzzer ----------------
#[derive(Clone, Debug)]
enum Ex {
    Lit(i64),
    Var(String),
    Add(Box<Ex>, Box<Ex>),
    If(bool, Blk, Blk),
    Match(Box<Ex>, i64, Blk, String, Blk),
    Call(String, Box<Ex>),
}
#[derive(Clone, Debug)]
struct Blk(Vec<St>, Box<Ex>);
#[derive(Clone, Debug)]
enum St {
    Let(String, Ex),
    LetTup(String, String, Ex, Ex),
    LetClos(String, String, Blk),
}
#[derive(Clone, Debug)]
enum SV {
    Int(i64),
    Clos(String, Blk, Vec<(String, SV)>),
}

const INT_NAMES: [&str; 3] = ["a", "b", "c"];
const FN_NAMES: [&str; 2] = ["f", "g"];

fn gen_ex(r: &mut Rng, depth: usize, ints: &Vec<String>, fns: &Vec<String>) -> Ex {
    let c = r.below(100);
    if depth == 0 || c < 25 {
        if !ints.is_empty() && r.chance(75) {
            return Ex::Var(ints[r.below(ints.len())].clone());
        }
        return Ex::Lit(r.below(4) as i64);
    }
    if c < 45 {
        return Ex::Add(
            Box::new(gen_ex(r, depth - 1, ints, fns)),
            Box::new(gen_ex(r, depth - 1, ints, fns)),
        );
    }
    if c < 60 {
        return Ex::If(
            r.chance(50),
            gen_blk(r, depth - 1, ints, fns),
            gen_blk(r, depth - 1, ints, fns),
        );
    }
    if c < 80 {
        let binder = INT_NAMES[r.below(3)].to_string();
        let scrut = gen_ex(r, depth - 1, ints, fns);
        let a1 = gen_blk(r, depth - 1, ints, fns);
        let mut ints2 = ints.clone();
        ints2.push(binder.clone());
        let a2 = gen_blk(r, depth - 1, &ints2, fns);
        return Ex::Match(Box::new(scrut), r.below(3) as i64, a1, binder, a2);
    }
    if !fns.is_empty() {
        return Ex::Call(
            fns[r.below(fns.len())].clone(),
            Box::new(gen_ex(r, depth - 1, ints, fns)),
        );
    }
    Ex::Lit(7)
}

fn gen_blk(r: &mut Rng, depth: usize, ints: &Vec<String>, fns: &Vec<String>) -> Blk {
    let mut ints = ints.clone();
    let mut fns = fns.clone();
    let mut sts = vec![];
    let n = r.below(3);
    for _ in 0..n {
        let c = r.below(100);
        if c < 55 {
            let name = INT_NAMES[r.below(3)].to_string();
            let e = gen_ex(r, depth, &ints, &fns);
            sts.push(St::Let(name.clone(), e));
            ints.push(name);
        } else if c < 70 {
            let n1 = INT_NAMES[r.below(3)].to_string();
            let mut n2 = INT_NAMES[r.below(3)].to_string();
            if n2 == n1 {
                n2 = INT_NAMES[(INT_NAMES.iter().position(|x| *x == n1).unwrap() + 1) % 3].to_string();
            }
            let e1 = gen_ex(r, depth, &ints, &fns);
            let e2 = gen_ex(r, depth, &ints, &fns);
            sts.push(St::LetTup(n1.clone(), n2.clone(), e1, e2));
            ints.push(n1);
            ints.push(n2);
        } else {
            let fname = FN_NAMES[r.below(2)].to_string();
            let param = INT_NAMES[r.below(3)].to_string();
            let mut ints2 = ints.clone();
            ints2.push(param.clone());
            let body = gen_blk(r, depth.saturating_sub(1), &ints2, &fns);
            sts.push(St::LetClos(fname.clone(), param, body));
            fns.push(fname);
        }
    }
    let e = gen_ex(r, depth, &ints, &fns);
    Blk(sts, Box::new(e))
}

fn ex_src(e: &Ex, ind: usize) -> String {
    match e {
        Ex::Lit(i) => i.to_string(),
        Ex::Var(n) => n.clone(),
        Ex::Add(a, b) => format!("({} + {})", ex_src(a, ind), ex_src(b, ind)),
        Ex::If(c, t, f) => format!("(if {} {} else {})", if *c { "tt" } else { "ff" }, blk_src(t, ind), blk_src(f, ind)),
        Ex::Match(s, k, a1, b, a2) => format!(
            "(match {} {{ {} => {}, {} => {} }})",
            ex_src(s, ind),
            k,
            blk_src(a1, ind),
            b,
            blk_src(a2, ind)
        ),
        Ex::Call(f, a) => format!("{}({})", f, ex_src(a, ind)),
    }
}

fn blk_src(b: &Blk, ind: usize) -> String {
    let pad = " ".repeat(ind + 4);
    let mut s = String::from("{\n");
    for st in &b.0 {
        match st {
            St::Let(n, e) => s.push_str(&format!("{}let {} = {};\n", pad, n, ex_src(e, ind + 4))),
            St::LetTup(a, b2, e1, e2) => s.push_str(&format!(
                "{}let ({}, {}) = ({}, {});\n",
                pad,
                a,
                b2,
                ex_src(e1, ind + 4),
                ex_src(e2, ind + 4)
            )),
            St::LetClos(f, p, body) => s.push_str(&format!("{}let {} = |{}: int32| {};\n", pad, f, p, blk_src(body, ind + 4))),
        }
    }
    s.push_str(&format!("{}{}\n{}}}", pad, ex_src(&b.1, ind + 4), " ".repeat(ind)));
    s
}

fn slookup(env: &Vec<(String, SV)>, n: &str) -> SV {
    env.iter().rev().find(|(k, _)| k == n).map(|(_, v)| v.clone()).unwrap_or_else(|| panic!("ref unbound {}", n))
}

fn ex_eval(e: &Ex, env: &Vec<(String, SV)>, fuel: &mut i64) -> i64 {
    *fuel -= 1;
    match e {
        Ex::Lit(i) => *i,
        Ex::Var(n) => match slookup(env, n) {
            SV::Int(i) => i,
            _ => panic!("not int"),
        },
        Ex::Add(a, b) => ex_eval(a, env, fuel).wrapping_add(ex_eval(b, env, fuel)),
        Ex::If(c, t, f) => {
            if *c {
                blk_eval(t, env, fuel)
            } else {
                blk_eval(f, env, fuel)
            }
        }
        Ex::Match(s, k, a1, b, a2) => {
            let v = ex_eval(s, env, fuel);
            if v == *k {
                blk_eval(a1, env, fuel)
            } else {
                let mut env2 = env.clone();
                env2.push((b.clone(), SV::Int(v)));
                blk_eval(a2, &env2, fuel)
            }
        }
        Ex::Call(f, a) => {
            let v = ex_eval(a, env, fuel);
            match slookup(env, f) {
                SV::Clos(p, body, cenv) => {
                    let mut env2 = cenv.clone();
                    env2.push((p, SV::Int(v)));
                    blk_eval(&body, &env2, fuel)
                }
                _ => panic!("not clos"),
            }
        }
    }
}

fn blk_eval(b: &Blk, env: &Vec<(String, SV)>, fuel: &mut i64) -> i64 {
    let mut env = env.clone();
    for st in &b.0 {
        match st {
            St::Let(n, e) => {
                let v = ex_eval(e, &env, fuel);
                env.push((n.clone(), SV::Int(v)));
            }
            St::LetTup(a, b2, e1, e2) => {
                let v1 = ex_eval(e1, &env, fuel);
                let v2 = ex_eval(e2, &env, fuel);
                env.push((a.clone(), SV::Int(v1)));
                env.push((b2.clone(), SV::Int(v2)));
            }
            St::LetClos(f, p, body) => {
                let c = SV::Clos(p.clone(), body.clone(), env.clone());
                env.push((f.clone(), c));
            }
        }
    }
    ex_eval(&b.1, &env, fuel)
}

#[test]
fn zz_fuzz_scope() {
    let seed: u64 = std::env::var("FUZZ_SEED").ok().and_then(|s| s.parse().ok()).unwrap_or(0x1234567);
    let iters: usize = std::env::var("FUZZ_ITERS").ok().and_then(|s| s.parse().ok()).unwrap_or(300);
    let mut r = Rng(seed);
    let dir = tempfile::tempdir().unwrap();
    let path = dir.path().join("main.gom");
    let mut failures = 0;
    let mut ok = 0;
    for it in 0..iters {
        let ints = vec!["a".to_string(), "b".to_string()];
        let body = gen_blk(&mut r, 4, &ints, &vec![]);
        let src = format!(
            "fn m(a: int32, b: int32, tt: bool, ff: bool) -> int32 {}\nfn main() {{ string_println(int32_to_string(m(1, 2, true, false))) }}\n",
            blk_src(&body, 0)
        );
        if src.len() > 6000 {
            continue;
        }
        std::fs::write(&path, &src).unwrap();
        let p2 = path.clone();
        let s2 = src.clone();
        let res = std::panic::catch_unwind(move || compiler::pipeline::pipeline::compile(&p2, &s2));
        let comp = match res {
            Err(_) => {
                println!("=== PANIC iteration {} ===\n{}", it, src);
                failures += 1;
                continue;
            }
            Ok(Err(e)) => {
                let msgs: Vec<String> = e.diagnostics().iter().map(|d| d.message().to_string()).collect();
                println!("=== REJECTED iteration {} ===\n{}\n{:?}", it, src, msgs);
                failures += 1;
                continue;
            }
            Ok(Ok(c)) => c,
        };
        let mut fns = HashMap::new();
        for item in &comp.go.toplevels {
            if let g::Item::Fn(f) = item {
                fns.insert(f.name.clone(), f);
            }
        }
        for (a, b) in [(1i64, 2i64), (0, 0), (2, 1), (3, 0)] {
            let env = vec![("a".to_string(), SV::Int(a)), ("b".to_string(), SV::Int(b))];
            let mut fuel = 100000;
            let expect = blk_eval(&body, &env, &mut fuel);
            let mut interp = GoInterp { fns: fns.clone(), steps: 0 };
            let got = interp.call("m", vec![GV::Int(a), GV::Int(b), GV::Bool(true), GV::Bool(false)]);
            match got {
                Ok(GV::Int(x)) if x == expect => {}
                other => {
                    println!(
                        "=== SCOPE MISMATCH iteration {} a={} b={} expected {} got {:?} ===\n{}",
                        it, a, b, expect, other.map_err(|e| format!("{:?}", e)), src
                    );
                    failures += 1;
                    break;
                }
            }
        }
        ok += 1;
    }
    println!("scope ok={} failures={}", ok, failures);
    assert_eq!(failures, 0);
}
