#!/bin/bash
# Run from the repository root. Exit 0 = defect present.
set -u
HERE="$(cd "$(dirname "$0")" && pwd)"
BIN="${GOML_BIN:-./target/debug/compiler}"
if [ ! -x "$BIN" ]; then cargo build --offline -p compiler >/dev/null 2>&1 || { echo "build failed"; exit 2; }; fi
W="$(mktemp -d)"; trap 'rm -rf "$W"' EXIT

# whole-project pipeline
"$BIN" run --dump-go "$HERE/proj/main.gom" > "$W/whole.out" 2>&1
# separate compilation: build Lib, build Main, link
"$BIN" build --package Lib --input "$HERE/proj/Lib/lib.gom" --output "$W/Lib" || exit 2
"$BIN" build --package Main --input "$HERE/proj/main.gom" --interface-path "$W" --output "$W/Main" || exit 2
"$BIN" link --input "$W/Lib.core" "$W/Main.core" --output "$W/main.go" || exit 2

if grep -qi "error (typer)\|error (compile)\|error (lower)" "$W/whole.out"; then echo "project rejected by goml -> defect absent"; exit 1; fi
echo "--- type declarations named Point in the emitted Go (whole-project):"; grep -n "^type Point " "$W/whole.out"
echo "--- type declarations named Point in the emitted Go (build+link):";   grep -n "^type Point " "$W/main.go"
a=$(grep -c "^type Point " "$W/whole.out"); b=$(grep -c "^type Point " "$W/main.go")
if [ "$a" -ge 2 ] && [ "$b" -ge 2 ]; then
  echo "DEFECT PRESENT: Main's struct Point and the variant Lib::Shape::Point are both emitted as Go type 'Point'"
  exit 0
fi
exit 1
