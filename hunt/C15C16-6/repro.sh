#!/bin/bash
# Run from the repository root. Exit 0 = defect present.
set -u
HERE="$(cd "$(dirname "$0")" && pwd)"
BIN="${GOML_BIN:-./target/debug/compiler}"
if [ ! -x "$BIN" ]; then cargo build --offline -p compiler >/dev/null 2>&1 || { echo "build failed"; exit 2; }; fi
W="$(mktemp -d)"; trap 'rm -rf "$W"' EXIT
present=0
for proj in selfcycle missing; do
  P="$HERE/$proj"; O="$W/$proj"; mkdir -p "$O"
  echo "=== $proj: whole-project pipeline (run)"
  "$BIN" run "$P/main.gom" > "$O/run.out" 2>&1; grep "error" "$O/run.out"
  echo "=== $proj: separate compilation"
  "$BIN" check --package Lib  --input "$P/Lib/lib.gom" --output "$O/chk/Lib"; c=$?
  "$BIN" build --package Lib  --input "$P/Lib/lib.gom" --output "$O/Lib"; b1=$?
  "$BIN" build --package Main --input "$P/main.gom" --interface-path "$O" --output "$O/Main"; b2=$?
  "$BIN" link  --input "$O/Lib.core" "$O/Main.core" --output "$O/main.go"; l=$?
  echo "check Lib: exit $c, build Lib: exit $b1, build Main: exit $b2, link: exit $l"
  echo "deps recorded in Lib.interface: $(python3 -c "import json,sys;print(json.load(open(sys.argv[1]))['deps'])" "$O/Lib.interface")"
  if grep -q "error (compile)" "$O/run.out" && [ $c = 0 ] && [ $b1 = 0 ] && [ $b2 = 0 ] && [ $l = 0 ]; then present=$((present+1)); fi
done
grep -q "package dependency cycle detected: Lib" "$W/selfcycle/run.out" || exit 1
if [ $present = 2 ]; then
  echo "DEFECT PRESENT: check/build/link accept an import cycle (Lib imports Lib) and an import of a non-existent package (Builtin) that the whole-project pipeline reports as errors"
  exit 0
fi
exit 1
