#!/usr/bin/env bash
# Run from the repository root. Exits 0 when the defect is PRESENT.
set -u
HERE="$(cd "$(dirname "$0")" && pwd)"
BIN="${GOML_BIN:-./target/debug/compiler}"
if [ ! -x "$BIN" ]; then cargo build --offline -p compiler >/dev/null 2>&1 || { echo "build failed"; exit 2; }; fi

present=0

# 1. wrong tree visible in the Core dump: `-origin(3).x` is (-origin(3)).x, `-add(1)(2)` is (-add(1))(2)
out="$("$BIN" run --dump-core --dump-go "$HERE/accepted_wrong_tree/main.gom" 2>&1)"
echo "$out" | sed -n '/^fn main/,/^}/p;/^func main0/,/^}/p'
if echo "$out" | grep -qF 'P.x((-origin(3)))' && echo "$out" | grep -qF '(-add(1))(2)'; then
  echo "[tree] PRESENT: the postfix after the first call was applied to the *negated* value"
  present=1
fi

# 2. `!pred(1)(2)`, `-add(1)(2)`, `!mk(1).on` are rejected ...
out2="$("$BIN" run "$HERE/rejected/main.gom" 2>&1)"
echo "$out2"
# ... although the parenthesised spelling of the same trees is accepted
out3="$("$BIN" run --dump-core "$HERE/control/main.gom" 2>&1)"
echo "$out3" | sed -n '/^fn main/,/^}/p'
if echo "$out2" | grep -qF 'Types are not equal: TFunc([TInt32], TBool) and TBool' \
   && echo "$out2" | grep -qF 'Types are not equal: TStruct(F) and TBool' \
   && ! echo "$out3" | grep -q 'error (typer)'; then
  echo "[rejected] PRESENT"
  present=1
fi

[ "$present" = 1 ] && exit 0
exit 1
