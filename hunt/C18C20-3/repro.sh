#!/usr/bin/env bash
# Run from the repository root. Exit 0 = defect present.
set -u
DIR="$(cd "$(dirname "$0")" && pwd)"
cargo build --offline -p compiler >/dev/null 2>&1 || { echo "build failed"; exit 2; }
BIN="$PWD/target/debug/compiler"
TMP="$(mktemp -d)"; trap 'rm -rf "$TMP"' EXIT
cp -r "$DIR/prog" "$TMP/prog"; cp -r "$DIR/prog2" "$TMP/prog2"

OUT="$(cd "$TMP/prog" && "$BIN" run --dump-go ./main.gom 2>&1)"
echo "$OUT" | sed -n '/^func _goml_inherent_Pix_Pix_to_string/,/^}/p'
BODY="$(echo "$OUT" | sed -n '/^func _goml_inherent_Pix_Pix_to_json/,/^}/p')"
A=1
# no diagnostic, Go emitted; the derived body switches on the field value and only handles `red`;
# the value printed for the field is the constant red{} rather than the field.
if echo "$OUT" | grep -q '^== Go ==' && ! echo "$OUT" | grep -q '^error' \
   && echo "$BODY" | grep -q 'case green:' && echo "$BODY" | grep -q 'missing("")' \
   && echo "$BODY" | grep -q 'Color = red{}' ; then
  echo "(a) PRESENT: derived to_json/to_string of Pix is a partial match on the field value"; A=0
fi

OUT2="$(cd "$TMP/prog2" && "$BIN" run --dump-go ./main.gom 2>&1)"
echo "$OUT2" | head -4
B=1
if echo "$OUT2" | grep -q '^error (typer)' ; then
  echo "(b) PRESENT: field named like a constructor of an unrelated enum -> typer error from generated code"; B=0
fi
[ $A -eq 0 ] && exit 0
exit 1
