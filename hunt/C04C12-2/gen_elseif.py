import sys
n=int(sys.argv[1])
s="fn classify(x: int32) -> int32 {\n    "
for i in range(n):
    s+=f"if x == {i} {{ {i} }} else "
s+="{ 0 }\n}\n\nfn main() -> unit {\n    string_println(int32_to_string(classify(3)))\n}\n"
print(s)
