#!/bin/bash
# Run from the repository root. Exits 0 when the defect is PRESENT.
set -u
HERE="$(cd "$(dirname "${BASH_SOURCE[0]}")" && pwd)"
cargo build --offline -q -p compiler 2>/dev/null || cargo build --offline -p compiler || exit 2
BIN=./target/debug/compiler
W=$(mktemp -d)
mkdir -p "$W/panic" "$W/ok" "$W/reject" "$W/elseif"

# (a) a function whose return type is a curried function type with 254 arrows:
#     the parser PANICS (assertion failed: p.at(T!['{']) in crates/parser/src/file.rs, fn block)
python3 "$HERE/gen_return_type.py" 254 > "$W/panic/main.gom"
out_a=$("$BIN" run "$W/panic/main.gom" 2>&1); st_a=$?
echo "--- 254 arrows in return type: exit $st_a"; echo "$out_a" | grep -v WARNING | grep -v '^$' | head -3

# (b) the same program with 252 arrows is accepted (reaches the Go stage: 'failed to execute go' only
#     because the sandbox has no Go toolchain)
python3 "$HERE/gen_return_type.py" 252 > "$W/ok/main.gom"
out_b=$("$BIN" run "$W/ok/main.gom" 2>&1); st_b=$?
echo "--- 252 arrows in return type: exit $st_b"; echo "$out_b" | grep -v WARNING | grep -v '^$' | head -2

# (c) 253 arrows in a parameter type: valid program rejected with bogus 'end of file' diagnostics
python3 "$HERE/gen_param_type.py" 253 > "$W/reject/main.gom"
out_c=$("$BIN" run "$W/reject/main.gom" 2>&1); st_c=$?
echo "--- 253 arrows in parameter type: exit $st_c"; echo "$out_c" | grep -v WARNING | grep -v '^$' | head -3

# (d) an if / else-if chain with 300 branches: valid program rejected the same way
python3 "$HERE/gen_elseif.py" 300 > "$W/elseif/main.gom"
out_d=$("$BIN" run "$W/elseif/main.gom" 2>&1); st_d=$?
echo "--- else-if chain of 300: exit $st_d"; echo "$out_d" | grep -v WARNING | grep -v '^$' | head -3
rm -rf "$W"

present=1
if [ $st_a -eq 101 ] && echo "$out_a" | grep -q "assertion failed: p.at"; then present=0; fi
if echo "$out_c" | grep -q "parser did not consume input while parsing" && ! echo "$out_b" | grep -q "parser did not consume"; then present=0; fi
exit $present
