import sys
n=int(sys.argv[1])
t=" -> ".join(["int32"]*(n+1))
print(f"fn make() -> {t} {{\n    make()\n}}\n\nfn main() -> unit {{\n    string_println(\"ok\")\n}}")
