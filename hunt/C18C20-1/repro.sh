#!/usr/bin/env bash
# Run from the repository root. Exit 0 = defect present.
set -u
DIR="$(cd "$(dirname "$0")" && pwd)"
cargo build --offline -p compiler >/dev/null 2>&1 || { echo "build failed"; exit 2; }
BIN="$PWD/target/debug/compiler"
TMP="$(mktemp -d)"; trap 'rm -rf "$TMP"' EXIT
cp -r "$DIR/proj" "$TMP/proj"; cp -r "$DIR/field" "$TMP/field"

# (a) silent capture: derived Flag::to_json calls the *user's* Lib::bool_to_json / Lib::json_escape_string
OUT_A="$(cd "$TMP/proj" && "$BIN" run --dump-go ./main.gom 2>&1)"
echo "$OUT_A" | sed -n '/^func _goml_inherent_Lib.*to_json/,/^}/p'
A=1
if echo "$OUT_A" | grep -q '^== Go ==' \
   && echo "$OUT_A" | sed -n '/^func _goml_inherent_Lib.*to_json/,/^}/p' | grep -q '_goml_Lib_x3a__x3a_bool_to_json(' \
   && echo "$OUT_A" | sed -n '/^func _goml_inherent_Lib.*to_json/,/^}/p' | grep -q '_goml_Lib_x3a__x3a_json_escape_string(' ; then
  echo "(a) PRESENT: derived to_json was captured by user functions (no diagnostic, Go emitted)"; A=0
fi

# (b) a field named like the helper shadows it: typer error from generated code
OUT_B="$(cd "$TMP/field" && "$BIN" run --dump-go ./main.gom 2>&1)"
echo "$OUT_B" | head -5
B=1
if echo "$OUT_B" | grep -q 'error (typer).*Types are not equal: TBool and TFunc' ; then
  echo "(b) PRESENT: field named bool_to_json/json_escape_string makes the derive fail in the typer"; B=0
fi
[ $A -eq 0 ] && [ $B -eq 0 ] && exit 0
[ $A -eq 0 ] && exit 0
exit 1
