# Reports a type switch whose operand X is lexically inside a clause of an enclosing
# `switch X := X.(type)`: there X denotes a concrete variant struct, not an interface.
function indent(s,   n) { n = match(s, /[^ ]/); return n - 1 }
{
  line = $0; ind = indent(line)
  while (depth > 0 && line ~ /^ *}/ && ind <= sind[depth]) { depth--; if (ind == sind[depth+1]) break }
  bound = (line ~ /^ *switch [A-Za-z0-9_]+ := [A-Za-z0-9_]+\.\(type\) \{/)
  plain = (line ~ /^ *switch [A-Za-z0-9_]+\.\(type\) \{/)
  if (bound || plain) {
    n = split(line, w, " ")
    if (bound) { v = w[2]; t = w[4] } else { v = ""; t = w[2] }
    sub(/\.\(type\)/, "", t)
    for (i = 1; i <= depth; i++) if (svar[i] == t) {
      printf("line %d: %s   <-- %s was rebound at line %d to a concrete variant struct type\n", NR, line, t, sline[i]); found = 1
    }
    if (bound && v == t) { depth++; svar[depth] = v; sind[depth] = ind; sline[depth] = NR }
  }
}
END { exit(found ? 0 : 1) }
