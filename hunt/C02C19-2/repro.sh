#!/bin/sh
# Run from the repository root. Exit 0 = defect present.
ROOT=$(pwd)
HERE=$(cd "$(dirname "$0")" && pwd)
cargo build --offline -q -p compiler 2>/dev/null || cargo build --offline -p compiler || exit 2
BIN="$ROOT/target/debug/compiler"
OUT=$(mktemp -d); trap 'rm -rf "$OUT"' EXIT
present=1
for p in prog prog2; do
  (cd "$HERE/$p" && "$BIN" run --dump-go ./main.gom >"$OUT/$p.go" 2>"$OUT/$p.err")
  grep -q '^func main0()' "$OUT/$p.go" || { echo "$p not compiled:"; cat "$OUT/$p.err"; exit 1; }
  echo "== $p"
  if awk -f "$HERE/detect.awk" "$OUT/$p.go"; then present=0; fi
done
[ $present -eq 0 ] || { echo "defect absent"; exit 1; }
echo "DEFECT PRESENT: type switch on a variable of struct type. Emitted functions:"
sed -n '/^func size(/,/^}/p' "$OUT/prog.go"
sed -n '/^func warm(/,/^}/p' "$OUT/prog2.go"
exit 0
