#!/bin/sh
# Run from the repository root. Exit 0 = defect present.
HERE=$(cd "$(dirname "$0")" && pwd)
BIN=${GOML_COMPILER:-./target/debug/compiler}
[ -x "$BIN" ] || cargo build --offline -p compiler >/dev/null 2>&1 || { echo "cannot build compiler"; exit 2; }
TMP=$(mktemp -d) ; trap 'rm -rf "$TMP"' EXIT
for p in prog_callee_first prog_caller_first; do mkdir -p "$TMP/$p" && cp "$HERE/$p/main.gom" "$TMP/$p/main.gom"; done
A=$("$BIN" run --dump-go "$TMP/prog_callee_first/main.gom" 2>&1)
B=$("$BIN" run --dump-go "$TMP/prog_caller_first/main.gom" 2>&1)
echo "--- make_adder declared BEFORE main"
echo "$A" | grep -E '^func make_adder|var add3__|_apply\(add3__|add3__[0-9]+\(4\)'
echo "--- make_adder declared AFTER main (same declarations, other order)"
echo "$B" | grep -E '^func make_adder|var add3__|_apply\(add3__|add3__[0-9]+\(4\)'
mkdir -p "$TMP/prog_two_files" && cp "$HERE"/prog_two_files/*.gom "$TMP/prog_two_files/"
echo "--- make_adder in a second file of the same package (informational)"
"$BIN" run --dump-go "$TMP/prog_two_files/main.gom" 2>&1 | grep -E '^func make_adder|var add3__|_apply\(add3__|add3__[0-9]+\(4\)'
OK_A=0; BAD_B=0
echo "$A" | grep -q 'var add3__[0-9]* closure_env_make_adder_0 = make_adder(3)' \
  && echo "$A" | grep -q '_apply(add3__[0-9]*, 4)' && OK_A=1
echo "$B" | grep -q '^func make_adder(n__[0-9]* int32) closure_env_make_adder_0' \
  && echo "$B" | grep -q 'var add3__[0-9]* func(int32) int32 = make_adder(3)' \
  && echo "$B" | grep -q '= add3__[0-9]*(4)' && BAD_B=1
if [ "$OK_A" -eq 1 ] && [ "$BAD_B" -eq 1 ]; then
  echo "DEFECT PRESENT: with the caller first, a closure_env_make_adder_0 value initialises a func(int32) int32 variable and is called like a Go func"
  exit 0
fi
echo "defect absent or changed (A=$OK_A B=$BAD_B)"; exit 1
