#!/bin/bash
# Run from the repository root. Exits 0 when the defect is PRESENT.
# Defect: `link` rejects a Main package without a `main` function, whole-program compilation accepts it
# and emits a Go file whose func main() calls the undeclared function main0.
set -u
HERE="$(cd "$(dirname "$0")" && pwd)"
ROOT="$PWD"
BIN="$ROOT/target/debug/compiler"
if [ ! -x "$BIN" ]; then (cd "$ROOT" && cargo build --offline -p compiler >/dev/null 2>&1); fi
[ -x "$BIN" ] || { echo "compiler binary not found"; exit 2; }
W="$(mktemp -d)"; trap 'rm -rf "$W"' EXIT
cp -r "$HERE/proj" "$W/proj"; O="$W/out"; mkdir -p "$O"; cd "$W/proj"
"$BIN" run --dump-go ./main.gom > "$O/whole.txt" 2> "$O/whole.err"
sed -n '/^== Go ==/,$p' "$O/whole.txt" | tail -n +2 > "$O/whole.go"
echo "--- whole-program: compiler diagnostics (none expected besides the missing go toolchain):"
grep -v 'failed to execute go' "$O/whole.err"
echo "--- whole-program Go, functions:"; grep -n '^func \|main0' "$O/whole.go"
"$BIN" build --package Main --input main.gom --interface-path "$O" --output "$O/Main" || exit 2
"$BIN" link --input "$O/Main.core" --output "$O/linked.go" 2> "$O/link.err"; rc=$?
echo "--- link exit=$rc: $(grep -o 'Main package missing main function' "$O/link.err")"
if grep -q '^== Go ==' "$O/whole.txt" && grep -q 'main0()' "$O/whole.go" && ! grep -q '^func main0' "$O/whole.go" && [ $rc != 0 ]; then
  echo "DEFECT: whole-program accepts (and emits Go that references undeclared main0), link rejects"
  exit 0
fi
echo "defect not observed"; exit 1
