#!/bin/sh
# Run from the repository root. Exits 0 when the defect is present.
set -u
HERE="$(cd "$(dirname "$0")" && pwd)"
BIN=./target/debug/compiler
[ -x "$BIN" ] || cargo build --offline -p compiler >/dev/null 2>&1 || exit 2

OUT1="$($BIN run --dump-go "$HERE/prog/main.gom" 2>&1)"
echo "$OUT1" | sed -n '/^func pick/,/^}/p'
OUT2="$($BIN run --dump-go "$HERE/prog2/main.gom" 2>&1)"
echo "$OUT2" | sed -n '/^func main0/,/^}/p'

present=0
# (1) `fn pick(red: color) -> color { red }` returns the constant constructor red{} and never reads its parameter
if echo "$OUT1" | sed -n '/^func pick/,/^}/p' | grep -q 'ret[0-9]* = red{}'; then
  echo "DEFECT PRESENT (1): body of pick returns the constructor red{} instead of its parameter red__N"
  present=1
fi
# (2) `counter(3)` with a user function `counter` in scope is compiled to the struct literal counter{n: 3};
#     the function (its println and the *100) is never called and is pruned from the output
if echo "$OUT2" | grep -q 'counter = counter{' && ! echo "$OUT2" | grep -q 'making a counter'; then
  echo "DEFECT PRESENT (2): call counter(3) became struct literal counter{n: 3}; function counter dropped"
  present=1
fi
[ "$present" = 1 ] && exit 0
echo "defect absent"
exit 1
