#!/bin/bash
# Run from the repository root. Exits 0 when the defect is PRESENT.
set -u
HERE="$(cd "$(dirname "${BASH_SOURCE[0]}")" && pwd)"
cargo build --offline -q -p compiler 2>/dev/null || cargo build --offline -p compiler || exit 2
BIN=./target/debug/compiler
W=$(mktemp -d)
panics=0
for t in inherent_method_value trait_method_value; do
  cp -r "$HERE/$t" "$W/"
  out=$("$BIN" run "$W/$t/main.gom" 2>&1); st=$?
  echo "--- $t: exit status $st"
  echo "$out" | grep -v WARNING | grep -v '^$' | grep -A1 "panicked at\|^error" | head -3
  if [ $st -eq 101 ] && echo "$out" | grep -q "should only appear as the function in ECall"; then panics=$((panics+1)); fi
done
rm -rf "$W"
[ $panics -ge 1 ] && exit 0
exit 1
