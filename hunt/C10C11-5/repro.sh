#!/usr/bin/env bash
# Run from the repository root. Exits 0 when the defect is PRESENT.
set -u
HERE="$(cd "$(dirname "$0")" && pwd)"
BIN="${GOML_BIN:-./target/debug/compiler}"
if [ ! -x "$BIN" ]; then cargo build --offline -p compiler >/dev/null 2>&1 || { echo "build failed"; exit 2; }; fi

out="$("$BIN" run --dump-ast "$HERE/nested/main.gom" 2>&1)"
echo "$out"
ctl="$("$BIN" run --dump-core "$HERE/control/main.gom" 2>&1)"
echo "$ctl" | sed -n '/^fn main/,/^}/p'

if echo "$out" | grep -qF 'Unsupported field access expression' && ! echo "$ctl" | grep -q '^error'; then
  echo "PRESENT: t.1.0 is rejected (the lexer reads '1.0' as a float literal); (t.1).0 and 't.1 .0' are accepted"
  exit 0
fi
exit 1
