#!/bin/bash
# Run from the repository root. Exit 0 = defect present.
set -u
HERE="$(cd "$(dirname "$0")" && pwd)"
BIN="${GOML_BIN:-./target/debug/compiler}"
if [ ! -x "$BIN" ]; then cargo build --offline -p compiler >/dev/null 2>&1 || { echo "build failed"; exit 2; }; fi
W="$(mktemp -d)"; trap 'rm -rf "$W"' EXIT
hash_of() { python3 -c "import json,sys;print(json.load(open(sys.argv[1]))['interface_hash'])" "$1"; }

# history: build Lib v1, build Main against it, link (fine)
"$BIN" build --package Lib  --input "$HERE/lib_v1.gom" --output "$W/Lib"  || exit 2
h1=$(hash_of "$W/Lib.interface")
"$BIN" build --package Main --input "$HERE/main.gom" --interface-path "$W" --output "$W/Main" || exit 2
"$BIN" link --input "$W/Lib.core" "$W/Main.core" --output "$W/main1.go" || exit 2
# edit Lib: signature of describe changes from [T: A] to [T: B]; rebuild Lib only
"$BIN" build --package Lib  --input "$HERE/lib_v2.gom" --output "$W/Lib"  || exit 2
h2=$(hash_of "$W/Lib.interface")
# body-only control edit for comparison
"$BIN" check --package Lib --input "$HERE/lib_v3.gom" --output "$W/Lib3" || exit 2
h3=$(hash_of "$W/Lib3.interface")
echo "interface_hash v1 (describe[T: A])            = $h1"
echo "interface_hash v2 (describe[T: B])            = $h2"
echo "interface_hash v3 (body-only edit of v1)      = $h3"
# relink the stale Main.core (built against v1) with Lib v2
"$BIN" link --input "$W/Lib.core" "$W/Main.core" --output "$W/main2.go"; rc=$?
echo "link of stale Main.core with Lib v2: exit $rc"
[ "$h1" = "$h2" ] || { echo "hash changed -> defect absent"; exit 1; }
[ $rc = 0 ] || { echo "stale link rejected -> defect absent"; exit 1; }
echo "--- in the linked Go:"; grep -n "trait_impl_Lib_x3a__x3a_._S_name" "$W/main2.go"
if grep -q "_goml_trait_impl_Lib_x3a__x3a_B_S_name(" "$W/main2.go" && ! grep -q "^func _goml_trait_impl_Lib_x3a__x3a_B_S_name" "$W/main2.go"; then
  echo "DEFECT PRESENT: bound change leaves interface_hash unchanged; stale dependent links and calls an impl that does not exist"
  exit 0
fi
exit 1
