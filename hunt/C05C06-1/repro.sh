#!/usr/bin/env bash
# Run from the repository root. Exits 0 when the defect is PRESENT.
set -u
HERE="$(cd "$(dirname "${BASH_SOURCE[0]}")" && pwd)"
BIN="${GOML_BIN:-./target/debug/compiler}"
if [ ! -x "$BIN" ]; then
    cargo build --offline -p compiler >/dev/null 2>&1 || { echo "build failed"; exit 2; }
fi
BIN="$(cd "$(dirname "$BIN")" && pwd)/$(basename "$BIN")"
present=0

# 1. same file: the parameter `X` / closure parameter `Y` are ignored, the uses become constructors
out1="$(cd "$HERE/samefile" && "$BIN" run --dump-core ./main.gom 2>&1)"
echo "$out1" | sed -n '/^fn pick/,/^}/p;/let id/p'
if echo "$out1" | grep -A1 -E '^fn pick\(X/[0-9]+: Axis\) -> Axis \{' | grep -qE '^\s+Axis::X\s*$' \
   && echo "$out1" | grep -qE 'let id/[0-9]+ = \|Y/[0-9]+: Axis\| => Axis::Y'; then
    echo "[same file] uses of the parameters X / Y were resolved to the constructors Axis::X / Axis::Y"
    present=1
fi

# 2. enum declared in another file of the package (decision taken in name_resolution.rs)
out2="$(cd "$HERE/crossfile" && "$BIN" run --dump-core ./main.gom 2>&1)"
if echo "$out2" | grep -A1 -E '^fn pick\(X/[0-9]+: Axis\) -> Axis \{' | grep -qE '^\s+Axis::X\s*$'; then
    echo "[cross file] same wrong resolution when the enum lives in another file"
    present=1
fi

# 3. natural lower-case program is rejected for a scoping reason
out3="$(cd "$HERE/lowercase" && "$BIN" run --dump-core ./main.gom 2>&1)"
echo "$out3" | head -3
if echo "$out3" | grep -q 'Constructor point expects 2 arguments, but got 0'; then
    echo "[lowercase] well-scoped program rejected: parameter \`point\` lost against struct constructor \`point\`"
    present=1
fi

if [ "$present" = 1 ]; then exit 0; else echo "defect not observed"; exit 1; fi
