// Throw-away integration test: copy to crates/compiler/tests/ and run
//   cargo test --offline -p compiler --test zz_c04c12_5_query -- --nocapture
use std::path::Path;

#[test]
fn dot_completion_on_applied_type_parameter() {
    let src = "fn f[T](x: T[int32]) -> unit {\n    x.\n}\n\nfn main() -> unit { () }\n";
    // cursor right after the dot on line 2 (0-based line 1, col 6)
    let r = std::panic::catch_unwind(|| compiler::query::dot_completions(Path::new("main.gom"), src, 1, 6));
    match r {
        Ok(items) => println!("RESULT no panic: {:?}", items),
        Err(_) => println!("RESULT dot_completions PANICKED"),
    }
    let src2 = "fn f[T](x: T[int32]) -> string {\n    x.foo()\n}\n\nfn main() -> unit { () }\n";
    let r2 = std::panic::catch_unwind(|| compiler::query::hover_type(Path::new("main.gom"), src2, 1, 4));
    match r2 {
        Ok(t) => println!("RESULT no panic: {:?}", t),
        Err(_) => println!("RESULT hover_type PANICKED"),
    }
}
