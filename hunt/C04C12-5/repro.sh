#!/bin/bash
# Run from the repository root. Exits 0 when the defect is PRESENT.
set -u
HERE="$(cd "$(dirname "${BASH_SOURCE[0]}")" && pwd)"
cargo build --offline -q -p compiler 2>/dev/null || cargo build --offline -p compiler || exit 2
BIN=./target/debug/compiler
W=$(mktemp -d)
cp -r "$HERE/method_call" "$W/"
out=$("$BIN" run "$W/method_call/main.gom" 2>&1); st=$?
echo "--- compiler run method_call/main.gom: exit status $st"
echo "$out" | grep -v WARNING | grep -v '^$' | grep -A1 "panicked at\|^error" | head -3
rm -rf "$W"
present=1
if [ $st -eq 101 ] && echo "$out" | grep -q "Expected a constructor type, got"; then present=0; fi

# Optional second observation (editor queries): set WITH_QUERY=1 to also run the throw-away
# integration test; it is copied into crates/compiler/tests and removed again.
if [ "${WITH_QUERY:-0}" = "1" ]; then
  cp "$HERE/zz_c04c12_5_query.rs" crates/compiler/tests/zz_c04c12_5_query.rs
  q=$(cargo test --offline -p compiler --test zz_c04c12_5_query -- --nocapture 2>&1 | grep "RESULT")
  rm -f crates/compiler/tests/zz_c04c12_5_query.rs
  echo "$q"
  echo "$q" | grep -q "PANICKED" && present=0
fi
exit $present
