#!/bin/sh
# Run from the repository root. Exit 0 = defect present.
HERE=$(cd "$(dirname "$0")" && pwd)
BIN=${GOML_COMPILER:-./target/debug/compiler}
[ -x "$BIN" ] || cargo build --offline -p compiler >/dev/null 2>&1 || { echo "cannot build compiler"; exit 2; }
TMP=$(mktemp -d) ; trap 'rm -rf "$TMP"' EXIT
for p in prog_arg prog_curry prog_dyn; do mkdir -p "$TMP/$p" && cp "$HERE/$p/main.gom" "$TMP/$p/main.gom"; done
FOUND=0

echo "--- prog_arg: closure passed to a parameter of function type"
OUT=$("$BIN" run --dump-go "$TMP/prog_arg/main.gom" 2>&1)
echo "$OUT" | grep -E '^func apply_once|var c__[0-9]+ |apply_once\(c__'
if echo "$OUT" | grep -q '^func apply_once(f__[0-9]* func(int32) int32,' \
   && echo "$OUT" | grep -q 'var c__[0-9]* closure_env_c_[0-9]* = closure_env_c_' \
   && echo "$OUT" | grep -q '= apply_once(c__[0-9]*, 4)'; then
  echo "  -> struct value passed where func(int32) int32 is required (Go: not assignable)"; FOUND=$((FOUND+1))
fi

echo "--- prog_curry: closure returned by a closure"
OUT=$("$BIN" run --dump-go "$TMP/prog_curry/main.gom" 2>&1)
echo "$OUT" | grep -E 'var ret[0-9]+ func\(int32\) int32|ret[0-9]+ = closure_env_add_|var add1__'
if echo "$OUT" | grep -q 'var ret[0-9]* func(int32) int32' \
   && echo "$OUT" | grep -q 'ret[0-9]* = closure_env_add_[0-9]*{'; then
  echo "  -> struct literal assigned to a func(int32) int32 variable (Go: not assignable)"; FOUND=$((FOUND+1))
fi

echo "--- prog_dyn: closure coerced to dyn Show (impl Show for (int32) -> int32): well-typed Go, run-time panic"
OUT=$("$BIN" run --dump-go "$TMP/prog_dyn/main.gom" 2>&1)
echo "$OUT" | grep -E 'self\.\(func\(int32\) int32\)|data: c__|var c__'
if echo "$OUT" | grep -q 'self.(func(int32) int32)' \
   && echo "$OUT" | grep -q 'var c__[0-9]* closure_env_c_[0-9]* =' \
   && echo "$OUT" | grep -q 'data: c__[0-9]*,'; then
  echo "  -> any holding closure_env_c_0 is asserted to func(int32) int32 (Go: run-time panic)"; FOUND=$((FOUND+1))
fi

if [ "$FOUND" -eq 3 ]; then echo "DEFECT PRESENT"; exit 0; fi
echo "defect absent or changed ($FOUND/3)"; exit 1
