#!/bin/sh
# Run from the repository root. Exits 0 when the defect is present.
set -u
HERE="$(cd "$(dirname "$0")" && pwd)"
BIN=./target/debug/compiler
[ -x "$BIN" ] || cargo build --offline -p compiler >/dev/null 2>&1 || exit 2
OUT="$($BIN run --dump-go "$HERE/prog/main.gom" 2>&1)"
echo "$OUT" | sed -n '/^func main0/,/^}/p'
# The two pushes onto the same vector v3 are emitted as two bare Go appends
# on the very same slice value (no copy): they share v3's backing array.
A="$(echo "$OUT" | grep -c 'var a__[0-9]* \[\]int32 = append(v3__[0-9]*, 10)')"
B="$(echo "$OUT" | grep -c 'var b__[0-9]* \[\]int32 = append(v3__[0-9]*, 20)')"
if [ "$A" = 1 ] && [ "$B" = 1 ]; then
  echo "DEFECT PRESENT: vec_push(v3, 10) and vec_push(v3, 20) both lower to append(v3, ..) on a shared backing array"
  exit 0
fi
echo "defect absent"
exit 1
