#!/usr/bin/env bash
# Run from the repository root. Exits 0 when the defect is PRESENT.
set -u
HERE="$(cd "$(dirname "$0")" && pwd)"
BIN="${GOML_BIN:-./target/debug/compiler}"
if [ ! -x "$BIN" ]; then cargo build --offline -p compiler >/dev/null 2>&1 || { echo "build failed"; exit 2; }; fi

out="$("$BIN" run --dump-go "$HERE/min_literals/main.gom" 2>&1)"
echo "$out"
ctl="$("$BIN" run --dump-go "$HERE/control/main.gom" 2>&1)"
echo "$ctl" | sed -n '/^func main0/,/^}/p' | head -8

n="$(echo "$out" | grep -c 'does not fit in')"
if [ "$n" -ge 5 ] && echo "$out" | grep -qF 'Integer literal 128 does not fit in int8' \
   && ! echo "$ctl" | grep -q '^error'; then
  echo "PRESENT: the minimum value of every signed integer type (-128i8, -32768i16, -2147483648, -9223372036854775808i64) cannot be written"
  exit 0
fi
exit 1
