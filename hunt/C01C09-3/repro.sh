#!/bin/sh
# Run from the repository root. Exits 0 when the defect is present.
# The compiler is run under a 3 GB address-space cap and a time limit so that the
# runaway monomorphisation cannot hurt the machine.
set -u
HERE="$(cd "$(dirname "$0")" && pwd)"
BIN=./target/debug/compiler
[ -x "$BIN" ] || cargo build --offline -p compiler >/dev/null 2>&1 || exit 2

LOG="$(mktemp)"
( ulimit -v 3000000; timeout 300 "$BIN" run --dump-go "$HERE/prog/main.gom" >"$LOG" 2>&1 )
RC=$?
tail -n 3 "$LOG"
echo "compiler exit status: $RC"
# Absent: the compiler either emits Go (reaching "failed to execute go" / running it) or reports a
# proper diagnostic ("error ..."), i.e. terminates normally.
# Present: killed by SIGABRT after "memory allocation of N bytes failed" (134) or by the timeout (124).
if [ "$RC" = 134 ] || [ "$RC" = 124 ] || [ "$RC" = 137 ] || grep -q 'memory allocation of .* failed' "$LOG"; then
  echo "DEFECT PRESENT: compiler does not terminate normally on a well-typed, terminating program"
  rm -f "$LOG"; exit 0
fi
rm -f "$LOG"
echo "defect absent"
exit 1
