#!/bin/bash
# Run from the repository root. Exit 0 = defect present.
set -u
HERE="$(cd "$(dirname "$0")" && pwd)"
BIN="${GOML_BIN:-./target/debug/compiler}"
if [ ! -x "$BIN" ]; then cargo build --offline -p compiler >/dev/null 2>&1 || { echo "build failed"; exit 2; }; fi
W="$(mktemp -d)"; trap 'rm -rf "$W"' EXIT

# layout 1: files main.gom, util.gom  (util.gom sorts last)
mkdir -p "$W/a" && cp "$HERE/proj/main.gom" "$W/a/main.gom" && cp "$HERE/proj/util.gom" "$W/a/util.gom"
"$BIN" run --dump-go "$W/a/main.gom" > "$W/a.out" 2>&1
# layout 2: the very same directory, but the package is entered through util.gom
# (the entry file is loaded first, the remaining files of the directory after it)
"$BIN" run --dump-go "$W/a/util.gom" > "$W/b.out" 2>&1

echo "--- layout 1 (main.gom, util.gom): diagnostics:"; grep -i "error" "$W/a.out" | grep -v "failed to execute go"
echo "--- layout 1: emitted get/bonus:"; grep -A3 "^func _goml_inherent_P_P_get\|^func bonus" "$W/a.out"
echo "--- layout 2 (same directory, entry file util.gom): emitted get/bonus:"; grep -A3 "^func _goml_inherent_P_P_get\|^func bonus" "$W/b.out"

# defect present iff: no duplicate-definition diagnostic, exactly one definition emitted, and which one depends on the file name
if grep -qi "error (typer)\|error (compile)\|error (lower)" "$W/a.out" "$W/b.out"; then echo "duplicates were diagnosed -> defect absent"; exit 1; fi
n1=$(grep -c "^func _goml_inherent_P_P_get" "$W/a.out"); n2=$(grep -c "^func bonus" "$W/a.out")
[ "$n1" = 1 ] && [ "$n2" = 1 ] || { echo "unexpected number of definitions"; exit 1; }
grep -A3 "^func _goml_inherent_P_P_get" "$W/a.out" | grep -q "+ 100" || exit 1
grep -A3 "^func bonus" "$W/a.out" | grep -q "1000" || exit 1
grep -A3 "^func _goml_inherent_P_P_get" "$W/b.out" | grep -q "+ 100" && exit 1
grep -A3 "^func bonus" "$W/b.out" | grep -q "1000" && exit 1
echo "DEFECT PRESENT: duplicate inherent method / function silently accepted; the definition loaded last wins (depends on which file is the entry file)"
exit 0
