#!/usr/bin/env bash
# Run from the repository root. Exits 0 when the defect is PRESENT.
# (No Go toolchain needed: the script inspects the emitted Go; see NOTES.md for the Go-spec argument.)
set -u
HERE="$(cd "$(dirname "$0")" && pwd)"
BIN="${GOML_BIN:-./target/debug/compiler}"
if [ ! -x "$BIN" ]; then cargo build --offline -p compiler >/dev/null 2>&1 || { echo "build failed"; exit 2; }; fi

present=0
show() { "$BIN" run --dump-go "$1" 2>&1 | sed -n '/^func main0/,/^}/p'; }

a="$(show "$HERE/negzero/main.gom")"; echo "$a"
if echo "$a" | grep -qE 'var nz__[0-9]+ float64 = -0$' && echo "$a" | grep -qE 'var nz_var__[0-9]+ float64 = -zero__[0-9]+$' \
   && echo "$a" | grep -qE 'var nz32__[0-9]+ float32 = -0$'; then
  echo "[negzero] PRESENT: -0.0 is emitted as the Go constant expression -0 (= +0), while -zero is a run-time negation (= -0)"
  present=1
fi

b="$(show "$HERE/neg_unsigned/main.gom")"; echo "$b"
if echo "$b" | grep -qE 'var a__[0-9]+ uint8 = -1$'; then
  echo "[neg_unsigned] PRESENT: -1u8 is emitted as 'var a uint8 = -1' (Go: constant -1 overflows uint8) instead of wrapping to 255"
  present=1
fi

c="$(show "$HERE/div_const_zero/main.gom")"; echo "$c"
if echo "$c" | grep -qE 'int32 = x__[0-9]+ / 0$'; then
  echo "[div_const_zero] PRESENT: x / 0 is emitted with the constant divisor 0 (Go: compile-time 'division by zero') instead of failing at run time"
  present=1
fi

[ "$present" = 1 ] && exit 0
exit 1
