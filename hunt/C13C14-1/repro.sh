#!/bin/bash
# Run from the repository root. Exits 0 when the defect is PRESENT.
# Defect: the whole-program pipeline puts the entry file FIRST in its package,
# separate compilation sorts the files; the top-level order is semantically
# significant downstream, so the two pipelines produce different programs.
set -u
HERE="$(cd "$(dirname "$0")" && pwd)"
ROOT="$PWD"
BIN="$ROOT/target/debug/compiler"
if [ ! -x "$BIN" ]; then (cd "$ROOT" && cargo build --offline -p compiler >/dev/null 2>&1); fi
[ -x "$BIN" ] || { echo "compiler binary not found"; exit 2; }
W="$(mktemp -d)"; trap 'rm -rf "$W"' EXIT
present=0

whole() { # $1 = project dir, $2 = entry file name, $3 = output go file
  (cd "$1" && "$BIN" run --dump-go "./$2" 2>/dev/null) | sed -n '/^== Go ==/,$p' | tail -n +2 > "$3"
}
separate() { # $1 = project dir, $2 = out dir
  mkdir -p "$2"
  (cd "$1" && "$BIN" build --package Main --input a.gom main.gom --interface-path "$2" --output "$2/Main" \
     && "$BIN" link --input "$2/Main.core" --output "$2/linked.go")
}

### Part A: silent behaviour difference (both outputs are valid Go)
cp -r "$HERE/proj_dup" "$W/dup"
whole "$W/dup" main.gom "$W/dup_whole.go"
separate "$W/dup" "$W/dup_sep" || { echo "separate build failed"; exit 2; }
wa=$(grep -A3 '^func helper()' "$W/dup_whole.go" | grep -o '= [0-9]*$' | head -1)
sa=$(grep -A3 '^func helper()' "$W/dup_sep/linked.go" | grep -o '= [0-9]*$' | head -1)
echo "[A] whole-program  : helper() returns '$wa'   (program prints ${wa#= })"
echo "[A] build + link   : helper() returns '$sa'   (program prints ${sa#= })"
if [ -n "$wa" ] && [ -n "$sa" ] && [ "$wa" != "$sa" ]; then present=1; echo "[A] DEFECT: the two pipelines emit programs that print different numbers"; fi
# the same directory compiled whole-program with the other file as entry also changes the program (C13 flavour)
whole "$W/dup" a.gom "$W/dup_whole_a.go"
wb=$(grep -A3 '^func helper()' "$W/dup_whole_a.go" | grep -o '= [0-9]*$' | head -1)
echo "[A] whole-program, entry ./a.gom instead of ./main.gom: helper() returns '$wb'"

### Part B: whole-program emits Go that does not compile, separate emits valid Go
cp -r "$HERE/proj_closure" "$W/clo"
whole "$W/clo" main.gom "$W/clo_whole.go"
separate "$W/clo" "$W/clo_sep" || { echo "separate build failed"; exit 2; }
echo "[B] whole-program main0:"; grep -n 'make_adder(3)' "$W/clo_whole.go"; grep -n '^func make_adder' "$W/clo_whole.go"
echo "[B] build + link main0:";  grep -n 'make_adder(3)' "$W/clo_sep/linked.go"; grep -n '^func make_adder' "$W/clo_sep/linked.go"
if grep -Eq 'var f__[0-9]+ func\(int32\) int32 = make_adder\(3\)' "$W/clo_whole.go" \
   && grep -Eq '^func make_adder\(n__[0-9]+ int32\) closure_env_make_adder_0' "$W/clo_whole.go" \
   && grep -Eq 'var f__[0-9]+ closure_env_make_adder_0 = make_adder\(3\)' "$W/clo_sep/linked.go"; then
  present=1
  echo "[B] DEFECT: whole-program assigns a struct (closure_env_make_adder_0) to a func(int32) int32 variable (not assignable in Go); build+link output is well typed"
fi

if [ $present = 1 ]; then exit 0; else echo "defect not observed"; exit 1; fi
