#!/bin/bash
# Run from the repository root. Exits 0 when the defect is PRESENT.
set -u
HERE="$(cd "$(dirname "${BASH_SOURCE[0]}")" && pwd)"
cargo build --offline -q -p compiler 2>/dev/null || cargo build --offline -p compiler || exit 2
BIN=./target/debug/compiler
W=$(mktemp -d)
cp -r "$HERE/crash" "$HERE/misattrib" "$W/"

# (a) syntax error in a sibling file of the package -> the CLI panics ("invalid offset")
out_a=$("$BIN" run "$W/crash/main.gom" 2>&1); st_a=$?
echo "--- crash/ : exit status $st_a"
echo "$out_a" | grep -v WARNING | head -3

# (b) syntax error in a sibling file -> reported with the ENTRY file's name and a line:col
#     computed in the ENTRY file's text (1:12 lies inside a comment of main.gom)
out_b=$("$BIN" run "$W/misattrib/main.gom" 2>&1); st_b=$?
echo "--- misattrib/ : exit status $st_b"
echo "$out_b" | grep -v WARNING | head -3
rm -rf "$W"

present=1
if [ $st_a -eq 101 ] && echo "$out_a" | grep -q "invalid offset"; then present=0; fi
if echo "$out_b" | grep -q "main.gom: 1:12: expect \")\", actual \"->\""; then present=0; fi
exit $present
