#!/usr/bin/env bash
# Run from the repository root. Exit 0 = defect present.
set -u
DIR="$(cd "$(dirname "$0")" && pwd)"
T=crates/compiler/tests/zz_query_probe_c18c20_2.rs
TMP="$(mktemp -d)"
trap 'rm -f "$T"; rm -rf "$TMP"' EXIT
cp "$DIR/query_probe.rs" "$T"
cp -r "$DIR/proj" "$TMP/proj"
cargo build --offline -p compiler >/dev/null 2>&1 || { echo "build failed"; exit 2; }
cargo test --offline -p compiler --test zz_query_probe_c18c20_2 --no-run >/dev/null 2>&1 || { echo "test build failed"; exit 2; }

echo "--- what the compiler assigns (typed AST of the project) ---"
BIN="$PWD/target/debug/compiler"
TAST="$(cd "$TMP/proj" && "$BIN" run --dump-tast ./main.gom 2>&1)"
echo "$TAST" | grep -n 'let a/' 

# hover on the binder `a` of main.gom line 5 (0-based line 4, col 8): `let a = Lib::one();`
OUT="$(Q_FILE="$TMP/proj/main.gom" Q_PATH="$TMP/proj/main.gom" Q_LINE=4 Q_COL=8 \
      cargo test --offline -p compiler --test zz_query_probe_c18c20_2 -- --nocapture 2>&1)"
echo "--- hover on binder a in main.gom (line 5) ---"
echo "$OUT" | grep '^HOVER'
# hover on binder `b` (line 6): `let b = a + 1;`
OUT2="$(Q_FILE="$TMP/proj/main.gom" Q_PATH="$TMP/proj/main.gom" Q_LINE=5 Q_COL=8 \
      cargo test --offline -p compiler --test zz_query_probe_c18c20_2 -- --nocapture 2>&1)"
echo "--- hover on binder b in main.gom (line 6) ---"
echo "$OUT2" | grep '^HOVER'

if echo "$TAST" | grep -q 'let a/0: int32' && echo "$OUT" | grep -q '^HOVER Ok(Ok("string"))' ; then
  echo "PRESENT: compiler says a: int32, hover says string (type of util.gom's binder at the same byte range)"
  exit 0
fi
exit 1
