#!/usr/bin/env bash
# Run from the repository root. Exit 0 = defect present.
set -u
HERE="$(cd "$(dirname "${BASH_SOURCE[0]}")" && pwd)"
BIN="${GOML_BIN:-./target/debug/compiler}"
if [ ! -x "$BIN" ]; then
  cargo build --offline -p compiler >/dev/null 2>&1 || { echo "build failed"; exit 2; }
fi
TMP="$(mktemp -d)"
trap 'rm -rf "$TMP"' EXIT
cp -r "$HERE"/poly_rec "$HERE"/nested_datatype "$TMP"/
LIMIT="${GOML_TIMEOUT:-60}"

present=0

# (1) polymorphic recursion: accepted by the typer, monomorphisation never terminates.
if "$BIN" check --package Main --input "$TMP/poly_rec/main.gom" --output "$TMP/i" >"$TMP/c1.log" 2>&1; then
  ( ulimit -v 4000000; timeout "$LIMIT" "$BIN" run "$TMP/poly_rec/main.gom" >"$TMP/o1" 2>&1 )
  rc=$?
  if [ $rc -eq 124 ] || [ $rc -ge 128 ]; then
    echo "poly_rec: PRESENT: accepted by check; 'run' did not finish within ${LIMIT}s / was killed (exit $rc)"
    present=1
  elif [ $rc -eq 101 ] && grep -q -i 'memory allocation\|capacity overflow' "$TMP/o1"; then
    echo "poly_rec: PRESENT: accepted by check; 'run' exhausted memory (exit $rc)"
    present=1
  else
    echo "poly_rec: absent (exit $rc): $(head -c 300 "$TMP/o1")"
  fi
else
  echo "poly_rec: absent (rejected by check): $(head -c 300 "$TMP/c1.log")"
fi

# (2) non-regular (nested) data type: accepted by the typer, TypeMono recursion overflows the stack.
if "$BIN" check --package Main --input "$TMP/nested_datatype/main.gom" --output "$TMP/j" >"$TMP/c2.log" 2>&1; then
  ( ulimit -v 4000000; timeout "$LIMIT" "$BIN" run "$TMP/nested_datatype/main.gom" >"$TMP/o2" 2>&1 )
  rc=$?
  if [ $rc -eq 124 ] || [ $rc -ge 128 ]; then
    echo "nested_datatype: PRESENT: accepted by check; 'run' crashed/hung (exit $rc): $(grep -m1 -i 'overflow' "$TMP/o2")"
    present=1
  else
    echo "nested_datatype: absent (exit $rc): $(head -c 300 "$TMP/o2")"
  fi
else
  echo "nested_datatype: absent (rejected by check): $(head -c 300 "$TMP/c2.log")"
fi

[ $present -eq 1 ] && exit 0 || exit 1
