#!/bin/bash
# Run from the repository root. Exit 0 = defect present.
set -u
HERE="$(cd "$(dirname "$0")" && pwd)"
BIN="${GOML_BIN:-./target/debug/compiler}"
if [ ! -x "$BIN" ]; then cargo build --offline -p compiler >/dev/null 2>&1 || { echo "build failed"; exit 2; }; fi
W="$(mktemp -d)"; trap 'rm -rf "$W"' EXIT

cp -r "$HERE/proj" "$W/a"                       # Main imports T and U only (it names only T:: and U:: items)
cp -r "$HERE/proj" "$W/b"                       # identical, plus an `import D` that Main never uses by name
sed -i 's/^import U$/import U\nimport D/' "$W/b/main.gom"

"$BIN" run --dump-go "$W/a/main.gom" > "$W/a.out" 2>&1
"$BIN" run --dump-go "$W/b/main.gom" > "$W/b.out" 2>&1
echo "--- Main without 'import D':"; grep "error (" "$W/a.out"
echo "--- Main with an otherwise unused 'import D': $(grep -c 'error (' "$W/b.out") errors"
grep -n "trait_impl_T_x3a__x3a_Show_D_x3a__x3a_S_show(" "$W/b.out" | head -3

grep -q "No instance found for trait T::Show<TStruct(D::S)>" "$W/a.out" || exit 1
grep -q "Struct D::S not found when accessing field v" "$W/a.out" || exit 1
[ "$(grep -c 'error (' "$W/b.out")" = 0 ] || exit 1
# the generic call T::show_twice(U::mk()) is accepted in both variants and dispatches to the very same impl
grep -q "show_twice" "$W/b.out" || exit 1
echo "DEFECT PRESENT: whether T::Show::show(U::mk()) / U::mk().v type-check depends on importing package D, which Main never names"
exit 0
