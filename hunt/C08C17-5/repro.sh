#!/bin/sh
# Run from the repository root. Exit 0 = defect present.
HERE=$(cd "$(dirname "$0")" && pwd)
BIN=${GOML_COMPILER:-./target/debug/compiler}
[ -x "$BIN" ] || cargo build --offline -p compiler >/dev/null 2>&1 || { echo "cannot build compiler"; exit 2; }
TMP=$(mktemp -d) ; trap 'rm -rf "$TMP"' EXIT
for p in prog prog_enum; do mkdir -p "$TMP/$p" && cp "$HERE/$p/main.gom" "$TMP/$p/main.gom"; done
FOUND=0
check() { # $1 prog  $2 undefined callee  $3 real impl name
  OUT=$("$BIN" run --dump-go "$TMP/$1/main.gom" 2>&1)
  echo "--- $1"
  echo "$OUT" | grep -E "return $2\(|^func $3\(|= $3\("
  CALLS=$(echo "$OUT" | grep -c "return $2(")
  DEFS=$(echo "$OUT" | grep -c "^func $2(")
  REAL=$(echo "$OUT" | grep -c "^func $3(")
  if [ "$CALLS" -ge 1 ] && [ "$DEFS" -eq 0 ] && [ "$REAL" -eq 1 ]; then
    echo "  -> dyn wrapper calls $2, which is declared nowhere (the impl is emitted as $3)"
    FOUND=$((FOUND+1))
  fi
}
check prog      _goml_trait_impl_Show_Box__int32_show _goml_trait_impl_Show_Box_x5b_int32_x5d__show
check prog_enum _goml_trait_impl_Show_Opt__int32_show _goml_trait_impl_Show_Opt_x5b_int32_x5d__show
if [ "$FOUND" -eq 2 ]; then echo "DEFECT PRESENT"; exit 0; fi
echo "defect absent or changed ($FOUND/2)"; exit 1
