#!/usr/bin/env bash
# Run from the repository root. Exit 0 = defect present.
set -u
HERE="$(cd "$(dirname "${BASH_SOURCE[0]}")" && pwd)"
BIN="${GOML_BIN:-./target/debug/compiler}"
if [ ! -x "$BIN" ]; then
  cargo build --offline -p compiler >/dev/null 2>&1 || { echo "build failed"; exit 2; }
fi
TMP="$(mktemp -d)"
trap 'rm -rf "$TMP"' EXIT
cp -r "$HERE"/unknown_type "$HERE"/unbound_tparam "$HERE"/wrong_arity "$HERE"/closure_param "$TMP"/

present=0

# (a) unknown type name inside a let annotation is accepted by `check`
#     and reaches the Go backend as the undeclared Go type `Nope`.
if "$BIN" check --package Main --input "$TMP/unknown_type/main.gom" --output "$TMP/a" >"$TMP/a.log" 2>&1; then
  "$BIN" run --dump-go "$TMP/unknown_type/main.gom" >"$TMP/a.go" 2>&1
  if grep -q '\[\]Nope' "$TMP/a.go"; then
    echo "(a) PRESENT: check accepted; emitted Go: $(grep '\[\]Nope' "$TMP/a.go" | head -1)"
    present=1
  fi
else
  echo "(a) absent: check rejected: $(head -c 300 "$TMP/a.log")"
fi

# (b) a type parameter that is not in scope is accepted and survives to Go as `T`.
if "$BIN" check --package Main --input "$TMP/unbound_tparam/main.gom" --output "$TMP/b" >"$TMP/b.log" 2>&1; then
  "$BIN" run --dump-go "$TMP/unbound_tparam/main.gom" >"$TMP/b.go" 2>&1
  if grep -q '\[\]T\b' "$TMP/b.go"; then
    echo "(b) PRESENT: check accepted; emitted Go: $(grep '\[\]T\b' "$TMP/b.go" | head -1)"
    present=1
  fi
else
  echo "(b) absent: check rejected"
fi

# (c) wrong number of type arguments in a let annotation: accepted by `check`, panics in mono.
if "$BIN" check --package Main --input "$TMP/wrong_arity/main.gom" --output "$TMP/c" >"$TMP/c.log" 2>&1; then
  "$BIN" run "$TMP/wrong_arity/main.gom" >"$TMP/c.out" 2>&1
  rc=$?
  if [ $rc -eq 101 ] && grep -q 'generic argument length mismatch' "$TMP/c.out"; then
    echo "(c) PRESENT: check accepted; run panicked: $(grep 'generic argument length mismatch' "$TMP/c.out" | head -1)"
    present=1
  fi
else
  echo "(c) absent: check rejected"
fi

# (d) same through closure parameter annotations.
if "$BIN" check --package Main --input "$TMP/closure_param/main.gom" --output "$TMP/d" >"$TMP/d.log" 2>&1; then
  "$BIN" run "$TMP/closure_param/main.gom" >"$TMP/d.out" 2>&1
  rc=$?
  if [ $rc -eq 101 ]; then
    echo "(d) PRESENT: check accepted; run panicked: $(grep -m1 'mismatch\|panicked' "$TMP/d.out")"
    present=1
  fi
else
  echo "(d) absent: check rejected"
fi

[ $present -eq 1 ] && exit 0 || exit 1
