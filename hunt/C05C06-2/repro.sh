#!/usr/bin/env bash
# Run from the repository root. Exits 0 when the defect is PRESENT.
set -u
HERE="$(cd "$(dirname "${BASH_SOURCE[0]}")" && pwd)"
BIN="${GOML_BIN:-./target/debug/compiler}"
if [ ! -x "$BIN" ]; then
    cargo build --offline -p compiler >/dev/null 2>&1 || { echo "build failed"; exit 2; }
fi
BIN="$(cd "$(dirname "$BIN")" && pwd)/$(basename "$BIN")"
out="$(cd "$HERE/prog" && "$BIN" run --dump-go ./main.gom 2>&1)"
echo "$out" | sed -n '/^func describe/,/^}/p'
# The defect: inside `case Circle:` of `switch s__0 := s__0.(type)` (where s__0 now has the
# concrete struct type Circle) a second `switch s__0 := s__0.(type)` is emitted.
python3 - "$out" <<'PY'
import re, sys
text = sys.argv[1]
bad = False
for m in re.finditer(r'^func (\w+)\(.*?^}', text, re.S | re.M):
    body = m.group(0)
    stack = []   # (indent, name) of enclosing binding type switches
    for line in body.splitlines():
        ind = len(line) - len(line.lstrip())
        while stack and ind <= stack[-1][0] and line.strip() == '}':
            stack.pop()
        mm = re.match(r'\s*switch (\w+) := (\w+)\.\(type\) \{', line)
        if mm and mm.group(1) == mm.group(2):
            if any(n == mm.group(1) for _, n in stack):
                print("nested type switch on the rebound, concrete-typed variable %s in func %s" % (mm.group(1), m.group(1)))
                bad = True
            stack.append((ind, mm.group(1)))
sys.exit(0 if bad else 1)
PY
