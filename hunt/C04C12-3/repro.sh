#!/bin/bash
# Run from the repository root. Exits 0 when the defect is PRESENT (the compiler does not terminate).
set -u
HERE="$(cd "$(dirname "${BASH_SOURCE[0]}")" && pwd)"
cargo build --offline -q -p compiler 2>/dev/null || cargo build --offline -p compiler || exit 2
BIN=./target/debug/compiler
W=$(mktemp -d)
cp -r "$HERE/polyrec" "$HERE/nested_type" "$W/"
LIMIT=${LIMIT:-20}
present=1
for t in polyrec nested_type; do
  # memory is capped at 4 GiB so that the runaway compiler cannot take the machine down
  ( ulimit -v 4194304; timeout "$LIMIT" "$BIN" run "$W/$t/main.gom" >"$W/$t.out" 2>&1 ); st=$?
  echo "--- $t: exit status $st (124 = still running after ${LIMIT}s and killed)"
  grep -v WARNING "$W/$t.out" | grep -v '^$' | head -3
  if [ $st -eq 124 ] || [ $st -eq 134 ] || grep -q "memory allocation of" "$W/$t.out"; then present=0; fi
done
rm -rf "$W"
exit $present
