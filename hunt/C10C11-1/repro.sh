#!/usr/bin/env bash
# Run from the repository root. Exits 0 when the defect is PRESENT.
set -u
HERE="$(cd "$(dirname "$0")" && pwd)"
BIN="${GOML_BIN:-./target/debug/compiler}"
if [ ! -x "$BIN" ]; then cargo build --offline -p compiler >/dev/null 2>&1 || { echo "build failed"; exit 2; }; fi

present=0

# 1. silent miscompilation: `-tick()` loses the call, program is accepted and tick() is never called
out="$("$BIN" run --dump-ast --dump-go "$HERE/silent/main.gom" 2>&1)"
echo "$out" | sed -n '/== AST ==/,/== Go ==/p'
echo "$out" | sed -n '/^func main0/,/^}/p'
if echo "$out" | grep -q 'error'; then
  echo "[silent] front end reported an error (defect variant absent)"
else
  main0="$(echo "$out" | sed -n '/^func main0/,/^}/p')"
  if echo "$out" | grep -q 'let _ = -tick;' && ! echo "$main0" | grep -q 'tick()'; then
    echo "[silent] PRESENT: AST has '-tick' (no call) and emitted main0 never calls tick()"
    present=1
  fi
fi

# 2. rejection: !done(), -three(), !q.is_empty(), -q.size() are all type errors ...
out2="$("$BIN" run --dump-ast "$HERE/rejected/main.gom" 2>&1)"
echo "$out2"
# ... while the same program with the calls parenthesised is accepted
out3="$("$BIN" run --dump-ast "$HERE/control/main.gom" 2>&1)"
if echo "$out2" | grep -q 'Types are not equal: TFunc(\[\], TBool) and TBool' \
   && ! echo "$out3" | grep -q 'error (typer)'; then
  echo "[rejected] PRESENT: prefix operator applied to a zero-argument call is read as operator applied to the function"
  present=1
fi

[ "$present" = 1 ] && exit 0
exit 1
