#!/bin/sh
# Run from the repository root. Exit 0 = defect present.
HERE=$(cd "$(dirname "$0")" && pwd)
BIN=${GOML_COMPILER:-./target/debug/compiler}
[ -x "$BIN" ] || cargo build --offline -p compiler >/dev/null 2>&1 || { echo "cannot build compiler"; exit 2; }
TMP=$(mktemp -d) ; trap 'rm -rf "$TMP"' EXIT
for p in prog_struct prog_enum prog_unary prog_arg; do mkdir -p "$TMP/$p" && cp "$HERE/$p/main.gom" "$TMP/$p/main.gom"; done
FOUND=0

echo "--- prog_struct: let d: dyn Show = P { x: 1 }"
OUT=$("$BIN" run --dump-go "$TMP/prog_struct/main.gom" 2>&1)
echo "$OUT" | sed -n '/^func main0/,/^}/p' | head -12
if echo "$OUT" | tr '\n' ' ' | grep -q 'dyn__Show = dyn__Show{ *x: 1, *}'; then
  echo "  -> the struct literal P{x:1} is emitted as dyn__Show{x: 1} (Go: unknown field x in struct literal)"; FOUND=$((FOUND+1)); fi

echo "--- prog_arg: show_dyn(P { x: 2 })"
OUT=$("$BIN" run --dump-go "$TMP/prog_arg/main.gom" 2>&1)
if echo "$OUT" | tr '\n' ' ' | grep -q 'dyn__Show = dyn__Show{ *x: 2, *}'; then
  echo "  -> same in argument position"; FOUND=$((FOUND+1)); fi

echo "--- prog_unary: let d: dyn Show = -x"
OUT=$("$BIN" run --dump-go "$TMP/prog_unary/main.gom" 2>&1)
echo "$OUT" | grep -E 'dyn__Show = -x__'
if echo "$OUT" | grep -q 'var t[0-9]* dyn__Show = -x__[0-9]*'; then
  echo "  -> int32 value assigned to a variable of struct type dyn__Show (Go: not assignable)"; FOUND=$((FOUND+1)); fi

echo "--- prog_enum: let d: dyn Show = E::A(1)"
OUT=$("$BIN" run --dump-go "$TMP/prog_enum/main.gom" 2>&1)
echo "$OUT" | grep -A1 'panicked at'
if echo "$OUT" | grep -q 'Expected a constructor type, got: TDyn(Show)'; then
  echo "  -> compiler panic"; FOUND=$((FOUND+1)); fi

if [ "$FOUND" -eq 4 ]; then echo "DEFECT PRESENT"; exit 0; fi
echo "defect absent or changed ($FOUND/4)"; exit 1
