#!/bin/sh
# Run from the repository root. Exit 0 = defect present.
HERE=$(cd "$(dirname "$0")" && pwd)
BIN=${GOML_COMPILER:-./target/debug/compiler}
[ -x "$BIN" ] || cargo build --offline -p compiler >/dev/null 2>&1 || { echo "cannot build compiler"; exit 2; }
TMP=$(mktemp -d) ; trap 'rm -rf "$TMP"' EXIT
mkdir -p "$TMP/prog" && cp "$HERE/prog/main.gom" "$TMP/prog/main.gom"
OUT=$("$BIN" run --dump-go "$TMP/prog/main.gom" 2>&1)
echo "$OUT" | sed -n '/^func main0/,/^}/p'
# p.tag() must call the exact impl, Pair::tag(p) the generic one -> two different callees for one method
DOT=$(echo "$OUT" | grep -c 'var t[0-9]* string = _goml_inherent_Pair_Pair_x5b_int32_x2c_int32_x5d__tag(p__')
UFCS=$(echo "$OUT" | grep -c 'var t[0-9]* string = _goml_inherent_Pair_Pair_x5b_U_x2c_V_x5d__tag__U_int32__V_int32(p__')
if [ "$DOT" -ge 1 ] && [ "$UFCS" -ge 1 ]; then
  echo "DEFECT PRESENT: p.tag() -> exact impl (\"exact\"), Pair::tag(p) -> generic impl (\"generic\")"
  exit 0
fi
echo "defect absent"
exit 1
