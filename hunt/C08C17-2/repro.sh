#!/bin/sh
# Run from the repository root. Exit 0 = defect present.
HERE=$(cd "$(dirname "$0")" && pwd)
BIN=${GOML_COMPILER:-./target/debug/compiler}
[ -x "$BIN" ] || cargo build --offline -p compiler >/dev/null 2>&1 || { echo "cannot build compiler"; exit 2; }
TMP=$(mktemp -d) ; trap 'rm -rf "$TMP"' EXIT
mkdir -p "$TMP/prog" && cp "$HERE/prog/main.gom" "$TMP/prog/main.gom"
OUT=$("$BIN" run --dump-core --dump-go "$TMP/prog/main.gom" 2>&1)
echo "$OUT" | sed -n '/^== Core ==/,/^fn main/p'
echo "$OUT" | sed -n '/^func _goml_inherent_P_P_tag/,/^}/p'
# defect: no diagnostic, two core functions with one name, only the body "second" survives in Go
if echo "$OUT" | grep -q '^error'; then echo "defect absent (diagnosed)"; exit 1; fi
NCORE=$(echo "$OUT" | grep -c '^fn inherent#P#P#tag(')
NGO=$(echo "$OUT" | grep -c '^func _goml_inherent_P_P_tag(')
if [ "$NCORE" -eq 2 ] && [ "$NGO" -eq 1 ] && echo "$OUT" | grep -q 'ret[0-9]* = "second"' && ! echo "$OUT" | grep -q 'ret[0-9]* = "first"'; then
  echo "DEFECT PRESENT: method P::tag defined twice, accepted silently, the later body wins"
  exit 0
fi
echo "defect absent"
exit 1
