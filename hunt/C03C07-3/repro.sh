#!/usr/bin/env bash
# Run from the repository root. Exit 0 = defect present.
set -u
HERE="$(cd "$(dirname "${BASH_SOURCE[0]}")" && pwd)"
BIN="${GOML_BIN:-./target/debug/compiler}"
if [ ! -x "$BIN" ]; then
  cargo build --offline -p compiler >/dev/null 2>&1 || { echo "build failed"; exit 2; }
fi
TMP="$(mktemp -d)"
trap 'rm -rf "$TMP"' EXIT
cp -r "$HERE"/dyn_generic_struct "$TMP"/

if ! "$BIN" check --package Main --input "$TMP/dyn_generic_struct/main.gom" --output "$TMP/i" >"$TMP/check.log" 2>&1; then
  echo "absent: rejected by check: $(head -c 300 "$TMP/check.log")"; exit 1
fi
"$BIN" run --dump-mono --dump-go "$TMP/dyn_generic_struct/main.gom" >"$TMP/out" 2>&1
awk '/^== Go ==/{f=1} f' "$TMP/out" >"$TMP/go"

# functions the vtable wrappers call
called=$(grep -o -E '_goml_trait_impl_Show_[A-Za-z0-9_]*_show' "$TMP/go" | sort -u)
missing=0
for fn in $called; do
  if ! grep -q -E "^func $fn\(" "$TMP/go"; then
    echo "PRESENT: Go calls $fn but never defines it"
    missing=1
  fi
done
echo "--- trait impl functions in Mono:"
grep -E '^fn trait_impl#' "$TMP/out" | sed 's/^/    /'
echo "--- Go functions whose name contains trait_impl:"
grep -E '^func .*trait_impl' "$TMP/go" | sed 's/^/    /' || true
[ $missing -eq 1 ] && exit 0 || exit 1
