#!/usr/bin/env bash
# Run from the repository root. Exit 0 = defect present.
set -u
DIR="$(cd "$(dirname "$0")" && pwd)"
T=crates/compiler/tests/zz_query_probe_c18c20_6.rs
TMP="$(mktemp -d)"
trap 'rm -f "$T"; rm -rf "$TMP"' EXIT
cp "$DIR/query_probe.rs" "$T"
cargo build --offline -p compiler >/dev/null 2>&1 || { echo "build failed"; exit 2; }
cargo test --offline -p compiler --test zz_query_probe_c18c20_6 --no-run >/dev/null 2>&1 || { echo "test build failed"; exit 2; }
BIN="$PWD/target/debug/compiler"
cp -r "$DIR/inserted_assoc" "$DIR/inserted_ref" "$TMP/"

echo "--- (1) completions after 'p.' with p: Point (line 10, col 14)"
O1="$(Q_FILE="$DIR/edit_assoc.gom" Q_LINE=10 Q_COL=14 cargo test --offline -p compiler --test zz_query_probe_c18c20_6 -- --nocapture 2>&1 | grep '^DOT')"
echo "$O1"
echo "--- inserting the offered 'origin' / 'new': compiler says"
C1="$(cd "$TMP/inserted_assoc" && "$BIN" run --dump-go ./main.gom 2>&1 | grep '^error' | head -3)"
echo "$C1"

echo "--- (2) completions after 'r.' with r: Ref[Point] (line 9, col 14)"
O2="$(Q_FILE="$DIR/edit_ref.gom" Q_LINE=9 Q_COL=14 cargo test --offline -p compiler --test zz_query_probe_c18c20_6 -- --nocapture 2>&1 | grep '^DOT')"
echo "$O2"
echo "--- inserting the offered field 'x': compiler says"
C2="$(cd "$TMP/inserted_ref" && "$BIN" run --dump-go ./main.gom 2>&1 | grep '^error' | head -3)"
echo "$C2"

A=1; B=1
echo "$O1" | grep -q 'origin:Method' && echo "$O1" | grep -q 'new:Method' && [ -n "$C1" ] && A=0
echo "$O2" | grep -q 'x:Field:int32' && echo "$O2" | grep -q 'getx:Method' && [ -n "$C2" ] && B=0
[ $A -eq 0 ] && echo "PRESENT (1): receiver-less associated functions are offered as methods"
[ $B -eq 0 ] && echo "PRESENT (2): members of T are offered on a Ref[T] receiver"
[ $A -eq 0 ] || [ $B -eq 0 ]
