#!/bin/sh
# Run from the repository root. Exit 0 = defect present.
ROOT=$(pwd)
HERE=$(cd "$(dirname "$0")" && pwd)
cargo build --offline -q -p compiler 2>/dev/null || cargo build --offline -p compiler || exit 2
BIN="$ROOT/target/debug/compiler"
OUT=$(mktemp -d); trap 'rm -rf "$OUT"' EXIT
present=1
for p in wrapper selfnamed; do
  (cd "$HERE/$p" && "$BIN" run --dump-go ./main.gom >"$OUT/$p.go" 2>"$OUT/$p.err")
  grep -q '^func main0()' "$OUT/$p.go" || { echo "$p not compiled:"; cat "$OUT/$p.err"; exit 1; }
  # a package-level type name declared more than once
  dups=$(grep -o '^type [A-Za-z0-9_]* ' "$OUT/$p.go" | sort | uniq -d)
  if [ -n "$dups" ]; then
    present=0
    echo "== $p: package-level type declared twice: $dups"
    grep -n -A3 '^type Tree ' "$OUT/$p.go"
  fi
done
[ $present -eq 0 ] || { echo "defect absent"; exit 1; }
echo "DEFECT PRESENT"
exit 0
