#!/bin/bash
# Run from the repository root. Exits 0 when the defect is PRESENT.
# Defect: `check`/`build` silently drop the imports "Builtin" and <own package> (separate.rs l.189, l.223),
# whole-program compilation treats them as ordinary packages (directory lookup / cycle detection).
# The same one-file project is accepted by build+link and rejected by `run`.
set -u
HERE="$(cd "$(dirname "$0")" && pwd)"
ROOT="$PWD"
BIN="$ROOT/target/debug/compiler"
if [ ! -x "$BIN" ]; then (cd "$ROOT" && cargo build --offline -p compiler >/dev/null 2>&1); fi
[ -x "$BIN" ] || { echo "compiler binary not found"; exit 2; }
W="$(mktemp -d)"; trap 'rm -rf "$W"' EXIT
present=1
for p in proj_self proj_builtin; do
  cp -r "$HERE/$p" "$W/$p"; O="$W/$p.out"; mkdir -p "$O"
  cd "$W/$p"
  "$BIN" run --dump-go ./main.gom > "$O/whole.txt" 2> "$O/whole.err"
  whole_ok=0; grep -q '^== Go ==' "$O/whole.txt" && whole_ok=1
  sep_ok=0
  "$BIN" check --package Main --input main.gom --interface-path "$O" --output "$O/Main" 2> "$O/check.err" \
   && "$BIN" build --package Main --input main.gom --interface-path "$O" --output "$O/Main" 2> "$O/build.err" \
   && "$BIN" link --input "$O/Main.core" --output "$O/linked.go" 2> "$O/link.err" && [ -s "$O/linked.go" ] && sep_ok=1
  echo "== $p: whole-program accepted=$whole_ok   check+build+link accepted=$sep_ok"
  grep -v 'failed to execute go' "$O/whole.err" | head -3
  [ $whole_ok = 0 ] && [ $sep_ok = 1 ] || present=0
done
if [ $present = 1 ]; then echo "DEFECT: projects rejected by whole-program compilation are accepted by separate compilation"; exit 0; fi
echo "defect not observed"; exit 1
