#!/usr/bin/env bash
# Run from the repository root. Exits 0 when the defect is PRESENT.
set -u
HERE="$(cd "$(dirname "${BASH_SOURCE[0]}")" && pwd)"
BIN="${GOML_BIN:-./target/debug/compiler}"
if [ ! -x "$BIN" ]; then
    cargo build --offline -p compiler >/dev/null 2>&1 || { echo "build failed"; exit 2; }
fi
BIN="$(cd "$(dirname "$BIN")" && pwd)/$(basename "$BIN")"
present=0
for d in wrap selfname; do
    out="$(cd "$HERE/$d" && "$BIN" run --dump-go ./main.gom 2>&1)"
    if echo "$out" | grep -q '^error'; then echo "[$d] rejected by goml:"; echo "$out" | head -3; continue; fi
    dups="$(echo "$out" | grep -E '^type [A-Za-z_0-9]+ ' | awk '{print $2}' | sort | uniq -d)"
    if [ -n "$dups" ]; then
        echo "[$d] Go type declared twice at package level: $dups"
        echo "$out" | grep -E "^type ($dups) "
        echo "$out" | sed -n '/^func show/,/^}/p'
        present=1
    fi
done
if [ "$present" = 1 ]; then exit 0; else echo "defect not observed"; exit 1; fi
