#!/usr/bin/env bash
# Run from the repository root. Exit 0 = defect present.
set -u
DIR="$(cd "$(dirname "$0")" && pwd)"
cargo build --offline -p compiler >/dev/null 2>&1 || { echo "build failed"; exit 2; }
BIN="$PWD/target/debug/compiler"
TMP="$(mktemp -d)"; trap 'rm -rf "$TMP"' EXIT
cp -r "$DIR/tostring_bool" "$DIR/tojson_int64" "$DIR/all" "$TMP/"
R=0
for d in tostring_bool tojson_int64 all; do
  echo "--- $d"
  OUT="$(cd "$TMP/$d" && "$BIN" run --dump-go ./main.gom 2>&1)"
  echo "$OUT" | grep '^error' | sort | uniq -c
  # defect: no derive diagnostic, the failure comes from the typer on generated code
  if echo "$OUT" | grep -q 'error (typer).*Method to_string not found' && ! echo "$OUT" | grep -qi 'derive' ; then
    echo "PRESENT for $d"
  else
    R=1
  fi
done
exit $R
