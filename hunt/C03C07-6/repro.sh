#!/usr/bin/env bash
# Run from the repository root. Exit 0 = defect present.
set -u
HERE="$(cd "$(dirname "${BASH_SOURCE[0]}")" && pwd)"
BIN="${GOML_BIN:-./target/debug/compiler}"
if [ ! -x "$BIN" ]; then
  cargo build --offline -p compiler >/dev/null 2>&1 || { echo "build failed"; exit 2; }
fi
TMP="$(mktemp -d)"
trap 'rm -rf "$TMP"' EXIT
cp -r "$HERE"/ref_tuple_collision "$TMP"/

if ! "$BIN" check --package Main --input "$TMP/ref_tuple_collision/main.gom" --output "$TMP/i" >"$TMP/check.log" 2>&1; then
  echo "absent: rejected by check: $(head -c 300 "$TMP/check.log")"; exit 1
fi
"$BIN" run --dump-go "$TMP/ref_tuple_collision/main.gom" >"$TMP/out" 2>&1
awk '/^== Go ==/{f=1} f' "$TMP/out" >"$TMP/go"

# top-level Go declarations (type X / func X) that occur more than once
dups=$(grep -E '^(type|func) [A-Za-z_][A-Za-z0-9_]*' "$TMP/go" | sed -E 's/^(type|func) ([A-Za-z_][A-Za-z0-9_]*).*/\1 \2/' | sort | uniq -d)
if [ -n "$dups" ]; then
  echo "PRESENT: accepted by check; the emitted Go declares these package-level names more than once:"
  echo "$dups" | sed 's/^/    /'
  echo "--- the conflicting declarations:"
  grep -n -E '^type ref_tuple|^func ref(_get)?__Ref_Tuple' "$TMP/go" | sed 's/^/    /'
  exit 0
fi
echo "absent: no duplicate Go declarations"
exit 1
