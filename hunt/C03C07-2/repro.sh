#!/usr/bin/env bash
# Run from the repository root. Exit 0 = defect present.
set -u
HERE="$(cd "$(dirname "${BASH_SOURCE[0]}")" && pwd)"
BIN="${GOML_BIN:-./target/debug/compiler}"
if [ ! -x "$BIN" ]; then
  cargo build --offline -p compiler >/dev/null 2>&1 || { echo "build failed"; exit 2; }
fi
TMP="$(mktemp -d)"
trap 'rm -rf "$TMP"' EXIT
cp -r "$HERE"/arg "$HERE"/letbound "$TMP"/

present=0
for t in arg letbound; do
  if ! "$BIN" check --package Main --input "$TMP/$t/main.gom" --output "$TMP/$t.i" >"$TMP/$t.log" 2>&1; then
    echo "$t: absent (rejected by check): $(head -c 300 "$TMP/$t.log")"
    continue
  fi
  "$BIN" run --dump-mono --dump-go "$TMP/$t/main.gom" >"$TMP/$t.out" 2>&1
  # The generic `id` is referenced by its bare name ...
  uses=$(awk '/^== Go ==/{f=1} f' "$TMP/$t.out" | grep -c -E '(\(|= )id(,|$)')
  # ... but no Go function called `id` (and no specialisation id__T_...) is emitted.
  defs=$(awk '/^== Go ==/{f=1} f' "$TMP/$t.out" | grep -c -E '^func (id|id__T_[A-Za-z0-9_]*)\(')
  if [ "$uses" -ge 1 ] && [ "$defs" -eq 0 ]; then
    echo "$t: PRESENT: accepted; Go references undefined identifier 'id':"
    awk '/^== Go ==/{f=1} f' "$TMP/$t.out" | grep -E '(\(|= )id(,|$)' | sed 's/^/    /'
    present=1
  else
    echo "$t: absent (uses=$uses defs=$defs)"
  fi
done
[ $present -eq 1 ] && exit 0 || exit 1
