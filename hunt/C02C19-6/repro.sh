#!/bin/sh
# Run from the repository root. Exit 0 = defect present.
ROOT=$(pwd)
HERE=$(cd "$(dirname "$0")" && pwd)
cargo build --offline -q -p compiler 2>/dev/null || cargo build --offline -p compiler || exit 2
BIN="$ROOT/target/debug/compiler"
OUT=$(mktemp -d); trap 'rm -rf "$OUT"' EXIT
(cd "$HERE/prog" && "$BIN" run --dump-go ./main.gom >"$OUT/out.go" 2>"$OUT/err")
grep -q '^func main0()' "$OUT/out.go" || { echo "program not compiled:"; cat "$OUT/err"; exit 1; }

# every package qualifier used in a type alias must be imported
bad=1
for pkg in $(grep '^type [A-Za-z0-9_]* = [A-Za-z0-9_]*\.' "$OUT/out.go" | sed 's/^type [A-Za-z0-9_]* = \([A-Za-z0-9_]*\)\..*/\1/' | sort -u); do
  if ! sed -n '/^import (/,/^)/p' "$OUT/out.go" | grep -q "\"\(.*/\)\{0,1\}$pkg\""; then
    echo "package qualifier '$pkg' is used but not imported:"
    grep -n "^type .* = $pkg\." "$OUT/out.go"
    bad=0
  fi
done
[ $bad -eq 0 ] || { echo "defect absent"; exit 1; }
echo "DEFECT PRESENT. import block of the emitted file:"
sed -n '/^import (/,/^)/p' "$OUT/out.go"
exit 0
