#!/bin/sh
# Run from the repository root. Exits 0 when the defect is present.
set -u
HERE="$(cd "$(dirname "$0")" && pwd)"
BIN=./target/debug/compiler
[ -x "$BIN" ] || cargo build --offline -p compiler >/dev/null 2>&1 || exit 2
OUT="$($BIN run --dump-go "$HERE/prog/main.gom" 2>&1)"
echo "$OUT" | sed -n '/^func describe/,/^}/p'
# Detect a type switch on variable X nested inside a single-type `case` clause of an enclosing
# `switch X := X.(type)`: there X has the concrete struct type, and Go only allows x.(type) on
# operands of interface type.
echo "$OUT" | awk '
  /switch [A-Za-z0-9_]+ := [A-Za-z0-9_]+\.\(type\)/ || /switch [A-Za-z0-9_]+\.\(type\)/ {
      line=$0; ind=match(line,/[^ ]/);
      v=line; sub(/^ *switch /,"",v); sub(/ :=.*/,"",v); sub(/\.\(type\).*/,"",v);
      bound = (line ~ /:=/);
      for (i=depth;i>=1;i--) if (var[i]==v && isbound[i] && incase[i] && ind>indent[i]) { bad=1; print "nested type switch on already narrowed variable: " line }
      depth++; var[depth]=v; indent[depth]=ind; isbound[depth]=bound; incase[depth]=0; next }
  /^ *case [A-Za-z0-9_]+:/ { ind=match($0,/[^ ]/); for(i=depth;i>=1;i--) if (indent[i]==ind) { incase[i]=1; break } }
  /^ *default:/ { ind=match($0,/[^ ]/); for(i=depth;i>=1;i--) if (indent[i]==ind) { incase[i]=0; break } }
  /^ *}/ { ind=match($0,/[^ ]/); while (depth>=1 && indent[depth]>=ind) depth-- }
  END { exit bad?0:1 }'
if [ $? = 0 ]; then
  echo "DEFECT PRESENT: emitted Go applies .(type) to a variable of concrete (non-interface) type"
  exit 0
fi
echo "defect absent"
exit 1
