#!/bin/bash
# Run from the repository root. Exit 0 = defect present.
set -u
HERE="$(cd "$(dirname "$0")" && pwd)"
BIN="${GOML_BIN:-./target/debug/compiler}"
if [ ! -x "$BIN" ]; then cargo build --offline -p compiler >/dev/null 2>&1 || { echo "build failed"; exit 2; }; fi
W="$(mktemp -d)"; trap 'rm -rf "$W"' EXIT

"$BIN" run --dump-go "$HERE/single/main.gom" > "$W/single.out" 2>&1     # same program, one package
"$BIN" run --dump-go "$HERE/proj/main.gom"   > "$W/whole.out" 2>&1      # extern type moved into package Lib
"$BIN" build --package Lib --input "$HERE/proj/Lib/lib.gom" --output "$W/Lib" || exit 2
"$BIN" build --package Main --input "$HERE/proj/main.gom" --interface-path "$W" --output "$W/Main" || exit 2
"$BIN" link --input "$W/Lib.core" "$W/Main.core" --output "$W/main.go" || exit 2

if grep -qi "error (typer)\|error (compile)\|error (lower)" "$W/whole.out"; then echo "project rejected by goml -> defect absent"; exit 1; fi
echo "--- single package:";            grep -n "^type .*Time" "$W/single.out"
echo "--- extern type in package Lib (run):";        grep -n "^type .*Time" "$W/whole.out"
echo "--- extern type in package Lib (build+link):"; grep -n "^type .*Time" "$W/main.go"
grep -q '^type Time = time\.Time$' "$W/single.out" || { echo "single-package baseline changed"; exit 2; }
if grep -q '= time\.Lib::Time' "$W/whole.out" && grep -q '= time\.Lib::Time' "$W/main.go"; then
  echo "DEFECT PRESENT: the Go type of Lib's extern type is spelled 'time.Lib::Time' (not Go syntax)"
  exit 0
fi
exit 1
