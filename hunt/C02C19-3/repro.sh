#!/bin/sh
# Run from the repository root. Exit 0 = defect present.
ROOT=$(pwd)
HERE=$(cd "$(dirname "$0")" && pwd)
cargo build --offline -q -p compiler 2>/dev/null || cargo build --offline -p compiler || exit 2
BIN="$ROOT/target/debug/compiler"
OUT=$(mktemp -d); trap 'rm -rf "$OUT"' EXIT
(cd "$HERE/prog" && "$BIN" run --dump-go ./main.gom >"$OUT/out.go" 2>"$OUT/err")
grep -q '^func main0()' "$OUT/out.go" || { echo "program not compiled:"; cat "$OUT/err"; exit 1; }

# Every helper type name that is USED as a field type must be DECLARED by a `type <name> ` line.
missing=0
for name in $(grep -o 'Tuple[0-9]*_[A-Za-z0-9_]*\|ref_[a-z0-9_]*_x' "$OUT/out.go" | sort -u); do
  if ! grep -q "^type $name " "$OUT/out.go"; then
    echo "used but never declared: $name"
    grep -n "$name" "$OUT/out.go" | sed 's/^/    /'
    missing=1
  fi
done
[ $missing -eq 1 ] || { echo "defect absent"; exit 1; }
echo "DEFECT PRESENT: emitted Go refers to undeclared types. Type section of the output:"
grep -n -A4 '^type ' "$OUT/out.go"
exit 0
