#!/bin/sh
# Run from the repository root. Exits 0 when the defect is present.
set -u
HERE="$(cd "$(dirname "$0")" && pwd)"
BIN=./target/debug/compiler
[ -x "$BIN" ] || cargo build --offline -p compiler >/dev/null 2>&1 || exit 2
OUT="$($BIN run --dump-go "$HERE/prog/main.gom" 2>&1)"
echo "$OUT" | sed -n '/^func nap/,$p'
# time.Sleep has no result; using the call as the right-hand side of an assignment or a
# var initialiser is a Go compile error ("time.Sleep(t) (no value) used as value").
if echo "$OUT" | grep -Eq '(=|struct\{\} =) time\.Sleep\('; then
  echo "DEFECT PRESENT: result-less Go function time.Sleep is used as a value"
  exit 0
fi
echo "defect absent"
exit 1
