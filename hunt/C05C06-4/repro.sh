#!/usr/bin/env bash
# Run from the repository root. Exits 0 when the defect is PRESENT.
set -u
HERE="$(cd "$(dirname "${BASH_SOURCE[0]}")" && pwd)"
BIN="${GOML_BIN:-./target/debug/compiler}"
if [ ! -x "$BIN" ]; then
    cargo build --offline -p compiler >/dev/null 2>&1 || { echo "build failed"; exit 2; }
fi
BIN="$(cd "$(dirname "$BIN")" && pwd)/$(basename "$BIN")"
out="$(cd "$HERE/prog" && "$BIN" run --dump-hir --dump-go ./main.gom 2>&1)"
echo "$out" | grep -E '^\s*fn first\(|^func first\('
# no diagnostic, and both parameter slots carry the SAME local id / Go identifier
if echo "$out" | grep -qE '^error'; then echo "rejected (defect absent)"; exit 1; fi
if echo "$out" | grep -qE '^func first\(([A-Za-z_0-9]+) int32, \1 string\) string'; then
    echo "duplicate parameter name accepted; both slots were mapped to one binder and the Go signature repeats the identifier"
    exit 0
fi
echo "defect not observed"; exit 1
