#!/bin/sh
# Run from the repository root. Exit 0 = defect present.
ROOT=$(pwd)
HERE=$(cd "$(dirname "$0")" && pwd)
cargo build --offline -q -p compiler 2>/dev/null || cargo build --offline -p compiler || exit 2
BIN="$ROOT/target/debug/compiler"
OUT=$(mktemp -d); trap 'rm -rf "$OUT"' EXIT
(cd "$HERE/shadow"  && "$BIN" run --dump-go ./main.gom >"$OUT/shadow.go"  2>"$OUT/shadow.err")
(cd "$HERE/renamed" && "$BIN" run --dump-go ./main.gom >"$OUT/renamed.go" 2>"$OUT/renamed.err")

# both programs must be accepted (Go text was produced)
grep -q '^func main0()' "$OUT/shadow.go"  || { echo "shadow program not compiled"; exit 1; }
grep -q '^func main0()' "$OUT/renamed.go" || { echo "renamed program not compiled"; exit 1; }

# the user's functions are emitted under Go's predeclared names ...
grep -q '^func len(v__[0-9]* \[\]int32) int32' "$OUT/shadow.go"    || { echo "no package-level func len"; exit 1; }
grep -q '^func append(v__[0-9]* \[\]int32, x__[0-9]* int32) \[\]int32' "$OUT/shadow.go" || { echo "no package-level func append"; exit 1; }
# ... and the lowering of the builtins vec_len / vec_push refers to those very names
grep -q 'int32(len(v__[0-9]*))' "$OUT/shadow.go" || { echo "vec_len not lowered to len()"; exit 1; }
grep -q '= append(v__[0-9]*, 7)' "$OUT/shadow.go" || { echo "vec_push not lowered to append()"; exit 1; }

echo "DEFECT PRESENT: emitted Go declares package-level 'len' and 'append' and the"
echo "lowered vec_len/vec_push calls resolve to them (Go scoping: package block shadows universe block):"
grep -n '^func len(\|^func append(\|int32(len(\|= append(' "$OUT/shadow.go"
echo "--- after renaming len->length, append->add_last the same calls reach the Go builtins:"
grep -n '^func length(\|^func add_last(\|int32(len(\|= append(' "$OUT/renamed.go"
exit 0
