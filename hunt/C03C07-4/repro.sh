#!/usr/bin/env bash
# Run from the repository root. Exit 0 = defect present.
set -u
HERE="$(cd "$(dirname "${BASH_SOURCE[0]}")" && pwd)"
BIN="${GOML_BIN:-./target/debug/compiler}"
if [ ! -x "$BIN" ]; then
  cargo build --offline -p compiler >/dev/null 2>&1 || { echo "build failed"; exit 2; }
fi
TMP="$(mktemp -d)"
trap 'rm -rf "$TMP"' EXIT
cp -r "$HERE"/phantom "$HERE"/phantom_struct "$TMP"/

present=0
if "$BIN" check --package Main --input "$TMP/phantom/main.gom" --output "$TMP/i" >"$TMP/check.log" 2>&1; then
  "$BIN" run --dump-mono --dump-go "$TMP/phantom/main.gom" >"$TMP/out" 2>&1
  if awk '/^== Go ==/{f=1} f' "$TMP/out" | grep -q -E '\[\]T\b'; then
    echo "phantom: PRESENT: accepted; type parameter T survives into Go:"
    awk '/^== Go ==/{f=1} f' "$TMP/out" | grep -E '\[\]T\b' | sed 's/^/    /'
    present=1
  else
    echo "phantom: absent"
  fi
else
  echo "phantom: absent (rejected by check): $(head -c 300 "$TMP/check.log")"
fi

if "$BIN" check --package Main --input "$TMP/phantom_struct/main.gom" --output "$TMP/j" >"$TMP/check2.log" 2>&1; then
  "$BIN" run --dump-mono --dump-go "$TMP/phantom_struct/main.gom" >"$TMP/out2" 2>&1
  rc=$?
  echo "phantom_struct: accepted by check; run exit=$rc; lines mentioning T as a type argument:"
  grep -n -E 'Opt\[T\]|Opt__T|T_T\b' "$TMP/out2" | head -8 | sed 's/^/    /'
  if grep -q -E 'Opt__T|Opt\[T\]' "$TMP/out2"; then present=1; fi
else
  echo "phantom_struct: rejected by check: $(head -c 300 "$TMP/check2.log")"
fi
[ $present -eq 1 ] && exit 0 || exit 1
