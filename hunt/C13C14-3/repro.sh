#!/bin/bash
# Run from the repository root. Exits 0 when the defect is PRESENT.
# Defect: check/build order the input files of a package by the *spelling* of the paths given on the
# command line (PathBuf ordering; "./b.gom" sorts before "a.gom"), and de-duplicate by spelling only.
# The file order determines DefId numbering / export order, which are part of the hashed interface,
# so identical sources give different interface hashes (and a spurious "rebuild" error at link time).
set -u
HERE="$(cd "$(dirname "$0")" && pwd)"
ROOT="$PWD"
BIN="$ROOT/target/debug/compiler"
if [ ! -x "$BIN" ]; then (cd "$ROOT" && cargo build --offline -p compiler >/dev/null 2>&1); fi
[ -x "$BIN" ] || { echo "compiler binary not found"; exit 2; }
W="$(mktemp -d)"; trap 'rm -rf "$W"' EXIT
cp -r "$HERE/proj" "$W/proj"; O="$W/out"; mkdir -p "$O/1" "$O/2" "$O/3" "$O/chk"
cd "$W/proj/Lib"
h() { grep -o '"interface_hash": "[0-9a-f]*"' "$1" | tail -1 | cut -d'"' -f4; }

"$BIN" build --package Lib --input a.gom b.gom     --interface-path "$O/1" --output "$O/1/Lib" || exit 2
"$BIN" build --package Lib --input a.gom ./b.gom   --interface-path "$O/2" --output "$O/2/Lib" || exit 2
"$BIN" build --package Lib --input a.gom b.gom ./a.gom --interface-path "$O/3" --output "$O/3/Lib" || exit 2
"$BIN" check --package Lib --input ./b.gom a.gom   --interface-path "$O/chk" --output "$O/chk/Lib" || exit 2
H1=$(h "$O/1/Lib.interface"); H2=$(h "$O/2/Lib.interface"); H3=$(h "$O/3/Lib.interface"); HC=$(h "$O/chk/Lib.interface")
echo "build --input a.gom b.gom          : $H1"
echo "build --input a.gom ./b.gom        : $H2"
echo "build --input a.gom b.gom ./a.gom  : $H3   (a.gom compiled twice, no diagnostic)"
echo "check --input ./b.gom a.gom        : $HC   (check vs build of the same sources)"

# consequence: rebuilding Lib from unchanged sources invalidates Main
cd "$W/proj"
"$BIN" build --package Main --input main.gom --interface-path "$O/1" --output "$O/1/Main" || exit 2
"$BIN" link --input "$O/1/Lib.core" "$O/1/Main.core" --output "$O/ok.go" && echo "link(Lib#1, Main) ok"
"$BIN" link --input "$O/2/Lib.core" "$O/1/Main.core" --output "$O/bad.go" 2> "$O/link.err"; rc=$?
echo "link(Lib#2 (same sources), Main) exit=$rc: $(grep -o 'package Main expects[^"]*' "$O/link.err")"

if [ -n "$H1" ] && [ "$H1" != "$H2" ] && [ "$H1" != "$HC" ] && [ $rc != 0 ]; then
  echo "DEFECT: identical sources, different interface hashes"
  exit 0
fi
echo "defect not observed"; exit 1
