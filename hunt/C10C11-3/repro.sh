#!/usr/bin/env bash
# Run from the repository root. Exits 0 when the defect is PRESENT.
set -u
HERE="$(cd "$(dirname "$0")" && pwd)"
BIN="${GOML_BIN:-./target/debug/compiler}"
if [ ! -x "$BIN" ]; then cargo build --offline -p compiler >/dev/null 2>&1 || { echo "build failed"; exit 2; }; fi

# crlf/main.gom is lf/main.gom with every line terminated by CR LF (regenerated here to be safe
# against tools that normalise line endings when copying the repro around)
sed 's/\r$//' "$HERE/lf/main.gom" | sed 's/$/\r/' > "$HERE/crlf/main.gom"

lf="$("$BIN" run --dump-go "$HERE/lf/main.gom" 2>&1 | grep 'var s__0')"
crlf="$("$BIN" run --dump-go "$HERE/crlf/main.gom" 2>&1 | grep 'var s__0')"
echo "LF   source: $lf"
echo "CRLF source: $crlf"

if echo "$lf" | grep -qF '"one\ntwo"' && echo "$crlf" | grep -qF '"one\ntwo\r"'; then
  echo 'PRESENT: with CRLF line endings the last line of the multi-line string keeps a stray \r (the inner line break does not)'
  exit 0
fi
exit 1
