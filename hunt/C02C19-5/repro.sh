#!/bin/sh
# Run from the repository root. Exit 0 = defect present.
ROOT=$(pwd)
HERE=$(cd "$(dirname "$0")" && pwd)
cargo build --offline -q -p compiler 2>/dev/null || cargo build --offline -p compiler || exit 2
BIN="$ROOT/target/debug/compiler"
OUT=$(mktemp -d); trap 'rm -rf "$OUT"' EXIT
present=1
for p in ref_arity tuple_underscore ref_case; do
  (cd "$HERE/$p" && "$BIN" run --dump-go ./main.gom >"$OUT/$p.go" 2>"$OUT/$p.err")
  grep -q '^func main0()' "$OUT/$p.go" || { echo "$p not compiled:"; cat "$OUT/$p.err"; exit 1; }
  tdups=$(grep -o '^type [A-Za-z0-9_]* ' "$OUT/$p.go" | sort | uniq -d)
  fdups=$(grep -o '^func [A-Za-z0-9_]*(' "$OUT/$p.go" | sort | uniq -d)
  if [ -n "$tdups$fdups" ]; then
    present=0
    echo "== $p: two different goml types were given the same Go name"
    for t in $(echo "$tdups" | awk '{print $2}'); do grep -n -A3 "^type $t " "$OUT/$p.go"; done
    [ -n "$fdups" ] && echo "   duplicate functions: $(echo $fdups | tr '\n' ' ')"
  fi
done
[ $present -eq 0 ] || { echo "defect absent"; exit 1; }
echo "DEFECT PRESENT"
exit 0
