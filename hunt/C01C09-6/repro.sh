#!/bin/sh
# Run from the repository root. Exits 0 when the defect is present.
set -u
HERE="$(cd "$(dirname "$0")" && pwd)"
BIN=./target/debug/compiler
[ -x "$BIN" ] || cargo build --offline -p compiler >/dev/null 2>&1 || exit 2
OUT="$($BIN run --dump-go "$HERE/prog/main.gom" 2>&1)"
echo "$OUT" | sed -n '/^func main0/,/^}/p'
# A temporary of Go struct type dyn__Show initialised with an int32 / bool expression:
#   var t9 dyn__Show = -4        var t13 dyn__Show = x__5 < 2
N="$(echo "$OUT" | grep -Ec 'var t[0-9]+ dyn__Show = (-|!|[a-z_0-9]+ (<|==) )')"
if [ "$N" -ge 1 ]; then
  echo "DEFECT PRESENT: $N temporaries of type dyn__Show are initialised with the un-coerced int32/bool operand"
  exit 0
fi
echo "defect absent"
exit 1
