#!/bin/bash
# Run from the repository root. Exits 0 when the defect is PRESENT.
# Defect: whole-program compilation links packages in DFS post-order (packages.rs topo_sort_packages),
# separate linking uses Kahn's algorithm with a lexicographic ready set (separate.rs topo_sort).
# Both are topological, but they order *independent* packages differently, and lambda lifting is
# order sensitive, so build+link emits Go that does not compile while whole-program Go is fine.
set -u
HERE="$(cd "$(dirname "$0")" && pwd)"
ROOT="$PWD"
BIN="$ROOT/target/debug/compiler"
if [ ! -x "$BIN" ]; then (cd "$ROOT" && cargo build --offline -p compiler >/dev/null 2>&1); fi
[ -x "$BIN" ] || { echo "compiler binary not found"; exit 2; }
W="$(mktemp -d)"; trap 'rm -rf "$W"' EXIT
cp -r "$HERE/proj" "$W/proj"; O="$W/out"; mkdir -p "$O"
cd "$W/proj"
"$BIN" run --dump-go ./main.gom 2>/dev/null | sed -n '/^== Go ==/,$p' | tail -n +2 > "$O/whole.go"
# a valid dependency order (any other valid order gives the same result: link re-sorts the packages itself)
for p in Tr Zed A B; do
  "$BIN" build --package $p --input $p/lib.gom --interface-path "$O" --output "$O/$p" || { echo "build $p failed"; exit 2; }
done
"$BIN" build --package Main --input main.gom --interface-path "$O" --output "$O/Main" || { echo "build Main failed"; exit 2; }
"$BIN" link --input "$O/Tr.core" "$O/Zed.core" "$O/A.core" "$O/B.core" "$O/Main.core" --output "$O/linked.go" || { echo "link failed"; exit 2; }

echo "--- package order (order of first function of each package in the Go text)"
echo "whole : $(grep -o '^func _goml_[A-Za-z]*_x3a' "$O/whole.go"  | sed 's/func _goml_//; s/_x3a//' | uniq | tr '\n' ' ')"
echo "linked: $(grep -o '^func _goml_[A-Za-z]*_x3a' "$O/linked.go" | sed 's/func _goml_//; s/_x3a//' | uniq | tr '\n' ' ')"
echo "--- B::run, whole program"
sed -n '/^func _goml_B_x3a__x3a_run/,/^}/p' "$O/whole.go"
echo "--- B::run, build + link"
sed -n '/^func _goml_B_x3a__x3a_run/,/^}/p' "$O/linked.go"

w_ok=0; l_bad=0
sed -n '/^func _goml_B_x3a__x3a_run/,/^}/p' "$O/whole.go"  | grep -Eq '_apply\(g__[0-9]+, v__[0-9]+\)' && w_ok=1
sed -n '/^func _goml_B_x3a__x3a_run/,/^}/p' "$O/linked.go" | grep -Eq 'var g__[0-9]+ closure_env_A_mk_0 = ' \
  && sed -n '/^func _goml_B_x3a__x3a_run/,/^}/p' "$O/linked.go" | grep -Eq '= g__[0-9]+\(v__[0-9]+\)' && l_bad=1
if [ $w_ok = 1 ] && [ $l_bad = 1 ]; then
  echo "DEFECT: build+link calls a struct value (g is of type closure_env_A_mk_0) as if it were a function; whole-program calls the closure's apply function"
  exit 0
fi
echo "defect not observed"; exit 1
