#!/bin/sh
# Build the analysers offline from files on disk (no network, no files outside /verif).
set -e
cd "$(dirname "$0")"
export CARGO_NET_OFFLINE=true
(cd engines/synjson && cargo build --offline --release -q)
(cd engines/factdrv && cargo +nightly build --offline --release -q)
test -x engines/synjson/target/release/synjson
test -x engines/factdrv/target/release/factdrv
mkdir -p evidence .cache
echo "setup: engines built"
