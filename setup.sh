#!/bin/sh
# Build the analysers offline from files on disk.
set -e
cd "$(dirname "$0")"
export CARGO_NET_OFFLINE=true
echo "setup: nothing to build yet"
