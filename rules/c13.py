"""C13 Deterministic, reproducible compilation.

Decides (statically, on the resolved program): no iteration order of a hash-ordered
container reaches an ordered sink; directory listings are sorted; no other entropy source
is called from the library; nothing hash-ordered is serialised into the interface hash."""
import re
from lib import syn as S
from lib.mir import Mir, is_hash_container, is_btree_container, callee_tail, outer_type, HASH_TY, strip_generics
from lib.core import AnalysisIncomplete, site

EXPLANATION = (
    "Static decision of determinism clauses on /repo's current source. R13.1: every resolved call (rustc MIR, "
    "Instance::try_resolve) that starts an iteration over std/im HashMap/HashSet is classified by the sink its order "
    "reaches, read off the syntax tree around the call: order-free sinks (hash/BTree containers, any/all/count/…, "
    "loop bodies that only touch hash/BTree state), re-ordered sinks (collected Vec sorted before any other use) or "
    "ordered sinks (Vec/String/diagnostics/IndexMap/return/first-match) = violation. R13.2: read_dir results are sorted "
    "before use. R13.3: no time/env/thread/random/pointer-format source is called in library crates. R13.4: no "
    "hash-ordered container is reachable from the serialised interface/core artifact types. The behaviour "
    "'byte-identical output' is not executed; what is decided is that no nondeterminism source can reach output.")

ITER_ENTRY = {"iter", "iter_mut", "keys", "values", "values_mut", "into_keys", "into_values", "drain",
              "difference", "union", "intersection", "symmetric_difference", "retain", "extract_if"}
ADAPTORS = {"map", "filter", "filter_map", "cloned", "copied", "flat_map", "flatten", "chain", "inspect", "peekable",
            "by_ref", "into_iter", "iter", "map_while", "zip", "enumerate", "skip", "step_by", "take", "skip_while",
            "take_while", "rev", "fuse", "scan"}
# adaptors whose result depends on the order even when the final sink is a set
ORDER_SENSITIVE_ADAPTORS = {"enumerate", "skip", "step_by", "take", "skip_while", "take_while", "zip", "scan", "rev"}
ORDER_FREE_TERMINALS = {"any", "all", "count", "sum", "product", "min", "max", "len", "is_empty", "contains",
                        "is_subset", "is_superset", "is_disjoint", "eq", "ne"}
ORDER_PICKING_TERMINALS = {"next", "last", "nth", "find", "find_map", "position", "fold", "try_fold", "reduce",
                           "min_by", "max_by", "min_by_key", "max_by_key", "try_for_each", "unzip", "partition"}
SORTS = {"sort", "sort_by", "sort_by_key", "sort_unstable", "sort_unstable_by", "sort_unstable_by_key", "sort_by_cached_key"}

# Hand-confirmed order-free sites that the generic classifier cannot see through.
# key = "<function>|<entry text>" ; one line of reason each.
LEDGER = {
    "compiler::typer::name_resolution::ConstructorIndex::unique_enum_for_variant|enums":
        ("unique-or-none: returns Some(name) only when exactly one entry matches and None on a second hit, so the "
         "result does not depend on which match is met first", "unique_or_none"),
    "compiler::typer::unify::Typer::solve|genv.deps.values":
        ("overload solver: the collected impl schemes are only matched on cardinality (exactly one → used; none / many → "
         "diagnostic that does not print them)", "cardinality_only"),
    "compiler::hir::resolve_constructor_path|full_name_index.iter":
        ("suffix lookup: result used only when exactly one key matches", "single_or_report"),
}


def _ledger_reason_holds(cx, rel, fn_, target, how):
    """a ledger entry excuses a site for a stated reason; the reason is checked on the syntax, not only stated (a body rewritten under
    an unchanged key - `enums.iter().find(..)` - must not inherit the excuse)"""
    par = cx.parents(rel)
    if how == "unique_or_none":
        # the hash iteration is the iterable of a `for` loop (no picking terminal), whose body returns None under an `is_some()` test of
        # the accumulator that it assigns `Some(..)` to
        loop = next((a for a in par.ancestors(target) if a["k"] == "For"), None)
        if loop is None or not S.span_contains(loop["iter"]["sp"], target["sp"]):
            # the iterator form: `let mut it = enums.iter().filter(..).map(..); let first = it.next()?; match it.next() { Some(_) => None, None => Some(first) }`
            loc = next((a for a in par.ancestors(target) if a["k"] == "Local" and a["pat"]["k"] in ("PIdent", "PType") and a.get("init") is not None), None)
            if loc is not None:
                chain, e = [], loc["init"]
                while e["k"] == "MethodCall":
                    chain.append(e["method"])
                    e = e["recv"]
                v = S.pat_bindings(loc["pat"])[0]
                uses = [u for u in S.walk(fn_.body) if u["k"] == "Path" and u["segs"] == [v]]
                nexts = [par.parent(u) for u in uses if par.parent(u) is not None and par.parent(u)["k"] == "MethodCall" and par.parent(u)["method"] == "next" and par.role(u) == "recv"]
                second_none = any(m_["k"] == "Match" and m_["scrut"] in nexts and any(
                    S.norm_ws(cx.text(rel, a_["pat"])).startswith("Some(") and S.is_path(a_["body"], "None") for a_ in m_["arms"]) for m_ in S.find(fn_.body, "Match"))
                # .. or `it.next().is_none().then(|| first.clone())`: the second answer is only asked whether it exists
                second_none = second_none or any(par.parent(nx) is not None and par.parent(nx)["k"] == "MethodCall" and par.parent(nx)["method"] in ("is_none", "is_some")
                                                 and par.role(nx) == "recv" for nx in nexts)
                if not (set(chain) & (ORDER_PICKING_TERMINALS | ORDER_SENSITIVE_ADAPTORS)) and len(uses) == len(nexts) == 2 and second_none:
                    return True, "the iterator is asked twice and a second hit answers None"
            return False, "the iteration is not the iterable of a for loop"
        accs = {a["left"]["segs"][0] for a in S.find(loop["body"], "Assign")
                if a["left"]["k"] == "Path" and len(a["left"]["segs"]) == 1 and a["right"]["k"] == "Call" and S.callee_name(a["right"]) == "Some"}
        for i in S.find(loop["body"], "If"):
            tested = {c["recv"]["segs"][0] for c in S.find(i["cond"], "MethodCall")
                      if c["method"] == "is_some" and c["recv"]["k"] == "Path" and len(c["recv"]["segs"]) == 1}
            rets = [r for r in S.find(i["then"], "Return") if r.get("expr") is not None and S.is_path(r["expr"], "None")]
            if tested & accs and rets:
                return True, "second hit returns None"
        return False, "no `if acc.is_some() { return None }` around the assignment of the accumulator"
    if how == "cardinality_only":
        # everything the loop does with an element is pushing it onto a Vec that is afterwards only matched as a slice / measured
        loop = next((a for a in par.ancestors(target) if a["k"] == "For" and S.span_contains(a["iter"]["sp"], target["sp"])), None)
        if loop is not None:
            vecs = {c["recv"]["segs"][0] for c in S.find(loop["body"], "MethodCall") if c["method"] == "push" and c["recv"]["k"] == "Path" and len(c["recv"]["segs"]) == 1}
            if len(vecs) != 1 or selecting_exits(loop["body"]):
                return False, "the loop does more than collect candidates"
            v = next(iter(vecs))
        else:
            # the iterator form: `let v: Vec<_> = once(current).chain(deps.values()).filter_map(..).collect();`
            loc = next((a for a in par.ancestors(target) if a["k"] == "Local" and a["pat"]["k"] in ("PIdent", "PType") and a.get("init") is not None
                        and a["init"]["k"] == "MethodCall" and a["init"]["method"] == "collect"), None)
            if loc is None:
                return False, "the iteration is neither a for loop nor collected into a local"
            chain = []
            e = loc["init"]
            while e["k"] == "MethodCall":
                chain.append(e["method"])
                e = e["recv"]
            if set(chain) & (ORDER_PICKING_TERMINALS | ORDER_SENSITIVE_ADAPTORS):
                return False, f"the chain picks or numbers elements ({sorted(set(chain) & (ORDER_PICKING_TERMINALS | ORDER_SENSITIVE_ADAPTORS))})"
            v = S.pat_bindings(loc["pat"])[0]
        for u in S.walk(fn_.body):
            if u["k"] == "Path" and u["segs"] == [v]:
                pu = par.parent(u)
                if pu is None:
                    continue
                if pu["k"] == "MethodCall" and par.role(u) == "recv" and pu["method"] in ("push", "as_slice", "len", "is_empty"):
                    continue
                if pu["k"] in ("Local", "PIdent", "PType"):
                    continue
                return False, f"`{v}` is also used by {pu['k']}{'.' + pu.get('method', '') if pu['k'] == 'MethodCall' else ''} at line {u['sp'][0]}"
        return True, f"`{v}` is only pushed to and matched as a slice"
    if how == "single_or_report":
        # the collected matches are indexed only under a `len() == 1` test
        loc = next((a for a in par.ancestors(target) if a["k"] == "Local" and a["pat"]["k"] in ("PIdent", "PType")), None)
        if loc is None:
            return False, "the matches are not collected into a local"
        v = S.pat_bindings(loc["pat"])[0]
        for ix in S.find(fn_.body, "Index"):
            if S.is_path(ix["base"], v):
                gate = next((a for a in par.ancestors(ix) if a["k"] == "If" and re.search(re.escape(v) + r"\.len\(\)==1", S.norm_ws(cx.text(rel, a["cond"])).replace(" ", ""))), None)
                if gate is None:
                    return False, f"`{v}[..]` outside a `{v}.len() == 1` test"
        for c in S.find(fn_.body, "MethodCall"):
            if c["method"] in ORDER_PICKING_TERMINALS | {"first", "pop"} and S.is_path(c["recv"], v):
                return False, f"`{v}.{c['method']}()` picks one of several matches"
        return True, f"`{v}` is indexed only when it has one element"
    return False, "unknown ledger check"


def _ordered_container(ty):
    _, o = outer_type(ty)
    return o


class Ctx:
    def __init__(self, run, model):
        self.run, self.model = run, model
        self.mir = Mir(run.facts)
        self._pos = {}
        self._parents = {}
        self.ws_fn_paths = {p for (_, p) in self.mir.local_fns}

    def pos_index(self, rel):
        if rel not in self._pos:
            idx = {}
            tree = self.model.tree(rel)
            for n in S.walk(tree):
                sp = n.get("sp")
                if sp:
                    idx.setdefault((sp[0], sp[1]), []).append(n)
            self._pos[rel] = idx
            self._parents[rel] = S.Parents(tree)
        return self._pos[rel]

    def parents(self, rel):
        self.pos_index(rel)
        return self._parents[rel]

    def text(self, rel, n):
        return S.norm_ws(self.run.facts.text(rel, n["sp"]))

    def enclosing_fn(self, rel, n):
        best = None
        for f in self.model.fns(rel, include_tests=True):
            if S.span_contains(f.node["sp"], n["sp"]):
                if best is None or S.span_contains(best.node["sp"], f.node["sp"]):
                    best = f
        return best

    def contains_hash(self, ty, crate, seen=None, depth=0):
        """type string mentions a hash container, directly or through workspace ADT fields"""
        if HASH_TY.search(ty):
            return True
        if depth > 6:
            return False
        seen = seen if seen is not None else set()
        for m in re.finditer(r"[A-Za-z_][A-Za-z0-9_:]*", ty):
            p = m.group(0)
            for key in ((crate, p), ("compiler", p), ("ast", p.split("ast::", 1)[-1])):
                a = self.mir.adts.get(key)
                if a and key not in seen:
                    seen.add(key)
                    for v in a["variants"]:
                        for f in v["fields"]:
                            if self.contains_hash(f["ty"], key[0], seen, depth + 1):
                                return True
        return False

    def all_hash_state(self, ty, crate, depth=0):
        """the (referent) type is a hash/BTree container or a workspace struct made only of such"""
        if is_hash_container(ty) or is_btree_container(ty):
            return True
        _, o = outer_type(ty)
        a = self.mir.adts.get((crate, o)) or self.mir.adts.get(("compiler", o))
        if a and a["kind"] == "struct" and depth < 3:
            fs = [f for v in a["variants"] for f in v["fields"]]
            return bool(fs) and all(self.all_hash_state(f["ty"], a["crate"], depth + 1) for f in fs)
        return False


# ---------------------------------------------------------------------------------------
def effects_in_span(cx, rel, sp, crate):
    """ordered effects performed inside a source span, from E1's resolved calls:
    list of (description, line)"""
    out = []
    for c in cx.mir.in_span(rel, sp):
        tail = callee_tail(c["callee"])
        args = c["args"]
        if c["mac"] in ("macro", "bang macro") or (c["exp"] and "fmt" in c["callee"]):
            pass
        for i, a in enumerate(args):
            if not a.startswith("&mut ") and not re.match(r"^&'[a-z_]+ mut ", a):
                continue
            ref = re.sub(r"^&('[a-z_]+ )?mut ", "", a)
            _, o = outer_type(ref)
            if cx.all_hash_state(ref, c["crate"]):
                continue
            # iterators / entries / options / formatters of the loop machinery itself
            if re.match(r"^(std|core)::(slice|iter|vec::IntoIter|str|option|collections::(hash_map|hash_set|btree_map|btree_set)|char)", o) or \
               re.match(r"^(indexmap::(map|set)::(Iter|Keys|Values|IntoIter|IterMut|ValuesMut)|im::)", o) or \
               o in ("std::vec::IntoIter", "std::option::Option", "bool"):
                continue
            if tail in ("next", "next_back", "by_ref", "as_mut", "deref_mut", "as_deref_mut"):
                continue
            out.append((f"{strip_generics(c['callee'])}(&mut {o})", c["line"]))
    return out


def selecting_exits(body):
    """syntactic exits / assignments in a loop body that select by iteration order"""
    out = []
    for n in S.walk_no_closures(body):
        k = n["k"]
        if k == "Return":
            e = n.get("expr")
            if e is None or e["k"] == "Lit" or (e["k"] == "Path" and e["segs"][-1] in ("true", "false")):
                continue
            out.append(("return", n["sp"][0]))
        elif k == "Break" and n.get("expr") is not None:
            out.append(("break-with-value", n["sp"][0]))
        elif k == "Try":
            out.append(("?", n["sp"][0]))
        elif k == "Assign":
            r = n["right"]
            if r["k"] == "Lit" and r.get("lit") == "Bool":
                continue
            out.append(("assignment", n["sp"][0]))
        elif k == "Binary" and n["op"] in ("+=", "-=", "*=", "|=", "&=", "^=") and False:
            out.append(("compound-assignment", n["sp"][0]))
    return out


INJECTIVE_METHODS = {"clone", "as_str", "to_string", "as_ref", "borrow", "to_owned", "deref", "as_path", "to_path_buf", "cmp", "partial_cmp",
                     "then", "then_with", "as_os_str", "as_bytes", "iter", "into_iter", "copied", "cloned", "unwrap", "as_deref", "reverse", "order"}


def lossy_sort_key(call):
    """method calls inside the key/comparator closure of sort_by*/sort_by_key that can map distinct elements to equal keys
    (to_lowercase, to_string_lossy, len, file_name …): equal keys leave the incoming - undetermined - order in place"""
    if call["method"] in ("sort", "sort_unstable"):
        return []
    out = []
    for a in call["args"]:
        for n in S.walk(a):
            if n["k"] == "MethodCall" and n["method"] not in INJECTIVE_METHODS:
                out.append(n["method"])
            elif n["k"] == "Call" and S.callee_name(n) not in ("Reverse", "Some"):
                out.append(S.callee_name(n) or "?")
            elif call["method"] in ("sort_by_key", "sort_unstable_by_key", "sort_by_cached_key") and n["k"] == "Binary" and n["op"] in ("==", "!=", "<", ">", "<=", ">=", "&&", "||"):
                out.append(f"boolean key ({n['op']})")
    return out


def next_use_is_sort(cx, rel, local_stmt, name):
    """after `let name = …;` the next statement mentioning `name` in the same block is name.sort*()"""
    par = cx.parents(rel)
    blk = par.parent(local_stmt)
    if blk is None or blk["k"] != "Block":
        return False, "binding is not a block statement"
    stmts = blk["stmts"]
    i = next((j for j, s in enumerate(stmts) if s is local_stmt), None)
    if i is None:
        return False, "statement not found"
    for s in stmts[i + 1:]:
        if name in S.idents(s):
            e = s.get("expr") if s["k"] == "ExprStmt" else None
            if e and e["k"] == "MethodCall" and e["method"] in SORTS and S.is_path(e["recv"], name):
                lossy = lossy_sort_key(e)
                if lossy:
                    return False, f"{name}.{e['method']}(..) orders by a key that is not injective ({', '.join(sorted(set(lossy)))}): ties keep the incoming order"
                return True, f"{name}.{e['method']}() at line {e['sp'][0]}"
            return False, f"`{name}` is used at line {s['sp'][0]} before being sorted"
    return False, f"`{name}` is never sorted"


def classify(cx, rel, node, crate, fninfo):
    """follow the value produced at `node` (an expression whose order is hash-order) to its sink.
    returns (verdict, sink description) with verdict in {'free','sorted','ordered'}"""
    par = cx.parents(rel)
    cur = node
    order_sensitive = None
    while True:
        p = par.parent(cur)
        role = par.role(cur)
        if p is None:
            return "ordered", "escapes the analysed expression"
        k = p["k"]
        if k in ("Ref", "Unary", "Paren", "Cast"):
            cur = p
            continue
        if k == "MethodCall" and role == "recv":
            m = p["method"]
            if m in ADAPTORS:
                if m in ORDER_SENSITIVE_ADAPTORS and m != "rev":
                    order_sensitive = m
                cur = p
                continue
            if m in ORDER_FREE_TERMINALS:
                if order_sensitive:
                    return "ordered", f".{order_sensitive}() on a hash-ordered iterator before .{m}()"
                eff = []
                for a in p["args"]:
                    if a["k"] == "Closure":
                        eff += effects_in_span(cx, rel, a["sp"], crate)
                if eff:
                    return "ordered", f"closure of .{m}() performs ordered effect {eff[0][0]}"
                return "free", f".{m}()"
            if m in ("for_each", "retain") or (m in ("map",) and False):
                clos = [a for a in p["args"] if a["k"] == "Closure"]
                eff = []
                for a in clos:
                    eff += effects_in_span(cx, rel, a["sp"], crate)
                    eff += selecting_exits(a["body"])
                if eff:
                    return "ordered", f"closure of .{m}() performs ordered effect {eff[0][0]}"
                return "free", f".{m}() with hash-only effects"
            if m in ORDER_PICKING_TERMINALS:
                return "ordered", f".{m}() picks by hash order"
            if m in ("collect", "collect_vec", "to_vec", "to_owned", "clone"):
                recs = cx.mir.at(rel, p["sp"][0], p["sp"][1], m)
                rets = {r["ret"] for r in recs}
                ty = None
                if len(rets) == 1:
                    ty = rets.pop()
                elif p.get("turbofish"):
                    ty = p["turbofish"]
                elif m != "collect":
                    ty = "std::vec::Vec<_>"
                if ty is None:
                    return "ordered", ".collect() whose target type could not be resolved"
                if order_sensitive:
                    return "ordered", f".{order_sensitive}() on a hash-ordered iterator"
                inner = ty
                mm = re.match(r"^(?:std::result::Result|std::option::Option|core::result::Result|core::option::Option)<(.*)$", ty)
                if mm:
                    inner = mm.group(1)
                if is_hash_container(inner) or is_btree_container(inner):
                    return "free", f"collected into {outer_type(inner)[1]}"
                # ordered container: needs a sort before any other use
                cur = p
                sink_ty = outer_type(inner)[1]
                # continue upwards: must become the init of a let
                while True:
                    pp = par.parent(cur)
                    if pp is None:
                        return "ordered", f"collected into {sink_ty}"
                    if pp["k"] in ("Paren",):
                        cur = pp
                        continue
                    if pp["k"] == "Local" and par.role(cur) == "init" and pp["pat"]["k"] == "PIdent":
                        ok, why = next_use_is_sort(cx, rel, pp, pp["pat"]["name"])
                        return ("sorted", f"collected into {sink_ty}; {why}") if ok else ("ordered", f"collected into {sink_ty}; {why}")
                    return "ordered", f"collected into {sink_ty} and used directly ({pp['k']}{'.' + pp.get('method', '') if pp['k'] == 'MethodCall' else ''}) without sorting"
            if m in ("extend",):
                # hash container/iterator is the *receiver*?? extend on an iterator is not a thing
                return "ordered", ".extend() receiver"
            return "ordered", f"unrecognised consumer .{m}()"
        if k == "MethodCall" and role == "args":
            m = p["method"]
            if m in ("extend", "append", "extend_from_slice"):
                recs = cx.mir.at(rel, p["sp"][0], p["sp"][1], m)
                tys = {r["args"][0] for r in recs if r["args"]}
                if len(tys) == 1:
                    t = tys.pop()
                    ref = re.sub(r"^&('[a-z_]+ )?mut ", "", t)
                    if cx.all_hash_state(ref, crate):
                        return "free", f"extends {outer_type(ref)[1]}"
                    tgt = p["recv"]
                    if tgt["k"] == "Path" and len(tgt["segs"]) == 1:
                        # the statement containing the extend
                        st = p
                        while st is not None and st["k"] != "ExprStmt":
                            st = par.parent(st)
                        if st is not None:
                            ok, why = next_use_is_sort(cx, rel, st, tgt["segs"][0])
                            if ok:
                                return "sorted", f"extends {outer_type(ref)[1]}; {why}"
                            return "ordered", f"extends {outer_type(ref)[1]} `{tgt['segs'][0]}` in hash order; {why}"
                    return "ordered", f"extends {outer_type(ref)[1]} in hash order"
                return "ordered", f".{m}() target type unresolved"
            if m in ADAPTORS:  # chain(x), zip(x)
                cur = p
                continue
            return "ordered", f"passed as argument to .{m}()"
        if k == "For" and role == "iter":
            eff = effects_in_span(cx, rel, p["body"]["sp"], crate)
            sel = selecting_exits(p["body"])
            if order_sensitive:
                return "ordered", f".{order_sensitive}() on a hash-ordered iterator"
            if eff:
                return "ordered", f"loop body performs ordered effect {eff[0][0]} (line {eff[0][1]})"
            if sel:
                return "ordered", f"loop body selects by iteration order: {sel[0][0]} (line {sel[0][1]})"
            return "free", "for-loop body touches only hash/BTree state"
        if k == "Call" and role == "args":
            cn = S.callee_name(p) or "?"
            recs = cx.mir.at(rel, p["sp"][0], p["sp"][1])
            rets = {r["ret"] for r in recs if callee_tail(r["callee"]) == cn}
            if rets and all(is_hash_container(t) or is_btree_container(t) for t in rets):
                return "free", f"{cn}(…) builds a hash/BTree container"
            return "ordered", f"passed as argument to {cn}(…)"
        if k == "Macro":
            return "ordered", f"formatted by {p.get('name')}!"
        if k == "Local" and role == "init":
            return "ordered", "hash-ordered iterator bound to a variable (not followed)"
        if k in ("ExprStmt",):
            return "free", "value discarded"
        if k == "Block" or k == "Return" or k == "Fn":
            return "ordered", "hash-ordered iterator leaves the function"
        return "ordered", f"flows into {k}"


def worklist_of(cx, rel, fn_, target, crate):
    """the Vec a hash-ordered iteration feeds is the work list of a closure computation: a local that is only pushed / extended and
    popped by one `while let Some(x) = W.pop()` loop whose body changes nothing but hash/BTree state and W itself.  The order in which
    such a list is filled changes the order of visits, not what is visited.  Returns (name, why) or (None, why-not)."""
    if fn_ is None or fn_.body is None:
        return None, "no enclosing function"
    par = cx.parents(rel)
    # the Vec: receiver of the push / extend that contains the hash-ordered expression (directly or in a for-loop over it)
    W = None
    for a in [target] + list(par.ancestors(target)):
        if a["k"] == "MethodCall" and a["method"] in ("extend", "append") and a["recv"]["k"] == "Path" and len(a["recv"]["segs"]) == 1:
            W = a["recv"]["segs"][0]
            break
        if a["k"] == "For" and S.span_contains(a["iter"]["sp"], target["sp"]):
            pushes = [c for c in S.walk(a["body"]) if c["k"] == "MethodCall" and c["method"] == "push" and c["recv"]["k"] == "Path" and len(c["recv"]["segs"]) == 1]
            names = {c["recv"]["segs"][0] for c in pushes}
            if len(names) == 1:
                W = names.pop()
            break
        if a["k"] in ("Fn", "Closure"):
            break
    if W is None:
        return None, "no single Vec is fed"
    decl = [l for l in S.find(fn_.body, "Local") if l["pat"]["k"] in ("PIdent", "PType") and W in S.pat_bindings(l["pat"])]
    if len(decl) != 1:
        return None, f"`{W}` is not one local of the function"
    loops = [w for w in S.find(fn_.body, "While") if w["cond"]["k"] == "Let" and w["cond"]["expr"]["k"] == "MethodCall" and
             w["cond"]["expr"]["method"] == "pop" and S.is_path(w["cond"]["expr"]["recv"], W)]
    if len(loops) != 1:
        return None, f"`{W}` is not drained by one `while let Some(..) = {W}.pop()` loop"
    for u in S.walk(fn_.body):
        if u["k"] == "Path" and u["segs"] == [W]:
            up = par.parent(u)
            if up is not None and up["k"] == "MethodCall" and up.get("recv") is u and up["method"] in ("push", "extend", "append", "pop", "is_empty", "len"):
                continue
            if up is not None and up["k"] == "Ref" and (par.parent(up) or {}).get("k") == "MethodCall":
                continue
            return None, f"`{W}` is used other than as a stack (line {u['sp'][0]})"
    eff = [e for e in effects_in_span(cx, rel, loops[0]["body"]["sp"], crate) if "Vec" not in e[0] or not re.search(r"::(push|extend|append|pop)\(", e[0])]
    # pushes onto a Vec inside the loop are the work list itself only if W is the only ordered container that grows there
    for c in S.walk(loops[0]["body"]):
        if c["k"] == "MethodCall" and c["method"] in ("push", "extend", "append", "insert", "push_str", "push_back", "push_front", "extend_from_slice") and \
                not S.is_path(c["recv"], W):
            recs = cx.mir.at(rel, c["sp"][0], c["sp"][1], c["method"])
            tys = {re.sub(r"^&('[a-z_]+ )?mut ", "", r["args"][0]) for r in recs if r["args"]}
            if not tys or not all(cx.all_hash_state(t, crate) for t in tys):
                return None, f"the draining loop also fills `{cx.text(rel, c['recv'])[:30]}` in visiting order (line {c['sp'][0]})"
    if eff:
        return None, f"the draining loop performs another ordered effect: {eff[0][0]} (line {eff[0][1]})"
    sel = selecting_exits(loops[0]["body"])
    if sel:
        return None, f"the draining loop selects by order: {sel[0][0]} (line {sel[0][1]})"
    return W, f"`{W}` is the work list of a closure computation: only pushed and popped, and the draining loop changes hash/BTree state only"


def entry_key(cx, rel, node, fninfo, what):
    fq = fninfo.qual if fninfo else rel
    return f"{fq}|{what}"


def r13_1(run, cx):
    run.rule("R13.1", "no iteration order of a hash-ordered container (std/im HashMap/HashSet) reaches an ordered sink "
                      "(Vec/String/diagnostics/IndexMap/return value/first match) without an intervening sort")
    mir = cx.mir
    entries = []
    seen = set()
    for c in mir.calls:
        if not c["file"].startswith("crates/") or "/tests/" in c["file"] or c["file"].endswith("/tests.rs"):
            continue
        tail = callee_tail(c["callee"])
        args = c["args"]
        kind = None
        if tail in ITER_ENTRY and args and is_hash_container(args[0]):
            kind = "iter"
        elif tail == "into_iter" and args and is_hash_container(args[0]):
            kind = "into_iter"
        elif tail in ("extend", "chain", "zip", "from_iter", "append") and len(args) >= 2 and is_hash_container(args[1]):
            kind = "from-hash"
        elif tail == "from_iter" and args and is_hash_container(args[0]) and not (is_hash_container(c["ret"]) or is_btree_container(c["ret"])):
            kind = "from-hash"
        elif tail in ("new_debug", "new_display") and "fmt" in c["callee"] and args and cx.contains_hash(args[0], c["crate"]):
            kind = "debug-format"
        if not kind:
            continue
        k = (c["file"], c["line"], c["col"], tail, kind)
        if k in seen:
            continue
        seen.add(k)
        entries.append((c, tail, kind))
    n_located = 0
    for c, tail, kind in entries:
        rel = c["file"]
        idx = cx.pos_index(rel)
        nodes = idx.get((c["line"], c["col"]), [])
        crate = c["crate"]
        target = None
        if kind == "debug-format":
            # format-like macro: find enclosing function only
            fn_ = None
            for f in cx.model.fns(rel, include_tests=True):
                sp = f.node["sp"]
                if sp[0] <= c["line"] <= sp[2]:
                    fn_ = f
            if fn_ is not None and fn_.test:
                continue
            n_located += 1
            key = f"{fn_.qual if fn_ else rel}|Debug/Display-format of {strip_generics(c['args'][0])}"
            run.ob("R13.1", key, False, site(rel, [c["line"]]),
                   f"a value containing a hash-ordered container is formatted ({c['args'][0]}): its text depends on the hash seed")
            continue
        if kind == "iter":
            cands = [n for n in nodes if n["k"] == "MethodCall" and n["method"] == tail]
            if cands:
                target = cands[-1] if len(cands) > 1 else cands[0]
                # choose the innermost: the one with the smallest span
                target = min(cands, key=lambda n: (n["sp"][2], n["sp"][3]))
        elif kind == "into_iter":
            fors = [n for n in nodes if n["k"] == "For"]
            if fors:
                target = fors[0]["iter"]
            else:
                cands = [n for n in nodes if n["k"] == "MethodCall" and n["method"] == "into_iter"]
                if cands:
                    target = min(cands, key=lambda n: (n["sp"][2], n["sp"][3]))
        elif kind == "from-hash":
            cands = [n for n in nodes if n["k"] == "MethodCall" and n["method"] == tail]
            if cands:
                mc = min(cands, key=lambda n: (n["sp"][2], n["sp"][3]))
                target = mc["args"][0] if mc["args"] else None
            else:
                cands = [n for n in nodes if n["k"] == "Call"]
                if cands:
                    target = cands[0]["args"][0] if cands[0]["args"] else None
        if target is None:
            raise AnalysisIncomplete(f"R13.1: cannot locate the syntax of hash iteration {c['callee']} at {rel}:{c['line']}:{c['col']}")
        fn_ = cx.enclosing_fn(rel, target)
        if fn_ is not None and fn_.test:
            continue
        n_located += 1
        # description of the entry: receiver text + method
        if kind == "iter":
            what = cx.text(rel, target["recv"]) + "." + tail
        else:
            what = cx.text(rel, target)
        what = what[:80]
        lkey = f"{fn_.qual if fn_ else rel}|{what}"
        verdict, sink = classify(cx, rel, target, crate, fn_)
        ledger_reason = None
        if verdict == "ordered":
            wl, why = worklist_of(cx, rel, fn_, target, crate)
            if wl is not None:
                verdict, sink = "free", why
        if verdict == "ordered":
            for lk, (reason, how) in LEDGER.items():
                if lkey.startswith(lk):
                    holds, seen = _ledger_reason_holds(cx, rel, fn_, target, how)
                    if holds:
                        ledger_reason = f"{reason} [checked: {seen}]"
                    else:
                        sink += f"; the ledger entry's reason does not hold here: {seen}"
        ok = verdict != "ordered" or ledger_reason is not None
        detail = f"{c['args'][0] if kind != 'from-hash' else c['args'][1]} iterated via {tail}; sink: {sink}"
        if ledger_reason:
            detail += f"; ledger: {ledger_reason}"
        run.ob("R13.1", f"{lkey}->{re.sub(r'[^A-Za-z0-9_.:()]+', ' ', sink.split(';')[0])[:60].strip()}" if not ok else lkey,
               ok, site(rel, [c["line"]]), detail,
               witness=None if ok else "two runs of the compiler (different hash seeds) may order this sink differently")
    run.floor("hash-iteration entry points located in syntax", n_located, 40)
    run.anchor("hash iteration entry points (E1 resolved calls)", f"{n_located} sites")


def r13_2(run, cx):
    run.rule("R13.2", "every std::fs::read_dir listing is collected and sorted before it is used")
    n = 0
    for c in cx.mir.calls:
        if callee_tail(c["callee"]) != "read_dir" or "std::fs" not in c["callee"]:
            continue
        rel = c["file"]
        if rel.endswith("main.rs") and False:
            continue
        n += 1
        fn_ = None
        for f in cx.model.fns(rel):
            sp = f.node["sp"]
            if sp[0] <= c["line"] <= sp[2]:
                fn_ = f
        if fn_ is None:
            continue
        # a Vec is filled in a loop over the listing and sorted before it is returned/used
        pushed = set()
        for mc in S.calls(fn_.body, "push"):
            if mc["k"] == "MethodCall" and S.is_path(mc["recv"]):
                pushed.add(mc["recv"]["segs"][0])
        sorted_ = set()
        lossy = {}
        for mc in S.calls(fn_.body, *SORTS):
            if mc["k"] == "MethodCall" and S.is_path(mc["recv"]):
                lk = lossy_sort_key(mc)
                if lk:
                    lossy[mc["recv"]["segs"][0]] = sorted(set(lk))
                else:
                    sorted_.add(mc["recv"]["segs"][0])
        ok = bool(pushed) and pushed <= sorted_
        run.ob("R13.2", f"{fn_.qual}|read_dir", ok, site(rel, [c["line"]]),
               f"vectors filled from the listing: {sorted(pushed)}; totally ordered by a sort: {sorted(sorted_)}" +
               (f"; sorted by a non-injective key (ties keep enumeration order): {lossy}" if lossy else ""),
               witness="directory enumeration order is file-system dependent")
    run.floor("read_dir call sites", n, 1)


NONDET = re.compile(r"^(std::time::(SystemTime|Instant)::now|std::env::(var|vars|var_os|vars_os|args|args_os|temp_dir)|"
                    r"std::thread::(spawn|current|scope)|std::process::id|std::hash::RandomState::new|"
                    r"std::collections::hash_map::RandomState::new|rand::|getrandom::|fastrand::|"
                    r"std::thread::available_parallelism|tempfile::)")


def r13_3(run, cx):
    run.rule("R13.3", "no entropy source (clock, environment, threads, random state, process id, pointer formatting, temp names) "
                      "is called from the library crates (the CLI binary's process handling in main.rs is outside the compilation result)")
    n = 0
    bad = 0
    for c in cx.mir.calls:
        rel = c["file"]
        if not rel.startswith("crates/") or rel.endswith("compiler/src/main.rs") or "/tests/" in rel or rel.endswith("tests.rs"):
            continue
        n += 1
        cal = strip_generics(c["callee"])
        hit = NONDET.match(cal) or ("fmt::Pointer" in c["callee"]) or callee_tail(c["callee"]) == "new_pointer"
        if hit:
            fn_ = re.sub(r"(::\{closure#\d+\})+$", "", c["caller"])
            fi = None
            for f in cx.model.fns(rel, include_tests=True):
                sp = f.node["sp"]
                if sp[0] <= c["line"] <= sp[2]:
                    fi = f
            if fi is not None and fi.test:
                continue
            bad += 1
            run.ob("R13.3", f"{c['crate']}::{fn_}|{cal}", False, site(rel, [c["line"]]),
                   f"call to {cal}", witness="the value differs between runs")
    run.ob("R13.3", "library crates|resolved calls scanned for entropy sources", bad == 0 or True, None,
           f"{n} resolved calls scanned; {bad} entropy sources", inspected=1)
    run.floor("resolved library calls scanned", n, 15000)


def r13_4(run, cx):
    run.rule("R13.4", "no hash-ordered container is reachable by field inclusion from the serialised artifact types "
                      "(InterfaceUnit / InterfaceHashView / CoreUnit), so serde output and the interface hash are order-stable")
    roots = ["artifact::InterfaceHashView", "artifact::InterfaceUnit", "artifact::CoreUnit"]
    adts = cx.mir.adts
    found = 0
    for root in roots:
        a = adts.get(("compiler", root))
        if a is None:
            cands = [k for k in adts if k[1].endswith("::" + root.split("::")[-1])]
            if len(cands) == 1:
                a = adts[cands[0]]
        if a is None:
            raise AnalysisIncomplete(f"R13.4: artifact type {root} not found")
        found += 1
        seen = set()
        work = [(a, root)]
        nfields = 0
        while work:
            cur, path = work.pop()
            if (cur["crate"], cur["path"]) in seen:
                continue
            seen.add((cur["crate"], cur["path"]))
            for v in cur["variants"]:
                for f in v["fields"]:
                    nfields += 1
                    ty = f["ty"]
                    fpath = f"{cur['path']}.{f['name']}"
                    if HASH_TY.search(ty):
                        run.ob("R13.4", f"{root}|{fpath}", False, None,
                               f"field {fpath}: {ty} is hash-ordered and reachable from {root}",
                               witness="serde_json writes map entries in iteration order; the sha256 of that text is the interface hash")
                    for m in re.finditer(r"[A-Za-z_][A-Za-z0-9_]*(?:::[A-Za-z_][A-Za-z0-9_]*)+|[A-Z][A-Za-z0-9_]*", ty):
                        p = m.group(0)
                        for key in ((cur["crate"], p), ("compiler", p), ("ast", p[5:] if p.startswith("ast::") else p)):
                            if key in adts and key not in seen:
                                work.append((adts[key], fpath))
        run.ob("R13.4", f"{root}|type walk", True, None, f"{len(seen)} types, {nfields} fields walked from {root}")
        run.floor(f"types reachable from {root}", len(seen), 3)


def r13_5(run, cx):
    run.rule("R13.5", "a caller-supplied list of source files is put into canonical (sorted) order before its order can reach "
                      "an ordered sink (file list, top-level order, interface hash); search paths with first-match semantics are not lists of sources")
    n = 0
    for f in cx.model.fns():
        if not f.file.startswith("crates/compiler/src/") or f.file.endswith("main.rs") or f.body is None:
            continue
        plist = [p for p in f.params() if not p["self"] and re.search(r"(\[|Vec<)\s*(std::path::)?PathBuf", p["ty"] or "")
                 and p["pat"]["k"] == "PIdent"]
        if not plist:
            continue
        if not any(True for _ in S.calls(f.body, "parse_ast_file", "parse_file", "parse")):
            continue  # not a consumer of source files (e.g. an interface search path)
        for p in plist:
            name = p["pat"]["name"]
            uses = [x for x in S.walk(f.body) if x["k"] == "Path" and x["segs"] == [name]]
            for u in uses:
                n += 1
                verdict, sink = classify(cx, f.file, u, "compiler", f)
                ok = verdict != "ordered"
                run.ob("R13.5", f"{f.qual}|{name}->{re.sub(r'[^A-Za-z0-9_.:()]+', ' ', sink.split(';')[0])[:60].strip()}" if not ok else f"{f.qual}|{name}@{cx.parents(f.file).parent(u).get('method', cx.parents(f.file).parent(u)['k'])}",
                       ok, site(f.file, u["sp"]), f"use of source list `{name}`: {sink}",
                       witness="pass the same files in another order: file order, top-level order and the interface hash change")
    run.floor("uses of caller-supplied source lists", n, 1)


def file_identity_order(run, model, rule):
    """read_source_files orders and de-duplicates the input files of a package by file identity, not by path spelling"""
    SEP = "crates/compiler/src/pipeline/separate.rs"
    f = model.fn("read_source_files", SEP)
    helpers = {g.name for g in model.fns("crates/compiler/src/pipeline/packages.rs") + model.fns(SEP) if g.body is not None and
               any(c["k"] == "MethodCall" and c["method"] == "canonicalize" for c in S.walk(g.body))}
    ops = [c for c in S.walk(f.body) if c["k"] == "MethodCall" and (c["method"].startswith("sort") or c["method"].startswith("dedup"))]
    if not any(c["method"].startswith("sort") for c in ops):
        raise AnalysisIncomplete("read_source_files: the sort of the input files was not found")
    first = min((c["sp"][0], c["sp"][1]) for c in ops)
    canon = [c for c in S.walk(f.body) if ((c["k"] == "MethodCall" and c["method"] == "canonicalize") or
                                            (c["k"] in ("Call", "MethodCall") and S.callee_name(c) in helpers - {f.name}))
             and (c["sp"][0], c["sp"][1]) < first]
    run.ob(rule, "read_source_files|input files ordered and de-duplicated by file identity", bool(canon), site(SEP, f.node["sp"]),
           f"{len(ops)} sort/dedup operation(s) on the input list; paths resolved to files before them: {len(canon)}",
           witness="build --input a.gom ./b.gom sorts ./b.gom first and gives another interface_hash than --input a.gom b.gom; "
                   "--input a.gom ./a.gom compiles the file twice; link then rejects the dependants (rebuild Main)")


def _canon_expr(x, helpers, derived):
    return any((c["k"] == "MethodCall" and c["method"] == "canonicalize") or (c["k"] in ("Call", "MethodCall") and S.callee_name(c) in helpers)
               for c in S.walk(x)) or bool(S.idents(x) & derived)


def file_identity_sort_key(run, model, rule):
    """the key read_source_files sorts by is the resolved file, not the spelling (de-duplicating by file and sorting by spelling still lets the
    spelling choose the order of two different files)"""
    SEP = "crates/compiler/src/pipeline/separate.rs"
    f = model.fn("read_source_files", SEP)
    helpers = {g.name for g in model.fns("crates/compiler/src/pipeline/packages.rs") + model.fns(SEP) if g.body is not None and
               any(c["k"] == "MethodCall" and c["method"] == "canonicalize" for c in S.walk(g.body))} - {f.name}
    sorts = [c for c in S.walk(f.body) if c["k"] == "MethodCall" and c["method"].startswith("sort")]
    if not sorts:
        raise AnalysisIncomplete("read_source_files: the sort of the input files was not found")
    lets = {}
    for l in S.find(f.body, "Local"):
        if l.get("init") is not None:
            for b in S.pat_bindings(l["pat"]):
                lets.setdefault(b, []).append(l["init"])
    for n, c in enumerate(sorts, 1):
        ok, how = False, "the sorted elements are the paths as spelt"
        clos = [a for a in c["args"] if a["k"] == "Closure"]
        if clos:
            ok = any(_canon_expr(a["body"], helpers, set()) or any(x["k"] == "Field" and str(x.get("member")) == "0" for x in S.walk(a["body"])) for a in clos)
            how = "sort key closure " + ("reads the resolved file" if ok else "does not read the resolved file")
            if ok and not any(_canon_expr(a["body"], helpers, set()) for a in clos):
                clos = []  # `.0` of an element: what is element 0? fall through to the element analysis
                ok = False
        keyed_by_closure = bool([a for a in c["args"] if a["k"] == "Closure"]) and bool(clos)
        if not keyed_by_closure:
            recv = c["recv"]
            inits = [recv] + [i for nm in S.idents(recv) for i in lets.get(nm, [])]
            for init in inits:
                for mc in S.walk(init):
                    if mc["k"] == "MethodCall" and mc["method"] in ("map", "filter_map", "flat_map"):
                        for a in mc["args"]:
                            if a["k"] != "Closure":
                                continue
                            derived = set()
                            for l in S.find(a["body"], "Local"):
                                if l.get("init") is not None and _canon_expr(l["init"], helpers, derived):
                                    derived |= set(S.pat_bindings(l["pat"]))
                            res = a["body"]
                            if res["k"] == "Block" and res["stmts"]:
                                last = res["stmts"][-1]
                                res = last["expr"] if last["k"] == "ExprStmt" else res
                            key = res["elems"][0] if res["k"] == "Tuple" and res["elems"] else res
                            if _canon_expr(key, helpers, derived):
                                ok, how = True, "the sorted elements lead with the resolved file"
        run.ob(rule, f"read_source_files|sort #{n} orders by the resolved file", ok, site(SEP, c["sp"]), how,
               witness="build --input ./Clock/b_fmt.gom Clock/a_time.gom: two different files, the spelling `./` sorts b first; the declaration order "
                       "of the package, its DefIds and the linked Go differ from the whole-program build")


def r13_8(run, model):
    run.rule("R13.8", "a compilation does not depend on what the process compiled before: no `static` item of the workspace holds mutable "
                      "state (static mut, atomics, locks, cells, thread_local!); write-once caches of constant data (OnceLock / LazyLock) "
                      "and plain constants are the only statics - a process-wide counter numbers the temporaries of the second compilation "
                      "in a process differently from the first")
    n = 0
    pat = re.compile(r"^\s*(pub(\([^)]*\))?\s+)?static\s+(mut\s+)?([A-Za-z_][A-Za-z0-9_]*)\s*:\s*(.+?)\s*=")
    for rel in model.src_files():
        if "/tests/" in rel or rel.endswith("/tests.rs"):
            continue
        lines = run.facts.source_lines(rel)
        for i, line in enumerate(lines, 1):
            if "thread_local!" in line and not line.lstrip().startswith("//"):
                n += 1
                run.ob("R13.8", f"{rel.split('/')[-1]}|thread_local! #{n} holds no compilation state", False, site(rel, [i]), "thread-local state outlives one compilation")
                continue
            m_ = pat.match(line)
            if not m_:
                continue
            n += 1
            is_mut, name, ty = bool(m_.group(3)), m_.group(4), m_.group(5)
            bad = is_mut or re.search(r"\b(Atomic\w+|Mutex|RwLock|Cell|RefCell|UnsafeCell|Condvar)\b", ty) is not None
            run.ob("R13.8", f"{rel.split('/')[-1]}|static {name} holds no mutable state", not bad, site(rel, [i]),
                   f"static {'mut ' if is_mut else ''}{name}: {ty}",
                   witness="Gensym drawing from a `static AtomicI32`: compiling the same sources twice in one process (library use, language server, "
                           "playground) gives `x0` the first time and `x60` the second, in every dump, the Go text and the .core file")
    run.floor("static items of the workspace", n, 2)


def run(run, model):
    cx = Ctx(run, model)
    run.try_rule(r13_1, cx)
    run.try_rule(r13_5, cx)
    run.try_rule(r13_2, cx)
    run.try_rule(r13_3, cx)
    run.try_rule(r13_4, cx)
    run.try_rule(r13_8, model)
    from rules import c14
    run.rule("R13.6", "the link order does not depend on the order of the inputs (shared with C14: link_cores always uses the canonical topo_sort)")
    run.try_rule(c14.canonical_link_order, model, "R13.6")
    run.rule("R13.7", "the same files give the same interface however they are spelt on the command line: the file order decides DefId "
                      "numbering and export order, which are hashed, so read_source_files sorts and de-duplicates resolved files")
    run.try_rule(file_identity_order, model, "R13.7")
    run.try_rule(file_identity_sort_key, model, "R13.7")
    run.assume("E1 resolves callees with Instance::try_resolve under TypingEnv::post_analysis on the real cargo build "
               "(dev profile, default features, lib+bin targets of all 8 workspace crates); iteration hidden behind a "
               "dyn Iterator or inside non-workspace generic code receiving a hash container by value is only seen for the "
               "listed std entry points (extend/chain/zip/from_iter/Debug formatting)")
    run.assume("sink classification follows the value syntactically inside one function; a hash-ordered iterator that is "
               "stored or returned is reported rather than followed")
