"""C12 The syntax tree is lossless and positions are exact."""
import re
from lib import syn as S, tables as TB
from lib.mir import Mir, callee_tail
from lib.core import AnalysisIncomplete, site

EXPLANATION = (
    "Static decision of the mechanisms that make the tree lossless. R12.1: TokenKind and the first variants of MySyntaxKind "
    "coincide index for index (the code converts with `self as u16`), the only divergence is Eof/TombStone which is never emitted "
    "as a token, and kind_from_raw's transmute is bounded by the LAST variant of MySyntaxKind. R12.2: in build_tree every "
    "`builder.token` is paired with `cursor += 1` in the same block and nothing else moves the cursor; Parser::advance records "
    "exactly one Advance event per skipped token; the top-level grammar loop runs until the real end of input. R12.3: no entropy "
    "source in lexer/parser (C13). R12.4: the lexer and parser receive the caller's text unchanged (no strip/trim/replace between "
    "the entry points and logos). R12.5: ranges of parser diagnostics are ranges of existing tokens - the parser crate constructs "
    "no TextRange of its own (resolved calls). Char-boundary safety of the multi-line string scanner needs value reasoning and is "
    "not decided.")

PARSER = "crates/parser/src/parser.rs"
FILE = "crates/parser/src/file.rs"


class _BuildTree:
    """structural reading of Parser::build_tree: the token cursor (the local handed to `tokens.get(..)`), the emissions, the trailing loop"""

    def __init__(self, run, model):
        real = model.fn("build_tree", PARSER)

        class _Inl:
            """build_tree with its private helpers put back in place (their parameters named as the caller's variables)"""
            name, file, node, qual = real.name, real.file, real.node, real.qual
            body = model.inlined_body(real, rename=True)
        self.f = bt = _Inl
        gets = [c for c in S.walk(bt.body) if c["k"] == "MethodCall" and c["method"] == "get" and c["args"] and c["args"][0]["k"] == "Path"
                and len(c["args"][0]["segs"]) == 1 and "tokens" in S.idents(c["recv"])]
        names = [c["args"][0]["segs"][0] for c in gets]
        if not names:
            raise AnalysisIncomplete("build_tree: no tokens.get(<cursor>) found")
        self.cur = max(set(names), key=names.count)
        self.lets = {}
        for l in S.find(bt.body, "Local"):
            if l.get("init") is not None:
                for b in S.pat_bindings(l["pat"]):
                    self.lets.setdefault(b, []).append(l["init"])

    def is_cur_get(self, e):
        return any(c["k"] == "MethodCall" and c["method"] == "get" and c["args"] and S.is_path(c["args"][0], self.cur) and "tokens" in S.idents(c["recv"])
                   for c in S.walk(e))

    def break_value(self, cond, eof, triv, depth=0):
        """value of a boolean expression under (token is eof, token is trivia); None if it contains anything else"""
        def atom(e):
            if e["k"] == "Path" and len(e["segs"]) == 1 and e["segs"][0] in self.lets and depth < 3:
                return self.break_value(self.lets[e["segs"][0]][-1], eof, triv, depth + 1)
            if e["k"] == "Binary" and e["op"] in ("==", "!="):
                sides = [e.get("left", e.get("lhs")), e.get("right", e.get("rhs"))]
                if any(x["k"] == "Macro" and x["name"] == "T" and S.norm_ws(x.get("tokens") or "") == "eof" for x in sides) and \
                        any(x["k"] == "Field" and x.get("member") == "kind" for x in sides):
                    return eof if e["op"] == "==" else (not eof)
            if e["k"] == "MethodCall" and e["method"] == "is_trivia" and not e["args"]:
                return triv
            raise ValueError(S.norm_ws(str(e.get("k"))))
        try:
            return S.bool_eval(cond, atom)
        except (ValueError, TypeError):
            return None

    def trailing_loop(self):
        for w in S.find(self.f.body, "While"):
            if w["cond"]["k"] == "Let" and self.is_cur_get(w["cond"]):
                return w
        return None

    def trailing_break_table(self):
        """{(eof, triv): the loop stops}, or None when the stop condition is not a formula over those two questions"""
        w = self.trailing_loop()
        if w is None:
            return None
        brk = [i for i in S.find(w["body"], "If") if any(True for _ in S.find(i["then"], "Break")) and i.get("else") is None]
        if len(brk) != 1:
            return None
        table = {}
        for eof in (True, False):
            for triv in (True, False):
                v = self.break_value(brk[0]["cond"], eof, triv)
                if v is None:
                    return None
                table[(eof, triv)] = v
        return table


def r12_1(run, model):
    run.rule("R12.1", "kind tables coincide: TokenKind[i] == MySyntaxKind[i] for every token kind that can be emitted; kind_from_raw is "
                      "bounded by the last MySyntaxKind variant")
    tk = [v for v, _, _ in TB.token_kinds(model)]
    sk = TB.syntax_kinds(model)
    run.anchor("kind tables", f"{len(tk)} token kinds, {len(sk)} syntax kinds")
    diverge = []
    for i, v in enumerate(tk):
        other = sk[i] if i < len(sk) else None
        if v != other:
            diverge.append((i, v, other))
        if v not in ("Eof",):
            run.ob("R12.1", f"TokenKind::{v}|same discriminant", v == other, site(TB.SYNTAX, None), f"index {i}: TokenKind::{v} vs MySyntaxKind::{other}",
                   witness=f"a {v} token is stored in the tree under the kind {other}: typed accessors (cst) no longer find it, text is kept but structure is wrong")
    ok = all(d[1] == "Eof" for d in diverge)
    run.ob("R12.1", "only Eof diverges", ok, site(TB.SYNTAX, None), f"diverging indices: {diverge}")
    # Eof never emitted as a token: the trivia loop stops at eof and Advance only follows a real token
    B = _BuildTree(run, model)
    bt = B.f
    table = B.trailing_break_table()
    ok_eof = table is not None and table[(True, True)] and table[(True, False)]
    run.ob("R12.1", "build_tree|eof is not emitted by the trivia loop", ok_eof, site(PARSER, bt.node["sp"]),
           f"the trailing loop stops under (eof, trivia): {table}" if table is not None else "the stop condition of the trailing loop is not a formula over `kind == eof` and `is_trivia()`")
    # kind_from_raw bound
    for fn in model.fns(TB.SYNTAX):
        if fn.name == "kind_from_raw":
            t = S.norm_ws(run.facts.text(TB.SYNTAX, fn.body["sp"]))
            m = re.search(r"assert!\(raw\.0<=MySyntaxKind::([A-Za-z_]+)asu16\)", t)
            ok = m is not None and m.group(1) == sk[-1]
            run.ob("R12.1", "kind_from_raw|bounded by the last variant", ok, site(TB.SYNTAX, fn.node["sp"]),
                   f"bound {m.group(1) if m else None}, last variant {sk[-1]}", witness="transmute of an out-of-range u16 (undefined behaviour) or a panic on valid kinds declared after the bound")
    # repr(u16) on both enums
    for name, rel in (("MySyntaxKind", TB.SYNTAX),):
        e = model.enum(name, rel)
        ok = any(a["name"] == "repr" and "u16" in a["args"] for a in e["node"]["attrs"])
        run.ob("R12.1", f"{name}|repr(u16)", ok, site(rel, e["node"]["sp"]), "enum has #[repr(u16)]" if ok else "missing repr")


def _hands_back(e, cur):
    """`cursor = helper(.., cursor)` after inlining: a block of the helper's statements whose value is the cursor itself - the moves are
    the ones inside the block"""
    if e.get("k") == "Block" and e.get("inlined") and e["stmts"]:
        last = e["stmts"][-1]
        return last["k"] == "ExprStmt" and not last.get("semi") and S.is_path(last["expr"], cur)
    return False


def eof_fuel(run, model, rule="R12.2"):
    """Parser::eof does not go through the fuel-limited peek()/nth() (evaluated under C12 as R12.2 and under C04 as R04.28)"""
    # the end-of-input test must be the real one: once fuel runs out peek()/nth() answer Eof for every position, so an eof() that goes
    # through them ends file() (and every grammar loop) with input left over
    meths = {g.name: g for g in model.fns(PARSER) if g.body is not None and g.impl == "Parser"}
    fuel = {n_ for n_, g in meths.items() if any(x["k"] == "Field" and x.get("member") == "fuel" for x in S.walk(g.body))}
    reads = {n_ for n_ in fuel if n_ not in ("advance", "new")}
    changed = True
    while changed:
        changed = False
        for n_, g in meths.items():
            if n_ in reads or n_ in ("advance", "new"):
                continue
            if any(c["k"] == "MethodCall" and c["method"] in reads and S.is_path(c["recv"], "self") for c in S.walk(g.body)):
                reads.add(n_)
                changed = True
    run.floor("positive control: fuel-limited Parser methods (peek, nth, at, …)", len(reads), 4)
    if "eof" not in meths:
        raise AnalysisIncomplete("Parser::eof not found")
    run.ob(rule, "Parser::eof|independent of the stuck-parser fuel", "eof" not in reads, site(PARSER, meths["eof"].node["sp"]),
           f"fuel-limited methods: {sorted(reads)}",
           witness="~130 stacked prefix operators exhaust the fuel inside one expression: eof() answers true, file() stops and the remaining tokens never enter the tree")


def r12_2(run, model):
    run.rule("R12.2", "every token enters the tree exactly once: each builder.token(..) is followed by `cursor += 1` in the same block, "
                      "nothing else moves the cursor, Parser::advance pushes exactly one Advance per skipped token, and file() loops "
                      "until the real end of input")
    B = _BuildTree(run, model)
    bt, cur = B.f, B.cur
    par = S.Parents(bt.body)
    n = 0
    for blk in S.find(bt.body, "Block"):
        stmts = blk["stmts"]
        for i, st in enumerate(stmts):
            e = st.get("expr") if st["k"] == "ExprStmt" else None
            if e and e["k"] == "MethodCall" and e["method"] == "token" and S.is_path(e["recv"], "builder"):
                n += 1
                nxt = stmts[i + 1] if i + 1 < len(stmts) else None
                ne = nxt.get("expr") if nxt is not None and nxt["k"] == "ExprStmt" else None
                ok = ne is not None and ne["k"] == "Binary" and ne["op"] == "+=" and S.is_path(ne.get("left", ne.get("lhs")), cur) and \
                    (ne.get("right", ne.get("rhs")) or {}).get("value") in ("1", 1)
                # the text emitted is the text of the token under the cursor: `<t>.text` where <t> is bound from tokens.get(cursor) around it
                a1 = e["args"][1] if len(e["args"]) > 1 else None
                tok = a1["base"]["segs"][0] if a1 is not None and a1["k"] == "Field" and a1.get("member") == "text" and a1["base"]["k"] == "Path" and len(a1["base"]["segs"]) == 1 else None
                bound = tok is not None and any(a["k"] in ("If", "While") and a["cond"]["k"] == "Let" and tok in S.pat_bindings(a["cond"]["pat"]) and B.is_cur_get(a["cond"])
                                                for a in par.ancestors(e))
                arg = S.norm_ws(run.facts.text(PARSER, a1["sp"])) if a1 is not None else ""
                run.ob("R12.2", f"build_tree|token emission #{n} advances the cursor", ok and bound, site(PARSER, st["sp"]),
                       f"builder.token(.., {arg}) followed by `{S.norm_ws(run.facts.text(PARSER, nxt['sp'])) if nxt else None}`; the token is the one under `{cur}`: {bound}",
                       witness="a token is emitted twice or skipped: the tree text differs from the input")
    run.floor("token emission sites in build_tree", n, 2)
    moves = [x for x in S.walk(bt.body) if x["k"] == "Binary" and x["op"] in ("+=", "-=") and S.is_path(x.get("left", x.get("lhs")), cur)] + \
            [x for x in S.walk(bt.body) if x["k"] == "Assign" and S.is_path(x["left"], cur) and not _hands_back(x["right"], cur)]
    run.ob("R12.2", "build_tree|cursor moves only with an emitted token", len(moves) == n, site(PARSER, bt.node["sp"]), f"{len(moves)} cursor updates for {n} emissions")
    adv = model.fn("advance", PARSER, impl="Parser")
    t = S.norm_ws(run.facts.text(PARSER, adv.body["sp"]))
    ok = t.count("self.input.skip()") == 1 and t.count("self.events.push(Event::Advance)") == 1
    run.ob("R12.2", "Parser::advance|one skip, one Advance event", ok, site(PARSER, adv.node["sp"]), "skip() and push(Event::Advance) occur exactly once each")
    f = model.fn("file", FILE)
    loops = [l for l in S.find(f.body, "While")]
    ok = any(S.norm_ws(run.facts.text(FILE, l["cond"]["sp"])) == "!p.eof()" for l in loops)
    run.ob("R12.2", "file()|loops to the real end of input", ok, site(FILE, f.node["sp"]), "top-level loop condition is `!p.eof()` (raw end of input, not the fuel-aware peek)" if ok else "top-level loop may stop early")
    top = [l for l in loops if S.norm_ws(run.facts.text(FILE, l["cond"]["sp"])) == "!p.eof()"]
    if top:
        inner = [x for x in S.find(top[-1]["body"], "While", "For", "Loop")]
        outs = [x for x in S.walk_no_closures(top[-1]["body"]) if x["k"] in ("Break", "Return") and not any(S.span_contains(i_["sp"], x["sp"]) for i_ in inner)]
        run.ob("R12.2", "file()|nothing but the end of input ends the top-level loop", not outs, site(FILE, (outs or [top[-1]])[0]["sp"]),
               f"{len(outs)} `break` / `return` in the loop over the items of a file",
               witness="a file with more than 64 syntax errors: the loop gives up, the remaining tokens get no Advance event and the tree is a proper prefix of the input")
    eof_fuel(run, model, "R12.2")
    closes = S.norm_ws(run.facts.text(FILE, f.body["sp"]))
    run.ob("R12.2", "file()|FILE node closed", "MySyntaxKind::FILE" in closes and "p.close(" in closes, site(FILE, f.node["sp"]), "file() opens and closes a FILE node")


def r12_13(run, model, mir):
    run.rule("R12.13", "a rendered position is the position of the range: `LineIndex::line_col` answers in UTF-8 byte columns, so a function "
                       "that renders what it returned never hands it to `LineIndex::to_utf8` (the conversion *from* wide columns) - converting "
                       "the wrong way moves the column right by the extra bytes of every non-ASCII character in front of it, past the end of "
                       "the line; expected count zero, the line_col calls seen are the control")
    lc = [c for c in mir.calls if callee_tail(c["callee"]) == "line_col" and "LineIndex" in c["callee"] and "/tests/" not in c["file"]]
    bad = 0
    for c in lc:
        same = [d for d in mir.calls if d["file"] == c["file"] and callee_tail(d["callee"]) == "to_utf8" and "LineIndex" in d["callee"]]
        fns = {re.sub(r"(::\{closure#\d+\})+$", "", c["caller"])}
        # the conversion may sit in a helper of the same file that is handed the LineCol
        for d in same:
            bad += 1
            run.ob("R12.13", f"{c['file'].split('/')[-1]}|a byte column is not converted as if it were a wide column", False, site(c["file"], [d["line"]]),
                   f"{d['caller']} calls LineIndex::to_utf8 in a file that renders LineIndex::line_col results",
                   witness="a syntax error after `let s = \"h\u00e9llo w\u00f6rld\";` on the same line is reported at a column past the end of the line (and past the end of the file on its last line)")
    if not bad:
        run.ob("R12.13", "rendered positions come from line_col unconverted", True, None, f"{len(lc)} line_col calls, no wide->byte conversion beside them")
    run.floor("LineIndex::line_col calls", len(lc), 2)


def r12_7(run, model):
    run.rule("R12.7", "token ranges tile the text: every Token the lexer builds takes its text from `slice()` and its range from "
                      "`range_from_span(span())` of the same match (all construction sites agree, error tokens included), and range_from_span "
                      "uses both ends of the span")
    LEX = "crates/lexer/src/lib.rs"
    n = 0
    for f in model.fns(LEX):
        if f.body is None:
            continue
        for st in S.find(f.body, "Struct"):
            names = {fl["name"] for fl in st["fields"]}
            if not {"kind", "text", "range"} <= names:
                continue
            n += 1
            fl = {x["name"]: x for x in st["fields"]}
            rt = S.norm_ws(run.facts.text(LEX, fl["range"]["expr"]["sp"])) if fl["range"].get("expr") else "range"
            ok = re.fullmatch(r"range_from_span\((self\.inner|lexer|self\.lexer|self)\.span\(\)\)|range", rt) is not None
            run.ob("R12.7", f"{f.qual}|token #{n} range is the match's span", ok, site(LEX, st["sp"]), f"range: {rt[:60]}",
                   witness="an Error token for `日` (3 bytes) gets a 1-byte range: ranges no longer tile the text and a diagnostic ends inside a character")
    run.floor("token construction sites in the lexer", n, 1)
    g = model.fn("range_from_span", LEX)
    t = S.norm_ws(run.facts.text(LEX, g.body["sp"]))
    both = ("span.start" in t and "span.end" in t) or re.search(r"Range\{start,end\}=span", t) is not None
    run.ob("R12.7", "range_from_span|uses both ends", both and re.search(r"TextRange::new\(start,end\)|TextRange::new\(.*start.*,.*end.*\)", t) is not None, site(LEX, g.node["sp"]), t[:120])


def r12_9(run, model):
    run.rule("R12.9", "the lexer drops nothing and the cursor never leaves the token list: TokenKind carries no `#[logos(skip ..)]` (trivia are "
                      "tokens), and Input::skip only increments the cursor under an end-of-input test (past the end, `cursor == len` is "
                      "never true again and every `while !p.eof()` loop spins)")
    LEX = "crates/lexer/src/lib.rs"
    tk = model.enum("TokenKind", LEX)
    skips = []
    for a in tk["node"].get("attrs", []):
        if a["name"] == "logos" and "skip" in (a.get("args") or ""):
            skips.append(a.get("args"))
    for v in tk["variants"]:
        for a in v.get("attrs", []):
            if a["name"] == "logos" and "skip" in (a.get("args") or ""):
                skips.append(f"{v['name']}: {a.get('args')}")
    run.ob("R12.9", "TokenKind|no skipped input", not skips, site(LEX, tk["node"]["sp"]), f"logos skip attributes: {skips or 'none'}",
           witness="a form feed between two functions is dropped: the tree is one byte shorter than the text and every later node sits one byte early")
    INP = "crates/parser/src/input.rs"
    sk = model.fn("skip", INP, impl="Input")
    par = S.Parents(sk.body)
    incs = [x for x in S.walk(sk.body) if x["k"] == "Binary" and x["op"] == "+=" and x["left"]["k"] == "Field" and x["left"].get("member") == "cursor"]
    if not incs:
        raise AnalysisIncomplete("Input::skip: cursor increment not found")
    for x in incs:
        guards = [S.norm_ws(run.facts.text(INP, a["cond"]["sp"])) for a in par.ancestors(x) if a["k"] == "If" and S.span_contains(a["then"]["sp"], x["sp"])]
        ok = any(re.fullmatch(r"!self\.eof\(\)|self\.cursor<self\.tokens\.len\(\)", g) for g in guards)
        run.ob("R12.9", "Input::skip|cursor stays inside the token list", ok, site(INP, x["sp"]), f"`cursor += 1` guarded by {guards or 'nothing'}",
               witness="`if` at end of file: advance() at the real end moves the cursor to len + 1, eof() is false for ever, the parser allocates until it dies")


def r12_4(run, model):
    run.rule("R12.4", "the text handed to the lexer/parser entry points reaches logos unchanged: the lexer constructor and lex() are called "
                      "with the bare input parameter, and no strip/trim/replace is applied to it on the way")
    n = 0
    for rel, names in (("crates/lexer/src/lib.rs", ("lex", "new")), ("crates/parser/src/lib.rs", ("parse", "parse_text", "lex_and_parse")), ("crates/parser/src/input.rs", ("new",))):
        try:
            fns = [f for f in model.fns(rel) if f.name in names and f.body is not None]
        except AnalysisIncomplete:
            continue
        for f in fns:
            strs = [p["pat"]["name"] for p in f.params() if not p["self"] and re.fullmatch(r"&('[a-z_]+)?str", (p["ty"] or "").replace(" ", "")) and p["pat"]["k"] == "PIdent"]
            if not strs:
                continue
            for sname in strs:
                for c in S.walk(f.body):
                    if c["k"] not in ("Call", "MethodCall"):
                        continue
                    cn = S.callee_name(c)
                    if c["k"] == "MethodCall" and S.is_path(c["recv"], sname) and cn in ("strip_prefix", "strip_suffix", "trim", "trim_start", "trim_end", "trim_matches", "trim_start_matches", "replace", "replacen", "to_lowercase", "get", "split_at", "chars", "lines", "nfc"):
                        n += 1
                        run.ob("R12.4", f"{f.qual}|input untouched", False, site(rel, c["sp"]), f"`{sname}.{cn}(..)` rewrites the input before lexing",
                               witness="a text starting with U+FEFF: the tree is 3 bytes shorter than the input and every offset is shifted")
                    elif cn in ("lexer", "lex", "new", "parse") and any(sname in S.idents(a) for a in c["args"]):
                        n += 1
                        bare = all((not (sname in S.idents(a))) or (a["k"] == "Path" and a["segs"] == [sname]) for a in c["args"])
                        run.ob("R12.4", f"{f.qual}|{cn}({sname})", bare, site(rel, c["sp"]), f"{cn} receives `{sname}` {'unchanged' if bare else 'through an expression'}")
    run.floor("input hand-over sites", n, 2)


def r12_5(run, model, mir):
    run.rule("R12.5", "parser diagnostics carry ranges of existing tokens: the parser crate never constructs a TextRange/TextSize of its own "
                      "(expected count 0; positive control: the lexer's range_from_span does)")
    ctor = re.compile(r"text_size::(TextRange::(new|at|empty|up_to)|TextSize::(new|of)|range::TextRange::(new|at|empty|up_to))")
    ctrl, bad = 0, 0
    for c in mir.calls:
        if not ctor.search(c["callee"]) and not (callee_tail(c["callee"]) in ("at", "new", "empty", "up_to") and "TextRange" in c["ret"] and "text_size" in c["callee"]):
            continue
        if c["file"].startswith("crates/lexer/src/"):
            ctrl += 1
        elif c["file"].startswith("crates/parser/src/"):
            bad += 1
            run.ob("R12.5", f"{c['caller']}|constructs a range", False, site(c["file"], [c["line"]]), f"{c['callee']} in the parser crate",
                   witness="a parse error at end of input gets the range len..len+1, outside the text")
    run.ob("R12.5", "parser crate|no range construction", bad == 0, None, f"{bad} constructions in the parser, {ctrl} in the lexer (control)")
    run.floor("positive control: TextRange constructions recognised in the lexer", ctrl, 1)
    # the Error event takes its range from a token
    B = _BuildTree(run, model)
    bt = B.f
    ok = False
    for m in S.find(bt.body, "Match"):
        for arm in m["arms"]:
            if "Event::Error" in S.norm_ws(run.facts.text(PARSER, arm["pat"]["sp"])):
                # what with_range receives is made of tokens.get(cursor), tokens.last() and their `.range` - nothing else
                lets = {}
                for l in S.find(arm["body"], "Local"):
                    if l.get("init") is not None:
                        for b_ in S.pat_bindings(l["pat"]):
                            lets.setdefault(b_, []).append(l["init"])
                for wr in S.walk(arm["body"]):
                    if wr["k"] != "MethodCall" or wr["method"] != "with_range" or not wr["args"]:
                        continue
                    seen, work, exprs = set(), [wr["args"][0]], []
                    while work:
                        x = work.pop()
                        exprs.append(x)
                        for nm in S.idents(x):
                            if nm in lets and nm not in seen:
                                seen.add(nm)
                                work.extend(lets[nm])
                    calls_ = {c["method"] for x in exprs for c in S.walk(x) if c["k"] == "MethodCall" and not c.get("inlined_call")} | \
                             {S.callee_name(c) for x in exprs for c in S.walk(x) if c["k"] == "Call" and not c.get("inlined_call")}
                    fields = {c.get("member") for x in exprs for c in S.walk(x) if c["k"] == "Field"}
                    ok = any(B.is_cur_get(x) for x in exprs) and "last" in calls_ and "range" in fields and \
                        calls_ <= {"get", "last", "map", "or", "or_else", "and_then", "copied", "cloned", "as_ref"} and fields <= {"range"}
    run.ob("R12.5", "build_tree|error range is a token's range", ok, site(PARSER, bt.node["sp"]), "current token's range, else the last token's range" if ok else "error range is computed differently")


def r12_10(run, model):
    run.rule("R12.10", "the cursor and the tree builder skip the same tokens: the tokens Input steps over without an Advance event, and the "
                       "tokens build_tree attaches without one, are decided by TokenKind::is_trivia alone - in parser/input.rs every "
                       "decision about a token kind (conditions and boolean results, helpers of the file followed one level) uses no other "
                       "predicate and names no token but end-of-input, and build_tree's trailing loop does the same")
    INPUT = "crates/parser/src/input.rs"
    fns = {f.name: f for f in model.fns(INPUT) if f.body is not None}
    ALLOWED = {"is_trivia", "len", "get", "map_or", "map", "is_some", "is_none"}

    def offences(node, depth=0):
        out = []
        for x in S.walk(node):
            if x["k"] == "Macro" and x["name"] == "T" and S.norm_ws(x.get("tokens") or "") != "eof":
                out.append(f"names the token `{x.get('tokens')}`")
            if x["k"] == "Macro" and x["name"] == "matches":
                out.append("classifies kinds with matches!")
            if x["k"] in ("Call", "MethodCall"):
                cn = S.callee_name(x)
                if cn in ALLOWED:
                    continue
                if cn in fns and depth < 2:
                    out += [f"{cn}: {o}" for o in offences(fns[cn].body, depth + 1)]
                elif cn not in fns:
                    out.append(f"calls `{cn}`")
        return out
    n = 0
    for name, f in sorted(fns.items()):
        deciders = [c["cond"] for c in S.walk(f.body) if c["k"] in ("If", "While")]
        # iterator adaptors that select tokens decide as well
        deciders += [c["args"][0]["body"] for c in S.walk(f.body) if c["k"] == "MethodCall" and c["args"] and c["args"][0]["k"] == "Closure" and
                     c["method"] in ("filter", "skip_while", "take_while", "position", "find", "any", "all", "filter_map", "rposition")]
        if (f.node.get("ret") or "").strip() == "bool" and f.body["stmts"] and f.body["stmts"][-1]["k"] == "ExprStmt":
            deciders.append(f.body["stmts"][-1]["expr"])
        for d in deciders:
            n += 1
            off = offences(d)
            run.ob("R12.10", f"Input::{name}|decision #{deciders.index(d) + 1} rests on is_trivia alone", not off, site(INPUT, d["sp"]),
                   f"`{S.norm_ws(run.facts.text(INPUT, d['sp']))[:60]}`" + (f": {off[0]}" if off else ""),
                   witness="with lexer Error tokens skipped by the cursor but not by build_tree, the builder falls one token behind per stray `$`: "
                           "the last tokens never enter the tree and it no longer spells the input")
    run.floor("token-kind decisions in parser/input.rs", n, 5)
    B = _BuildTree(run, model)
    bt = B.f
    table = B.trailing_break_table()
    # attached without an event: exactly the trivia before the end of input (stop at the first token that is not trivia, go on over trivia)
    ok = table is not None and table[(False, False)] and not table[(False, True)]
    run.ob("R12.10", "build_tree|tokens attached without an event are the trivia", ok, site(PARSER, bt.node["sp"]),
           "the trailing loop stops at the first token that is not trivia (or at end of input)" if ok else "the trailing loop uses another notion of skippable token")


def _marker_paths(f):
    """abstract interpretation of one grammar function: every marker obtained from p.open()/open_before() is followed along all
    paths; returns {marker: set of close counts seen at an exit of the function} for markers that do not escape"""
    exits = []

    def closes_of(c):
        return c["k"] == "MethodCall" and c["method"] == "close" and c["args"] and c["args"][0]["k"] == "Path" and len(c["args"][0]["segs"]) == 1

    def ev(node, states):
        """states: set of frozenset((marker, count)); returns the states that fall through"""
        if node is None or not states:
            return states
        k = node["k"]
        if k == "Block":
            for st in node["stmts"]:
                states = ev(st, states)
            return states
        if k == "Local":
            states = ev(node.get("init"), states)
            init = node.get("init")
            if init is not None and node["pat"]["k"] == "PIdent" and init["k"] == "MethodCall" and init["method"] in ("open", "open_before"):
                nm = node["pat"]["name"]
                states = {frozenset({(m, c) for m, c in st if m != nm} | {(nm, 0)}) for st in states}
            if node.get("else") is not None:
                ev(node["else"], states)   # let-else: the else block diverges
            return states
        if k == "ExprStmt":
            return ev(node["expr"], states)
        if k == "If":
            states = ev(node["cond"], states)
            a = ev(node["then"], states)
            b = ev(node["else"], states) if node.get("else") is not None else states
            return a | b
        if k == "Match":
            states = ev(node["scrut"], states)
            out = set()
            for arm in node["arms"]:
                out |= ev(arm["body"], states)
            return out
        if k in ("While", "Loop", "For"):
            if k == "While":
                states = ev(node["cond"], states)
            once = ev(node["body"], states)
            twice = ev(node["body"], once)
            return states | once | twice
        if k == "Return":
            states = ev(node.get("expr"), states)
            exits.extend(states)
            return set()
        if k in ("Break", "Continue"):
            return states
        if k == "Closure":
            return states
        if k == "Try":
            states = ev(node.get("expr"), states)
            exits.extend(states)
            return states
        if k == "MethodCall":
            states = ev(node["recv"], states)
            for a in node["args"]:
                states = ev(a, states)
            if closes_of(node):
                nm = node["args"][0]["segs"][0]
                states = {frozenset((m, min(c + 1, 2)) if m == nm else (m, c) for m, c in st) for st in states}
            elif node["method"] == "pop" and node["recv"]["k"] == "Field" and node["recv"].get("member") == "events":
                # the Open event is taken back: the markers still open on this path are abandoned, which settles them like a close
                states = {frozenset((m, 1) if c == 0 else (m, c) for m, c in st) for st in states}
            return states
        if k == "Macro":
            if node["name"] in ("panic", "unreachable", "todo", "unimplemented"):
                return set()
            return states
        for v in node.values():
            if isinstance(v, dict) and "k" in v:
                states = ev(v, states)
            elif isinstance(v, list):
                for x in v:
                    if isinstance(x, dict) and "k" in x:
                        states = ev(x, states)
        return states
    end = ev(f.body, {frozenset()})
    exits.extend(end)
    # a marker that is handed to anything but close (or is the function's result) is somebody else's to close
    escaped = set()
    for c in S.walk(f.body):
        if c["k"] in ("Call", "MethodCall") and not closes_of(c):
            for a in c["args"]:
                if a["k"] == "Path" and len(a["segs"]) == 1:
                    escaped.add(a["segs"][0])
        if c["k"] == "Struct":
            escaped |= S.idents(c)
        if c["k"] == "Return" and c.get("expr") is not None:
            escaped |= {i for i in S.idents(c["expr"]) if not any(closes_of(x) for x in S.walk(c["expr"]))}
    last = f.body["stmts"][-1] if f.body["stmts"] else None
    if last is not None and last["k"] == "ExprStmt" and last["expr"]["k"] == "Path":
        escaped |= S.idents(last["expr"])
    out = {}
    for st in exits:
        for m, cnt in st:
            if m not in escaped:
                out.setdefault(m, set()).add(cnt)
    return out


def r12_11(run, model):
    run.rule("R12.11", "the event stream is balanced: in every grammar function each marker taken with p.open()/p.open_before() has been "
                       "handed to p.close exactly once at every exit of the function (path analysis over if/match/loops/early returns; a "
                       "marker passed on to another function is that function's) - a marker closed twice pushes two Close events for one "
                       "Open and the tree builder finishes a node it never started")
    n = 0
    for rel in sorted(r for r in model.src_files() if r.startswith("crates/parser/src/")):
        for f in model.fns(rel):
            if f.body is None or not any(c["k"] == "MethodCall" and c["method"] in ("open", "open_before") for c in S.walk(f.body)):
                continue
            res = _marker_paths(f)
            for m, counts in sorted(res.items()):
                n += 1
                ok = counts == {1}
                run.ob("R12.11", f"{f.name}|marker `{m}` is closed exactly once on every path", ok, site(rel, f.node["sp"]),
                       f"close counts at the exits: {sorted(counts)}" + ("" if ok else (" (2 = more than once)" if 2 in counts else " (0 = never closed on some path)")),
                       witness="|_| 0 or |1| 2: the error branch closes the parameter's marker and falls through to the normal close; "
                               "rowan's builder panics in finish_node (Option::unwrap on None)")
    run.floor("markers followed through the grammar", n, 40)


def r12_12(run, model, mir):
    from rules import c20
    from lib.panics import Graph
    c20.r20_1(run, model, mir, Graph(mir))


def run(run, model):
    mir = Mir(run.facts)
    run.try_rule(r12_1, model)
    run.try_rule(r12_2, model)
    run.try_rule(r12_4, model)
    run.try_rule(r12_5, model, mir)
    from rules import c04
    run.rule("R12.6", "parsing terminates: every grammar loop makes progress (shared with C04 R04.1, abstract interpretation of the parser)")
    run.try_rule(c04.r04_1, model)
    run.rule("R12.8", "the hand-written scanners of lexer and parser never index past the end (shared with C04 R04.7)")
    run.try_rule(c04.r04_7, model, ("crates/lexer/src/lib.rs", "crates/parser/src/input.rs", "crates/parser/src/parser.rs"))
    run.try_rule(r12_7, model)
    run.try_rule(r12_9, model)
    run.try_rule(r12_10, model)
    run.try_rule(r12_11, model)
    # positions attached to diagnostics lie in the text they refer to: errors of a non-entry file (shared with C04 R04.18)
    run.try_rule(c04.r04_18, model)
    # parsing terminates normally on every input: the panic sites reachable from parser::parse are ledgered (shared with C20 R20.1)
    run.try_rule(r12_12, model, mir)
    run.try_rule(r12_13, model, mir)
    # R12.3: no entropy in lexer / parser
    run.rule("R12.3", "lexing and parsing are deterministic: no hash-ordered iteration and no entropy source in the lexer/parser/cst/ast crates")
    bad = [c for c in mir.calls if c["file"].startswith(("crates/lexer/src", "crates/parser/src")) and re.search(r"std::collections::Hash(Map|Set)|RandomState|SystemTime|Instant::now|std::env::", c["callee"])]
    run.ob("R12.3", "lexer+parser|no hash containers or entropy", not bad, None, f"{len(bad)} offending resolved calls" + (f": {bad[0]['callee']}" if bad else ""))
    run.assume("rowan's GreenNodeBuilder concatenates token texts in emission order (outside the repository)")
    run.assume("logos yields tokens whose spans tile the input (outside the repository); Error tokens cover unmatched bytes")
