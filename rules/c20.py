"""C20 Editor queries are crash-free and agree with the compiler."""
import re
from lib import syn as S
from lib.mir import Mir, callee_tail
from lib.panics import Graph, site_kind, base_fn, norm_callee
from lib.core import AnalysisIncomplete, site

EXPLANATION = (
    "Static decision on the resolved call graph (E1). R20.1: from hover_type / dot_completions / colon_colon_completions and the "
    "wasm-app exports hover / dot_completions / colon_colon_completions, every reachable site that can panic by design - panic!, "
    "unreachable!, assert*!, Option/Result unwrap/expect, slicing of a str by a range - is either a reviewed ledger entry (keyed by "
    "function and kind, with the invariant that makes it unreachable) or discharged by R04.3 (a grammar function's `assert!(p.at(K))` "
    "whose every call site is guarded by a test for K). R20.2: every rowan token_at_offset call in the query code is dominated by a "
    "bounds test of its offset or by a checked helper that rejects offsets outside the text. R20.3: the type recorded for hover "
    "(record_expr_ty) and the type recorded in the elaboration the compile path reads (record_name_ref_elab / record_call_elab) for "
    "the same expression are the same value. Vec/slice indexing sites on the path are counted and listed, not ledgered. That "
    "completions type-check when inserted is not decided.")

QUERY = "crates/compiler/src/query.rs"
CHECK = "crates/compiler/src/typer/check.rs"

ROOTS = [("compiler", "query::hover_type"), ("compiler", "query::dot_completions"), ("compiler", "query::colon_colon_completions"),
         ("wasm_app", "hover"), ("wasm_app", "dot_completions"), ("wasm_app", "colon_colon_completions")]

# (crate-local function path, kind) -> (max sites, reason)
LEDGER = {
    ("lower::lower_expr_with_args", "unwrap"): (2, "`constructor.last_ident().expect(..)`: lower_constructor_path_from_ident_expr returns paths with at least one segment (it returns None otherwise)"),
    ("lower::apply_trailing_args", "panic"): (1, "unreachable!() in a loop whose accumulator is assigned an ECall on every iteration and initialised with one"),
    ("pipeline::pipeline::parse_ast_from_source", "unwrap"): (1, "CstFile::cast(root): the parser always closes a FILE node around the whole input (R12.2)"),
    ("pipeline::pipeline::parse_ast_from_source_allow_parse_errors", "unwrap"): (1, "same: the root node is always FILE"),
    ("pipeline::pipeline::typecheck_with_packages_and_results", "panic"): (1, "package id lookup for a name taken from the same map's key set two statements earlier"),
    ("pprint::tast_pprint::<impl tast::Ty>::to_pretty", "unwrap"): (2, "fmt::Write into a String cannot fail"),
    ("tast::<impl common::Prim>::zero_for_int_ty", "panic"): (1, "called with a type for which is_integer_ty held (integer_literal_target / typed literal arms)"),
    ("tast::<impl common::Prim>::from_float_literal", "panic"): (1, "called with TFloat32/TFloat64 only (literal arms)"),
    ("parser::MarkerOpened::completed", "panic"): (1, "marker protocol: the slot at index was written by open()"),
    ("parser::MarkerClosed::precede", "panic"): (1, "marker protocol: a closed marker indexes an Open event"),
    ("parser::Parser::<'_>::build_tree", "panic"): (1, "forward_parent links always point at Open events (written by precede)"),
    ("path::parse_path_inner", "panic"): (1, "debug_assert! (absent from release builds); parse_path/parse_path_always are called from arms on T![ident] | T![::] only"),
    ("pattern::simple_pattern", "panic"): (1, "unreachable!() behind `at_any(PATTERN_FIRST)`: R04.2 checks the arms cover PATTERN_FIRST"),
    ("has_imports", "unwrap"): (1, "wasm-app: File::cast on the parser's root node (always FILE)"),
    ("query::path_segments_at_offset", "str-slice"): (1, "start/end delimit a run of ASCII path characters found by byte scanning: both are char boundaries"),
    ("query::strip_namespace_member", "str-slice"): (1, "offset is the length of a prefix that `starts_with` just matched"),
    ("lower::attribute_path", "str-slice"): (1, "idx comes from str::find on the same string"),
}
# Vec/slice/arena indexing reachable from the query entry points: function -> (max sites incl. bounds-check asserts, reason)
INDEX_LEDGER = {
    "env::TypeEnv::build_enum_constructor": (2, "index obtained from enumerate()/position on the same variants vector"),
    "hir::HirTable::*": (1, "arena/vector access by an id minted by the same table (package asserted equal first)"),
    "hir::Path::namespace_segments": (1, "slice up to len-1 after an emptiness test"),
    "hir::resolve_constructor_path": (3, "`matches[0]` after `matches.len() == 1`; candidate lists are non-empty by construction"),
    "hir::resolve_constructors": (2, "arena access by ids collected from the same arena"),
    "input::Input::<'t>::nth": (1, "inside `while idx < self.tokens.len()` (R04.7)"),
    "parser::MarkerClosed::precede": (1, "marker index written by open()"),
    "parser::MarkerOpened::completed": (1, "marker index written by open()"),
    "parser::Parser::<'_>::build_tree": (2, "event indices: loop variable over 0..events.len() and forward_parent links"),
    "parser::Parser::<'_>::close": (1, "marker index written by open()"),
    "pipeline::packages::visit_package": (1, "`stack[pos..]` with pos from position() on the same stack"),
    "query::colon_colon_completions": (1, "range ..len.saturating_sub(1)"),
    "query::find_function_type": (1, "guarded by a length comparison in the same condition"),
    "query::lookup_type_from_segments": (3, "segments is non-empty (checked by the callers); ..len-1"),
    "query::path_segments_at_offset": (5, "byte scanning with bounds tests (R04.7)"),
    "query::ident_prefix_at_offset": (1, "bytes[idx-1] under idx > 0 (R04.7)"),
}
HIR_TABLE_REASON = "HirTable accessor: assert_eq!(id.pkg, self.package) - ids are minted by this table for its own package (lower_to_hir_files_with_env creates one table per package)"


def sites_on_path(run, model, mir, g, R):
    out = []
    for c in mir.calls:
        k = site_kind(c)
        if not k:
            continue
        src = (c["crate"], base_fn(c["caller"]))
        if src not in R:
            continue
        if k == "index":
            if c["args"] and re.match(r"^&(mut )?str$", c["args"][0]) and "Range" in c["callee"] + " ".join(c["args"][1:]):
                k = "str-slice"
            elif c["args"] and re.match(r"^&(mut )?str$", c["args"][0]):
                # `match s { "true" => .. }` compiles to str comparisons, not slicing; only Range-indexed strs panic
                continue
        out.append((src, k, c))
    return out


def guarded_asserts(run, model):
    """R04.3: grammar functions starting with assert!(p.at(K)) and whether each call site is guarded. returns {fn name: (K, ok, detail)}"""
    res = {}
    pfiles = [f for f in model.src_files() if f.startswith("crates/parser/src/")]
    gram = {}
    for rel in pfiles:
        for f in model.fns(rel):
            if f.body is None or not f.body["stmts"]:
                continue
            # the precondition is asserted before the parser is touched: the leading statements up to the first one that calls a
            # parser method other than inside the assert itself (plain lets without a `p.` call are skipped)
            lead = []
            for st in f.body["stmts"]:
                lead.append(st)
                e0 = st.get("expr") if st["k"] == "ExprStmt" else None
                if e0 is not None and e0["k"] == "Macro" and e0["name"] == "assert":
                    break
                if st["k"] == "Local" and not any(c["k"] == "MethodCall" and S.is_path(c["recv"], "p") for c in S.walk(st)):
                    continue
                if len(lead) >= 2:
                    break
            for st in lead:
                e = st.get("expr") if st["k"] == "ExprStmt" else None
                if e and e["k"] == "Macro" and e["name"] == "assert":
                    t = S.norm_ws(e.get("tokens", ""))
                    m = re.fullmatch(r"p\.at\(T!\[('.'|[^\]]+)\]\)", t)
                    m2 = re.fullmatch(r"p\.at_any\(([A-Z_]+)\)", t)
                    if m:
                        k = m.group(1)
                        gram[f.name] = ("at", k[1] if len(k) == 3 and k[0] == "'" else k, f)
                    elif m2:
                        gram[f.name] = ("at_any", m2.group(1), f)
    for name, (kind, K, f) in gram.items():
        sites, bad = 0, []
        for rel in pfiles:
            for g in model.fns(rel):
                if g.body is None:
                    continue
                par = None
                for c in S.calls(g.body, name):
                    if c["k"] != "Call":
                        continue
                    if par is None:
                        par = S.Parents(g.body)
                    sites += 1
                    ok = False
                    needle = f"p.at(T![{K}])" if kind == "at" else f"p.at_any({K})"
                    needle_q = f"p.at(T!['{K}'])"
                    for a in par.ancestors(c):
                        if a["k"] in ("If", "While"):
                            ct = S.norm_ws(run.facts.text(rel, a["cond"]["sp"]))
                            inside_then = a["k"] == "While" or S.span_contains(a["then"]["sp"], c["sp"])
                            if inside_then and (needle in ct or needle_q in ct) and not re.search(r"!\s*" + re.escape(needle), ct):
                                ok = True
                                break
                        if a["k"] == "Arm":
                            pt = S.norm_ws(run.facts.text(rel, a["pat"]["sp"]))
                            if f"T![{K}]" in pt or f"T!['{K}']" in pt:
                                ok = True
                                break
                    if not ok:
                        # guard through a predicate helper whose first statement is `if !p.at(K) { return false; }`
                        for a in par.ancestors(c):
                            if a["k"] == "If" and S.span_contains(a["then"]["sp"], c["sp"]):
                                for pc in S.calls(a["cond"]):
                                    hs = [h for r2 in pfiles for h in model.find_fns(S.callee_name(pc) or "", r2)]
                                    for h in hs:
                                        if h.body is None or not h.body["stmts"]:
                                            continue
                                        # the first statement that touches the parser (plain lets without a `p.` call may precede it)
                                        lead = [st_ for st_ in h.body["stmts"] if not (st_["k"] == "Local" and not any(
                                            c_["k"] == "MethodCall" and S.is_path(c_["recv"], "p") for c_ in S.walk(st_)))]
                                        if not lead:
                                            continue
                                        t0 = S.norm_ws(run.facts.text(h.file, lead[0]["sp"]))
                                        if t0 in (f"if!{needle}{{returnfalse;}}", f"if!{needle_q}{{returnfalse;}}"):
                                            ok = True
                    if not ok:
                        # same function asserts the same K first and has not advanced yet (delegation)
                        for st in [st_ for st_ in g.body["stmts"] if not (st_["k"] == "Local" and not any(
                                c_["k"] == "MethodCall" and S.is_path(c_["recv"], "p") for c_ in S.walk(st_)))][:2]:
                            e = st.get("expr") if st["k"] == "ExprStmt" else None
                            if e and e["k"] == "Macro" and e["name"] == "assert" and S.norm_ws(e.get("tokens", "")) in (needle, needle_q):
                                pre = [x for x in S.walk(g.body) if x["k"] in ("Call", "MethodCall") and (x["sp"][0], x["sp"][1]) < (c["sp"][0], c["sp"][1])
                                       and S.callee_name(x) in ("advance", "expect", "eat", "advance_with_error")]
                                ok = not pre
                    if not ok:
                        bad.append(f"{g.name}:{c['sp'][0]}")
        res[name] = (K, sites > 0 and not bad, f"{sites} call sites, unguarded: {bad or 'none'}", f)
    return res


def r20_1(run, model, mir, g):
    run.rule("R20.1", "the query path is panic-free up to a reviewed ledger: every reachable panic!/unreachable!/assert!/unwrap/expect/str-range-slice "
                      "is a ledger entry (function, kind, invariant) or a grammar precondition discharged by guarded call sites (R04.3)")
    roots = [r for r in ROOTS if r in g.fns]
    if len(roots) < 4:
        raise AnalysisIncomplete(f"query entry points not found in E1 facts: {roots}")
    R = g.reachable(roots)
    run.floor("functions reachable from the query entry points", len(R), 400)
    run.anchor("query entry points", [f"{a}::{b}" for a, b in roots])
    sites = sites_on_path(run, model, mir, g, R)
    gas = guarded_asserts(run, model)
    run.floor("grammar functions with a token precondition", len(gas), 25)
    # a private helper split off a ledgered function keeps that function's entry: the sites of a function that is absent from the
    # ledger and has exactly one caller are charged to the caller's budget (the budget is a maximum, so a site added on the way shows)
    callers = {}
    for a_, tgts in g.edges.items():
        for t_ in tgts:
            if t_ != a_:
                callers.setdefault(t_, set()).add(a_)

    def owner(src, has_entry):
        seen = set()
        while not has_entry(src[1]) and src not in seen:
            seen.add(src)
            cs_ = callers.get(src, set())
            if len(cs_) != 1:
                break
            up = next(iter(cs_))
            if up[0] != src[0]:
                break
            src = up
        return src

    per = {}
    nindex = 0
    for src, k, c in sites:
        if k == "index":
            nindex += 1
            continue
        src = owner(src, lambda fn_, k=k: (fn_, k) in LEDGER or fn_.startswith("hir::HirTable::") or (k == "panic" and fn_.split("::")[-1] in gas))
        per.setdefault((src, k), []).append(c)
    for (src, k), cs in sorted(per.items()):
        crate, fn_ = src
        short = fn_
        c0 = cs[0]
        # grammar assert
        leaf = fn_.split("::")[-1]
        if k == "panic" and crate == "parser" and leaf in gas and all(x["mac"] in ("assert!", "$crate::assert!") for x in cs):
            K, ok, detail, f = gas[leaf]
            run.ob("R20.1", f"{crate}::{fn_}|assert p.at({K})", ok, site(c0["file"], [c0["line"]]),
                   f"precondition assert on `{K}`: {detail}",
                   witness=f"a caller reaches {leaf}() without the parser being at `{K}`: assert! panics on malformed input")
            continue
        if k == "panic" and fn_.startswith("hir::HirTable::") and all(x["mac"].startswith("assert_eq") for x in cs):
            run.ob("R20.1", f"{crate}::{fn_}|{k}", True, site(c0["file"], [c0["line"]]), f"ledger: {HIR_TABLE_REASON}")
            continue
        led = LEDGER.get((fn_, k))
        ok = led is not None and len(cs) <= led[0]
        run.ob("R20.1", f"{crate}::{fn_}|{k}" + (f"|x{len(cs)}" if led and len(cs) > led[0] else ""), ok, site(c0["file"], [c0["line"]]),
               f"{len(cs)} {k} site(s) ({norm_callee(c0['callee']).split('::')[-1]}{' via ' + c0['mac'] if c0['mac'] else ''})" +
               (f"; ledger (max {led[0]}): {led[1]}" if led else "; NOT in the ledger"),
               witness="a hover/completion request on an incomplete or non-ASCII text reaches this site and the editor service crashes")
    # indexing sites: per-function ledger with a maximum count (resolved Index::index calls + MIR bounds-check asserts)
    per_fn = {}
    where = {}
    has_index_entry = lambda fn_: fn_ in INDEX_LEDGER or fn_.startswith("hir::HirTable::")
    for src, k, c in sites:
        if k == "index":
            src = owner(src, has_index_entry)
            per_fn[src] = per_fn.get(src, 0) + 1
            where.setdefault(src, (c["file"], c["line"]))
    for a_ in mir.raw["assert"]:
        if a_["kind"] != "BoundsCheck":
            continue
        src = (a_["crate"], base_fn(a_["caller"]))
        if src in R:
            src = owner(src, has_index_entry)
            per_fn[src] = per_fn.get(src, 0) + 1
            where.setdefault(src, (a_["file"], a_["line"]))
    for (crate, fn_), cnt in sorted(per_fn.items()):
        led = INDEX_LEDGER.get(fn_) or (INDEX_LEDGER.get("hir::HirTable::*") if fn_.startswith("hir::HirTable::") else None)
        ok = led is not None and cnt <= led[0]
        fl, ln = where[(crate, fn_)]
        run.ob("R20.1", f"{crate}::{fn_}|index" + (f"|x{cnt}" if led and cnt > led[0] else ""), ok, site(fl, [ln]),
               f"{cnt} indexing site(s)" + (f"; ledger (max {led[0]}): {led[1]}" if led else "; NOT in the ledger"),
               witness="an index computed from user input (argument lists, segments, offsets) is out of range on an incomplete program and the query panics")
    run.ob("R20.1", "query path|index sites", True, None, f"{sum(per_fn.values())} indexing sites in {len(per_fn)} functions reachable from the query entry points")
    run.floor("panic-capable sites examined on the query path", sum(len(v) for v in per.values()), 40)


def r20_2(run, model):
    run.rule("R20.2", "every token_at_offset(offset) in the query code is preceded by a rejecting bounds test of that offset against the tree's "
                      "text range, or the offset went through a checked helper (`…(src, offset)?`) that returns None outside the text")
    def guarded(f, v, pos):
        """is the offset variable `v` of function f known to lie inside the text before position `pos`"""
        ok = False
        why = "no bounds test found"
        # variables validated by a checked helper: bound (by any pattern) from `helper(src, X)?` where helper uses str::get
        validated = {}
        for l in S.find(f.body, "Local"):
            init = l.get("init")
            if init is None or (l["sp"][0], l["sp"][1]) > pos:
                continue
            if init["k"] == "Try" and init["expr"]["k"] == "Call":
                inner = init["expr"]
                callee = S.callee_name(inner)
                h = model.find_fns(callee, QUERY)
                if h and ".get(" in S.norm_ws(run.facts.text(QUERY, h[0].body["sp"])) and any("src" in S.idents(a) for a in inner["args"]):
                    for b_ in S.pat_bindings(l["pat"]):
                        validated[b_] = f"`{callee}(src, …)?` (uses str::get) rejects offsets outside the text"
                    for a in inner["args"]:
                        for i in S.idents(a):
                            if "offset" in i:
                                validated[i] = f"`{callee}(src, {i})?` succeeded"
        changed = True
        while changed:
            changed = False
            for l in S.find(f.body, "Local"):
                if l["pat"]["k"] == "PIdent" and l["pat"]["name"] not in validated and l.get("init") is not None:
                    ids = {i for i in S.idents(l["init"]) if i in validated}
                    others = {i for i in S.idents(l["init"]) if ("offset" in i or "start" in i) and i not in validated}
                    if ids and not others:
                        validated[l["pat"]["name"]] = f"derived from {sorted(ids)} ({validated[sorted(ids)[0]]})"
                        changed = True
        if v in validated:
            ok, why = True, validated[v]
        for iff in S.find(f.body, "If"):
            if ok or (iff["sp"][0], iff["sp"][1]) > pos:
                continue
            ct = S.norm_ws(run.facts.text(QUERY, iff["cond"]["sp"]))
            if v and re.search(r"\b" + re.escape(v) + r"\b", ct) and re.search(r"text_range\(\)\.end\(\)|\.len\(\)|text_len\(\)", ct) and any(True for _ in S.find(iff["then"], "Return")):
                ok, why = True, f"`if {ct}` returns before the call"
        return ok, why

    n = 0
    for f in model.fns(QUERY):
        if f.body is None:
            continue
        for c in S.calls(f.body, "token_at_offset"):
            if c["k"] != "MethodCall" or not c["args"]:
                continue
            n += 1
            var = sorted(S.idents(c["args"][0]))
            v = var[0] if var else None
            ok, why = guarded(f, v, (c["sp"][0], c["sp"][1]))
            ps = [p["pat"].get("name") for p in f.params() if not p["self"]]
            if not ok and v in ps:
                # the offset is a parameter of a private helper: every caller in the file has tested what it passes
                sites_ = [(g, cc) for g in model.fns(QUERY) if g.body is not None and g is not f for cc in S.walk(g.body)
                          if cc["k"] in ("Call", "MethodCall") and S.callee_name(cc) == f.name and len(cc["args"]) > ps.index(v)]
                res = []
                for g, cc in sites_:
                    ids = sorted(S.idents(cc["args"][ps.index(v)]))
                    res.append(guarded(g, ids[0] if ids else None, (cc["sp"][0], cc["sp"][1])))
                if sites_ and all(r_[0] for r_ in res) and "pub" not in (f.node.get("vis") or ""):
                    ok, why = True, f"parameter of a private helper; its {len(sites_)} caller(s) test the offset first: {res[0][1]}"
            run.ob("R20.2", f"{f.qual}|token_at_offset({v})", ok, site(QUERY, c["sp"]), why,
                   witness="hover at a column past the end of the last line: rowan asserts the offset is inside the tree and panics")
    run.floor("token_at_offset calls in query.rs", n, 3)


def r20_3(run, model):
    run.rule("R20.3", "hover agrees with the compiler: where the typer records both a hover type (record_expr_ty) and an elaboration read by the "
                      "compile path (record_name_ref_elab / record_call_elab) for the same expression, both carry the same type value")
    n = 0
    for f in model.fns(CHECK):
        if f.body is None:
            continue
        for blk in S.find(f.body, "Block"):
            recs = []
            for st in blk["stmts"]:
                e = st.get("expr") if st["k"] == "ExprStmt" else None
                if e and e["k"] == "MethodCall" and e["method"] in ("record_expr_ty", "record_name_ref_elab") and len(e["args"]) == 2:
                    recs.append(e)
            tys = {}
            for e in recs:
                idt = S.norm_ws(run.facts.text(CHECK, e["args"][0]["sp"]))
                if e["method"] == "record_expr_ty":
                    t = S.norm_ws(run.facts.text(CHECK, e["args"][1]["sp"]))
                    tys.setdefault(idt, {})["hover"] = re.sub(r"\.clone\(\)$", "", t)
                else:
                    for st in S.find(e["args"][1], "Struct"):
                        for fl in st["fields"]:
                            if fl["name"] == "ty":
                                t = S.norm_ws(run.facts.text(CHECK, fl["expr"]["sp"]))
                                tys.setdefault(idt, {})["elab"] = re.sub(r"\.clone\(\)$", "", t)
            for idt, d in tys.items():
                if "hover" in d and "elab" in d:
                    n += 1
                    ok = d["hover"] == d["elab"]
                    run.ob("R20.3", f"{f.qual}|{idt}", ok, site(CHECK, blk["sp"]), f"hover type `{d['hover']}` vs elaborated type `{d['elab']}`",
                           witness="hover on the callee of Show::show(p) reports (Self) -> string while the compiler uses (Point) -> string")
    run.floor("expressions with both a hover type and an elaboration", n, 3)


WHOLE_LEDGER = {
    ("colon_colon_completions", "prefix"): "the member prefix the user has typed so far: partial match intended",
    ("filter_dot_items", "prefix"): "the member prefix the user has typed so far: partial match intended",
}


def r20_6(run, model):
    run.rule("R20.6", "membership of a qualified name in a namespace is decided on whole path segments: every starts_with / ends_with / "
                      "strip_prefix / strip_suffix in the compiler whose argument is not a literal gets an argument built with the `::` "
                      "separator (format!(\"{}::\", ns), format!(\"::{}\", ..)), a named constant, or a ledgered user-typed prefix")
    n = 0
    NAMESPACE_FILES = ("crates/compiler/src/query.rs", "crates/compiler/src/hir.rs", "crates/compiler/src/lift.rs")
    for f in model.fns():
        if f.body is None or "/tests/" in f.file or not (f.file in NAMESPACE_FILES or f.file.startswith("crates/compiler/src/typer/")):
            continue
        lets = {}
        for l in S.find(f.body, "Local"):
            if l["pat"]["k"] == "PIdent" and l.get("init") is not None:
                lets[l["pat"]["name"]] = l["init"]
        params = {p["pat"].get("name"): i for i, p in enumerate([q for q in f.params() if not q["self"]])}
        for c in S.walk(f.body):
            if c["k"] != "MethodCall" or c["method"] not in ("starts_with", "ends_with", "strip_prefix", "strip_suffix") or not c["args"]:
                continue
            a = c["args"][0]
            while a["k"] in ("Ref", "Reference", "Unary") and a.get("expr") is not None:
                a = a["expr"]
            if a["k"] == "Lit" or a["k"] in ("Array", "Closure"):
                continue
            # a slice of segments compared with a slice of segments (`parts.ends_with(&wanted)` over `name.split("::").collect()`) compares
            # whole segments by construction
            r_ = c["recv"]
            if r_["k"] == "Path" and len(r_["segs"]) == 1 and r_["segs"][0] in lets and \
                    any(x["k"] == "MethodCall" and x["method"] == "collect" for x in S.walk(lets[r_["segs"][0]])) and \
                    any(x["k"] == "MethodCall" and x["method"] in ("split", "iter", "into_iter", "map") for x in S.walk(lets[r_["segs"][0]])):
                continue
            if a["k"] == "Path" and len(a["segs"]) == 1 and lets.get(a["segs"][0], {}).get("k") == "Closure":
                continue
            # a character predicate (a function of the file, `char::is_alphanumeric`, ..) tests one character, not a name
            if a["k"] == "Path" and (a["segs"][0] == "char" or (len(a["segs"]) == 1 and a["segs"][0] not in lets and a["segs"][0] not in
                                     {p["pat"].get("name") for p in f.params()} and any(g.name == a["segs"][0] for g in model.fns(f.file)))):
                continue
            n += 1
            at = S.norm_ws(run.facts.text(f.file, a["sp"]))

            def sep_built(e, depth=0):
                if e["k"] == "Macro" and e["name"] == "format":
                    return "::" in e.get("tokens", "")
                if e["k"] == "Path" and len(e["segs"]) == 1 and e["segs"][0].isupper():
                    return True  # named constant
                if e["k"] == "Path" and len(e["segs"]) == 1 and e["segs"][0] in lets and depth < 3:
                    return sep_built(lets[e["segs"][0]], depth + 1)
                return False
            ok = sep_built(a)
            why = "built with the `::` separator / a constant" if ok else "not built with a separator"
            if not ok and a["k"] == "Path" and len(a["segs"]) == 1 and a["segs"][0] in params:
                # a parameter: every caller in the file must pass a separator-built argument
                i = params[a["segs"][0]]
                callers = []
                for g in model.fns(f.file):
                    if g.body is None or g is f:
                        continue
                    glets = {}
                    for l in S.find(g.body, "Local"):
                        if l["pat"]["k"] == "PIdent" and l.get("init") is not None:
                            glets[l["pat"]["name"]] = l["init"]
                    for cc in S.calls(g.body, f.name):
                        if cc["k"] == "Call" and len(cc["args"]) > i:
                            x = cc["args"][i]
                            while x["k"] in ("Ref", "Reference", "Unary") and x.get("expr") is not None:
                                x = x["expr"]
                            good = (x["k"] == "Macro" and x["name"] == "format" and "::" in x.get("tokens", "")) or \
                                   (x["k"] == "Path" and len(x["segs"]) == 1 and x["segs"][0] in glets and glets[x["segs"][0]]["k"] == "Macro"
                                    and glets[x["segs"][0]]["name"] == "format" and "::" in glets[x["segs"][0]].get("tokens", ""))
                            callers.append(good)
                ok = bool(callers) and all(callers)
                why = f"parameter; {sum(callers)}/{len(callers)} callers pass a separator-built argument"
            led = WHOLE_LEDGER.get((f.name, at))
            if led is None:
                # the ledgered function may have become a thin wrapper (`colon_colon_completions` forwarding to `.._with_options`): the
                # entry goes with the body
                for g_ in model.fns(f.file):
                    if g_ is not f and g_.body is not None and model._behind_wrapper(g_) is f and (g_.name, at) in WHOLE_LEDGER:
                        led = WHOLE_LEDGER[(g_.name, at)]
            run.ob("R20.6", f"{f.name}|{c['method']}({at}) compares whole segments", ok or led is not None, site(f.file, c["sp"]),
                   why + (f"; ledger: {led}" if led and not ok else ""),
                   witness="import Geo plus struct GeoPoint in Main: `Geo::` offers `Point` (and `metric` from trait Geometric) - items that do not exist in Geo")
    run.floor("prefix/suffix tests with a computed argument", n, 4)


def r20_8(run, model):
    run.rule("R20.8", "the entry file (the editor buffer / the file named on the command line) is loaded once: load_package excludes it from "
                      "the directory listing by comparing files, not path spellings (`main.gom`, `./main.gom`, a symlinked or `..` path name "
                      "the same file); a raw `entry == path` also loads the copy on disk, whose HIR ids overwrite the buffer's")
    PK = "crates/compiler/src/pipeline/packages.rs"
    f = model.fn("load_package", PK)
    n = 0
    for c in S.walk(f.body):
        if c["k"] == "MethodCall" and c["method"] in ("is_some_and", "map_or", "is_some") and "entry_path" in S.idents(c["recv"]):
            n += 1
            t = S.norm_ws(run.facts.text(PK, c["sp"]))
            raw = re.search(r"\|(\w+)\|\1==path|\|(\w+)\|path==\2", t) is not None
            run.ob("R20.8", "load_package|entry file excluded by file identity", not raw, site(PK, c["sp"]), f"test: {t[:80]}",
                   witness="compiler run main.gom (bare relative name) loads main.gom twice: `Trait Show implementation for TInt32 is already defined`; a query with a `..` path answers for the file on disk instead of the unsaved buffer")
    if n == 0:
        raise AnalysisIncomplete("load_package: test that skips the entry file not found")


def r20_9(run, model):
    run.rule("R20.9", "hover on a binder answers with the binder's type: in hover_type the pattern lookup for the token is consulted before the "
                      "expression lookup (the expression lookup climbs to enclosing expressions, so it would answer for the surrounding "
                      "match / closure / loop)")
    f = model.fn("hover_type", QUERY)
    # hover_type itself, or the helper it hands the token to: both lookups have to sit in one function for their order to mean anything
    pos = {}
    for g in model.scope_fns(f):
        here = {}
        for c in S.walk(g.body):
            if c["k"] == "Call" and S.callee_name(c) in ("find_mapped_pat_id_from_token", "find_mapped_expr_id_from_token"):
                here.setdefault(S.callee_name(c), (c["sp"][0], c["sp"][1]))
        if len(here) == 2:
            pos = here
            f = g
    if len(pos) < 2:
        raise AnalysisIncomplete("hover_type: pattern / expression lookups not found")
    ok = pos["find_mapped_pat_id_from_token"] < pos["find_mapped_expr_id_from_token"]
    run.ob("R20.9", "hover_type|pattern lookup before expression lookup", ok, site(QUERY, f.node["sp"]),
           f"pattern lookup at line {pos['find_mapped_pat_id_from_token'][0]}, expression lookup at line {pos['find_mapped_expr_id_from_token'][0]}",
           witness="hover on r in `Circle(r) => ..` answers string (the type of the match) instead of int32")


def r20_4(run, model):
    run.rule("R20.4", "invariants the site ledger rests on are checked, not only stated: (a) lower_path yields Some only for a non-empty "
                      "segment list (the `.expect(\"paths must contain at least one segment\")` sites rely on it), and every other producer "
                      "of Option<ast::Path> used before such an expect goes through it or returns None")
    LOWER = "crates/ast/src/lower.rs"
    f = model.fn("lower_path", LOWER)
    def path_somes(fn_):
        return [c for c in S.walk(fn_.body) if c["k"] == "Call" and S.callee_name(c) == "Some" and c["args"] and
                re.search(r"Path::|^path$|^segments$", S.norm_ws(run.facts.text(LOWER, c["args"][0]["sp"])))]
    somes = path_somes(f)
    par = S.Parents(f.body)
    guarded = []
    for c in somes:
        ok = False
        for a in par.ancestors(c):
            if a["k"] == "If":
                ct = S.norm_ws(run.facts.text(LOWER, a["cond"]["sp"]))
                in_else = a.get("else") is not None and S.span_contains(a["else"]["sp"], c["sp"])
                in_then = S.span_contains(a["then"]["sp"], c["sp"])
                if (re.fullmatch(r"\w+\.is_empty\(\)", ct) and in_else) or (re.fullmatch(r"!\w+\.is_empty\(\)", ct) and in_then):
                    ok = True
        if not ok:
            # or: an earlier statement `if x.is_empty() { …; return None; }`
            for iff in S.find(f.body, "If"):
                ct = S.norm_ws(run.facts.text(LOWER, iff["cond"]["sp"]))
                if re.fullmatch(r"\w+\.is_empty\(\)", ct) and (iff["sp"][0], iff["sp"][1]) < (c["sp"][0], c["sp"][1]) and \
                        any(True for _ in S.find(iff["then"], "Return")) and not S.span_contains(iff["sp"], c["sp"]):
                    ok = True
        guarded.append(ok)
    run.ob("R20.4", "lower_path|Some only for non-empty paths", bool(somes) and all(guarded), site(LOWER, f.node["sp"]),
           f"{len(somes)} Some(..) result(s), guarded by an emptiness test: {guarded}",
           witness="hover on `let _ = ::;` : lower_path returns an empty path and `.expect(\"paths must contain at least one segment\")` panics at every cursor position")
    for name in ("lower_constructor_path_from_ident_expr", "lower_constructor_path_from_constr_pat"):
        g = model.opt_fn(name, LOWER)
        if g is None:
            continue
        somes = path_somes(g)
        via = any(True for _ in S.calls(g.body, "lower_path"))
        run.ob("R20.4", f"{name}|paths come from lower_path", via and not somes, site(LOWER, g.node["sp"]),
               f"delegates to lower_path: {via}; builds Some(..) itself: {len(somes)}")
    from rules import c03
    run.rule("R20.5", "the types the query tables record are fully resolved (shared with C03 R03.9)")
    run.try_rule(c03.r03_9, model, ("subst_ty_silent",))


def r20_10(run, model):
    run.rule("R20.10", "a hover answers for the file it was asked about: the index from syntax pointers to HIR ids is keyed with the file (a "
                       "syntax pointer is only kind + byte range), or is built from the queried file alone - the table it is built from "
                       "covers every file of the package")
    st = model.struct("HirResultsIndex", QUERY)
    bad = []
    for fl in st["fields"]:
        ty = S.norm_ws(str(fl.get("ty") or ""))
        m = re.match(r"HashMap<([^,]+),", ty)
        if m and "MySyntaxNodePtr" in m.group(1) and "(" not in m.group(1):
            bad.append(fl["name"])
    if not st["fields"]:
        raise AnalysisIncomplete("HirResultsIndex: no fields")
    run.ob("R20.10", "HirResultsIndex|syntax pointers are looked up per file", not bad, site(QUERY, st["node"]["sp"]),
           f"maps keyed by a bare MySyntaxNodePtr: {bad or 'none'}",
           witness="package Main = main.gom + util.gom with equal headers: hover on `a` in main.gom (int32) answers `string`, the type of the node "
                   "with the same kind and byte range in util.gom")


def r20_11(run, model):
    run.rule("R20.11", "what is offered after `x.` type-checks when inserted: (a) a function of an inherent impl is offered as a method only after "
                       "its scheme was examined for a receiver parameter (`x.m()` passes x as first argument; `Point::new` has none); (b) the "
                       "receiver type is used as the type checker sees it - field access and method lookup have no auto-dereference, so "
                       "the completion code does not look through Ref[..] either")
    f = model.fn("completions_for_type", QUERY)
    n = 0
    for c in S.walk(f.body):
        if c["k"] != "MethodCall" or c["method"] != "map" or "methods" not in S.norm_ws(run.facts.text(QUERY, c["recv"]["sp"])):
            continue
        n += 1
        recv = S.norm_ws(run.facts.text(QUERY, c["recv"]["sp"]))
        filtered = re.search(r"\.filter(_map)?\(", recv) is not None and re.search(r"\.ty\b|params", recv) is not None
        run.ob("R20.11", f"completions_for_type|method list #{n} keeps only functions that take the receiver", filtered, site(QUERY, c["sp"]),
               f"iterator: {recv[:90]}",
               witness="impl Point { fn origin() -> Point {..} fn getx(self: Point) -> int32 {..} }: after `p.` the list offers origin; "
                       "`p.origin()` is rejected (function types have different parameter lengths)")
    if n == 0:
        raise AnalysisIncomplete("completions_for_type: no iteration over impl methods found")
    # (c) the predicate the filter applies says no for a function without parameters
    preds = set()
    for c in S.walk(f.body):
        if c["k"] == "MethodCall" and c["method"] in ("filter", "filter_map"):
            for x in S.walk(c):
                if x["k"] in ("Call", "MethodCall") and S.callee_name(x) and model.find_fns(S.callee_name(x), QUERY):
                    g = model.find_fns(S.callee_name(x), QUERY)[0]
                    if (g.node.get("ret") or "").strip() == "bool" and any(y["k"] == "MethodCall" and y["method"] == "first" for y in S.walk(g.body)):
                        preds.add(g.name)
    if not preds:
        raise AnalysisIncomplete("completions_for_type: the predicate that examines a method's first parameter was not found")
    for pn in sorted(preds):
        g = model.fn(pn, QUERY)
        gp = S.Parents(g.body)
        for y in S.walk(g.body):
            if y["k"] != "MethodCall" or y["method"] != "first":
                continue
            p_ = gp.parent(y)
            verdict = None
            if p_ is not None and p_["k"] == "MethodCall" and p_["recv"] is y:
                if p_["method"] == "is_some_and":
                    verdict = True
                elif p_["method"] in ("is_none_or", "is_none"):
                    verdict = False
                elif p_["method"] in ("map_or", "map_or_else") and p_["args"]:
                    verdict = S.norm_ws(run.facts.text(QUERY, p_["args"][0]["sp"])) in ("false", "||false")
                elif p_["method"] in ("unwrap_or",) and p_["args"]:
                    verdict = S.norm_ws(run.facts.text(QUERY, p_["args"][0]["sp"])) == "false"
            elif p_ is not None and p_["k"] == "Match" and p_["scrut"] is y:
                none = [a for a in p_["arms"] if S.norm_ws(run.facts.text(QUERY, a["pat"]["sp"])) in ("None", "_")]
                verdict = bool(none) and all(S.norm_ws(run.facts.text(QUERY, a["body"]["sp"])) == "false" for a in none)
            elif p_ is not None and p_["k"] in ("Let", "Local"):
                els = p_.get("else")
                verdict = els is not None and re.search(r"returnfalse|^\{false\}$", S.norm_ws(run.facts.text(QUERY, els["sp"])).replace(" ", "")) is not None
                if p_["k"] == "Let":
                    iff = next((a for a in gp.ancestors(p_) if a["k"] == "If"), None)
                    verdict = iff is not None and iff.get("else") is not None and S.norm_ws(run.facts.text(QUERY, iff["else"]["sp"])).replace(" ", "") == "{false}"
            if verdict is None:
                raise AnalysisIncomplete(f"{pn}: how the missing first parameter is answered could not be read")
            run.ob("R20.11", f"{pn}|a function without parameters does not take the receiver", verdict, site(QUERY, y["sp"]),
                   f"`{S.norm_ws(run.facts.text(QUERY, (p_ or y)['sp']))[:70]}`",
                   witness="impl Point { fn origin() -> Point {..} }: origin() has no first parameter and is offered after `p.`; `p.origin()` is rejected")
    # (b) no function on the dot-completion path maps TRef { elem } to a recursive call on elem
    d = model.fn("dot_completions", QUERY)
    onpath = {d.name, f.name} | {S.callee_name(c) for g in (d, f) for c in S.calls(g.body)}
    derefs = []
    for g in model.fns(QUERY):
        if g.body is None or g.name not in onpath:
            continue
        for m in S.find(g.body, "Match"):
            for arm in m["arms"]:
                pt = S.norm_ws(run.facts.text(QUERY, arm["pat"]["sp"]))
                bt = S.norm_ws(run.facts.text(QUERY, arm["body"]["sp"]))
                if "TRef{" in pt and re.search(r"\b" + re.escape(g.name) + r"\(", bt):
                    derefs.append(g.name)
    run.ob("R20.11", "dot_completions|the receiver type is not dereferenced behind the type checker's back", not derefs, site(QUERY, d.node["sp"]),
           f"functions on the completion path that look through Ref[..]: {sorted(set(derefs)) or 'none'}",
           witness="r: Ref[Point]: after `r.` the members of Point are offered; `r.x` is rejected (no StructFieldAccess on TRef), one must write ref_get(r).x")
    run.floor("method lists built by completions_for_type", n, 2)


def r20_12(run, model):
    run.rule("R20.12", "hover on an expression answers for the outermost node at that place: several HIR nodes can share one syntax pointer "
                       "(`t.1.0` lowers to two projections; parentheses), the inner one is allocated first, so HirResultsIndex::new lets a "
                       "later id replace an earlier one (`insert`) - keeping the first would answer with the inner node's type")
    f = model.fn("new", QUERY, impl="HirResultsIndex")
    n = 0
    for c in S.walk(f.body):
        if c["k"] != "MethodCall" or c["method"] not in ("insert", "entry", "or_insert", "or_insert_with", "try_insert") or "by_ptr" not in S.norm_ws(run.facts.text(QUERY, c["sp"])):
            continue
        if c["method"] in ("or_insert", "or_insert_with") or c["method"] == "insert":
            n += 1
            ok = c["method"] == "insert"
            run.ob("R20.12", f"HirResultsIndex::new|index write #{n} lets the later (outer) node win", ok, site(QUERY, c["sp"]),
                   S.norm_ws(run.facts.text(QUERY, c["sp"]))[:70],
                   witness="hover on t.1.0 with t: (int32, (Point, string)): the answer is (Point, string), the type of the inner projection t.1")
    # an index that scans on demand instead of filling maps: the scan keeps the last id recorded for the pointer (rfind / rev().find / last),
    # a plain find / position / find_map answers with the first - the inner node
    for g in model.fns(QUERY):
        if g.body is None or g.impl != "HirResultsIndex":
            continue
        for c in S.walk(g.body):
            if c["k"] != "MethodCall" or c["method"] not in ("find", "find_map", "position", "rfind", "rposition", "last", "next", "next_back") or \
                    not any(x["k"] == "MethodCall" and x["method"] in ("expr_ptr", "pat_ptr", "local_origin_ptr") for x in S.walk(c)):
                continue
            chain, r = [], c["recv"]
            while r["k"] == "MethodCall":
                chain.append(r["method"])
                r = r["recv"]
            last_wins = c["method"] in ("rfind", "rposition", "last", "next_back") or "rev" in chain
            n += 1
            run.ob("R20.12", f"HirResultsIndex::{g.name}|the scan lets the later (outer) node win", last_wins, site(QUERY, c["sp"]),
                   f"`.{c['method']}(..)` over {list(reversed(chain))}",
                   witness="hover on t.1.0 with t: (int32, (Point, string)): the answer is (Point, string), the type of the inner projection t.1")
    run.floor("writes to the pointer index", n, 3)


def r20_13(run, model):
    run.rule("R20.13", "a query type-checks the buffer in the package it declares: typecheck_single_file_for_query hands the type checker the "
                       "package name of the lowered file (hir.name), not a fixed one - the HIR of `package Lib` holds Lib-qualified names")
    f = model.fn("typecheck_single_file_for_query", QUERY)
    calls = [c for c in S.walk(f.body) if c["k"] == "Call" and S.callee_name(c) == "check_file_with_env_and_results"]
    if not calls:
        raise AnalysisIncomplete("typecheck_single_file_for_query: call of check_file_with_env_and_results not found")
    from rules import c07
    for c in calls:
        lits = [a for a in c["args"] if a["k"] == "Lit" and a.get("lit") == "Str"]
        named = False
        for a in c["args"]:
            chain = [S.norm_ws(run.facts.text(QUERY, a["sp"]))]
            for i in S.idents(a):
                chain += c07._origin_chain(run, f, QUERY, c, i, depth=2)
            if any(re.search(r"\bhir\.name\b|\.package\b", t) for t in chain):
                named = True
        run.ob("R20.13", "typecheck_single_file_for_query|the package is the one the buffer declares", named and not lits, site(QUERY, c["sp"]),
               f"string literals among the arguments: {[l.get('value') for l in lits]}; an argument derived from the file's package: {named}",
               witness="hover in Lib/lib.gom (package Lib, no imports): `() -> Point` instead of `() -> Lib::Point`, a struct literal hovers as TypeVar(4)")


def r20_14(run, model):
    run.rule("R20.14", "a query sees the package the buffer belongs to: the single-file path answers only when the buffer is the whole "
                       "package - its early acceptance must not rest on `no imports` alone, because the other files of the directory "
                       "belong to the package too (the package-aware path is only reached when the single-file path fails)")
    f = model.fn("typecheck_single_file_for_query", QUERY)
    rejects = []
    for iff in S.find(f.body, "If"):
        if any(r.get("expr") is not None and S.callee_name(r["expr"]) == "Err" for r in S.find(iff["then"], "Return")):
            rejects.append(S.norm_ws(run.facts.text(QUERY, iff["cond"]["sp"])))
    looks_at_dir = re.search(r"read_dir|read_gom_sources|siblings|discover_packages|parent\(\)", S.norm_ws(run.facts.text(QUERY, f.body["sp"]))) is not None
    ok = looks_at_dir
    run.ob("R20.14", "typecheck_single_file_for_query|the single-file path is refused when the package has other files", ok, site(QUERY, f.node["sp"]),
           f"conditions that hand over to the package-aware path: {rejects}; the directory is consulted: {looks_at_dir}",
           witness="package Main = main.gom + util.gom, no imports: hover in main.gom on a call of a function defined in util.gom reports TypeVar(1) / "
                   "no type information; dot completion after `p.` (p from util.gom) is empty")


def cst_cast_agreement(run, model, rid):
    run.rule(rid, "`can_cast` and `cast` of every CST enum wrapper name the same syntax kinds: code that filters nodes with can_cast (the hover's "
                  "walk to the recorded expression, the lowering's test for an expression between items) and code that casts must agree on "
                  "what an expression / pattern / type / item is")
    NODES = "crates/cst/src/nodes.rs"
    tree = model.tree(NODES)
    n = 0
    for it, _mod in model.all_items(NODES):
        if it["k"] != "Impl" or (it.get("trait") or "").split("::")[-1] != "CstNode":
            continue
        fns = {f["name"]: f for f in it.get("items", []) if f.get("k") == "Fn"}
        if "can_cast" not in fns or "cast" not in fns or fns["can_cast"].get("body") is None or fns["cast"].get("body") is None:
            continue
        cc = fns["can_cast"]["body"]
        kinds_can = set()
        for m_ in S.walk(cc):
            if m_["k"] == "Macro" and m_["name"] == "matches":
                kinds_can |= set(re.findall(r"\b[A-Z][A-Z0-9_]+\b", m_.get("tokens") or ""))
        if not kinds_can:
            continue      # a single-kind wrapper (`kind == K`), nothing to compare
        kinds_cast = set()
        for m_ in S.find(fns["cast"]["body"], "Match"):
            for arm in m_["arms"]:
                kinds_cast |= set(re.findall(r"\b[A-Z][A-Z0-9_]+\b", S.norm_ws(run.facts.text(NODES, arm["pat"]["sp"]))))
        n += 1
        ty = (it.get("self_ty") or it.get("ty") or "?")
        only_cast, only_can = sorted(kinds_cast - kinds_can), sorted(kinds_can - kinds_cast)
        run.ob(rid, f"{ty}|can_cast and cast accept the same kinds", not only_cast and not only_can, site(NODES, it["sp"]),
               f"{len(kinds_can)} kinds in can_cast, {len(kinds_cast)} in cast; only in cast: {only_cast or 'none'}; only in can_cast: {only_can or 'none'}",
               witness="int32_to_string(if s > 2 { 1 } else { 2 }): hover on `if` answers `string`, the type of the enclosing call (EXPR_IF is cast but "
                       "not can_cast); an `if` between the items of a file is dropped without a diagnostic")
    run.floor("CST enum wrappers with a kind list", n, 3)


def r20_18(run, model):
    run.rule("R20.18", "queries type-check what the compiler type-checks: wherever a pipeline calls derive::expand, the expanded AST it returns is "
                       "the one the function goes on with - the Ok payload is bound and used, never dropped in favour of the unexpanded AST "
                       "(methods added by a derive would be unknown to hover in files that take the package path)")
    n = 0
    for rel in ("crates/compiler/src/pipeline/pipeline.rs", QUERY):
        for f in model.fns(rel):
            if f.body is None:
                continue
            par = None
            k_ = 0
            for c in S.walk(f.body):
                if c["k"] != "Call" or (S.callee_segs(c) or [])[-2:] != ["derive", "expand"]:
                    continue
                if par is None:
                    par = S.Parents(f.body)
                n += 1
                k_ += 1
                p_ = par.parent(c)
                ok, why = False, "the result is not bound"
                if p_ is not None and p_["k"] == "Match" and p_["scrut"] is c:
                    oks = [a for a in p_["arms"] if re.match(r"Ok\((\w+)\)", S.norm_ws(run.facts.text(rel, a["pat"]["sp"])))]
                    for a in oks:
                        b = S.pat_bindings(a["pat"])
                        if b and b[0] in S.idents(a["body"]) and not b[0].startswith("_"):
                            ok, why = True, f"`Ok({b[0]})` is what the match yields"
                    if not oks:
                        why = "no arm binds the expanded AST"
                elif p_ is not None and p_["k"] == "Try":
                    ok, why = True, "propagated with `?`"
                elif p_ is not None and p_["k"] == "Let":
                    pt = S.norm_ws(run.facts.text(rel, p_["pat"]["sp"]))
                    ok = pt.startswith("Ok(") and not re.match(r"Ok\(_", pt)
                    why = f"matched against `{pt[:30]}`"
                run.ob("R20.18", f"{f.name}|expansion #{k_} of the derives is what the function goes on with", ok, site(rel, c["sp"]), why,
                       witness="a file with an import and #[derive(ToString)] struct Point: `let s = p.to_string()` hovers as TypeVar(1), hover on "
                               "to_string answers `no type information found`; the compiler has string and (Point) -> string")
    run.floor("calls of derive::expand in the pipelines", n, 3)


def r20_17(run, model):
    cst_cast_agreement(run, model, "R20.17")


def r20_16(run, model):
    run.rule("R20.16", "a hover finds the node the lowering recorded for the place: the lowering records the variable of a shorthand field "
                       "(`Point { x }` as a literal or a pattern) under the field node - the only node it has - so the walks from the token "
                       "under the cursor up to a recorded expression / pattern accept that node kind besides expression / pattern nodes "
                       "(or filter by nothing at all)")
    LOWER = "crates/ast/src/lower.rs"
    rec = 0
    for g in model.fns(LOWER):
        if g.body is None:
            continue
        rec += len(re.findall(r"MySyntaxNodePtr::new\(field\.syntax\(\)\)", S.norm_ws(run.facts.text(LOWER, g.body["sp"]))))
    run.anchor("nodes recorded under a field node by the lowering", str(rec))
    n = 0
    for f in model.fns(QUERY):
        if f.body is None or not any("HirResultsIndex" in (p["ty"] or "") for p in f.params() if not p["self"]):
            continue
        # the same walk written as an iterator chain: token.parent_ancestors().filter(<kinds>).find_map(|n| index.expr_id(..))
        fpar = S.Parents(f.body)
        for c in S.walk(f.body):
            if not (c["k"] == "MethodCall" and re.fullmatch(r"(expr|pat)_id", c["method"]) and S.is_path(c["recv"], "index")):
                continue
            clo = next((a for a in fpar.ancestors(c) if a["k"] == "Closure"), None)
            host = fpar.parent(clo) if clo is not None else None
            if host is None or host["k"] != "MethodCall" or host["method"] not in ("find_map", "filter_map", "map", "and_then"):
                continue
            chain, r = [], host["recv"]
            while r["k"] == "MethodCall":
                chain.append(r)
                r = r["recv"]
            if not any("ancestors" in x["method"] for x in chain):
                continue
            n += 1
            gates = [S.norm_ws(run.facts.text(QUERY, x["args"][0]["sp"])) for x in chain if x["method"] in ("filter", "take_while", "skip_while") and x["args"]]
            want = "STRUCT_LITERAL_FIELD" if c["method"] == "expr_id" else "STRUCT_PATTERN_FIELD"
            ok = rec == 0 or not gates or all(re.search(r"\b" + want + r"\b", g_) for g_ in gates)
            run.ob("R20.16", f"{f.name}|the walk accepts the node a shorthand field is recorded under", ok, site(QUERY, c["sp"]),
                   f"index.{c['method']}(..) " + (f"behind the filter `{gates[0][:90]}`" if gates else "for every ancestor"),
                   witness="fn mk(x: int32, y: string) -> Point { Point { x, y } }: hover on x answers `Point` (the first mapped ancestor of an "
                           "accepted kind is the whole literal); same for `let Point { x, y } = p`")
        for w in S.find(f.body, "While"):
            looks = [c for c in S.walk(w["body"]) if c["k"] == "MethodCall" and re.fullmatch(r"(expr|pat)_id", c["method"]) and S.is_path(c["recv"], "index")]
            if not looks:
                continue
            par = S.Parents(w["body"])
            for c in looks:
                n += 1
                gates = [a for a in par.ancestors(c) if a["k"] == "If" and S.span_contains(a["then"]["sp"], c["sp"]) and
                         re.search(r"can_cast|\.kind\(\)|matches!", S.norm_ws(run.facts.text(QUERY, a["cond"]["sp"])))]
                want = "STRUCT_LITERAL_FIELD" if c["method"] == "expr_id" else "STRUCT_PATTERN_FIELD"
                ok = rec == 0 or not gates or all(re.search(r"\b" + want + r"\b", S.norm_ws(run.facts.text(QUERY, g_["cond"]["sp"]))) for g_ in gates)
                run.ob("R20.16", f"{f.name}|the walk accepts the node a shorthand field is recorded under", ok, site(QUERY, c["sp"]),
                       f"index.{c['method']}(..) " + (f"under `{S.norm_ws(run.facts.text(QUERY, gates[0]['cond']['sp']))[:90]}`" if gates else "for every ancestor"),
                       witness="fn mk(x: int32, y: string) -> Point { Point { x, y } }: hover on x answers `Point` (the first mapped ancestor of an "
                               "accepted kind is the whole literal); same for `let Point { x, y } = p`")
    run.floor("index lookups in upward walks", n, 2)


def r20_19(run, model):
    run.rule("R20.19", "every node the lowering builds is recorded under a syntax pointer of its own place: a node built once per element of "
                       "a loop (the fields of a struct pattern or literal, the arguments of a call) does not take the pointer variable of "
                       "the enclosing node, declared outside that loop - two nodes under one pointer make the hover on the inner one "
                       "answer for the outer (the binder `x` of `Point { x, y }` would show `Point`)")
    LOWER = "crates/ast/src/lower.rs"
    n = 0
    for f in model.fns(LOWER):
        if f.body is None:
            continue
        par = None
        for st in S.find(f.body, "Struct"):
            fl = [x for x in st["fields"] if x["name"] == "astptr"]
            if not fl:
                continue
            n += 1
            t = S.norm_ws(run.facts.text(LOWER, fl[0]["expr"]["sp"]))
            if not re.fullmatch(r"\w+(\.clone\(\))?", t):
                continue
            par = par or S.Parents(f.body)
            loops = [a for a in par.ancestors(st) if a["k"] in ("For", "While", "Closure", "Loop")]
            if not loops:
                continue
            var = t.split(".")[0]
            inside = any(var in S.pat_bindings(l["pat"]) for l in S.find(loops[0], "Local")) or \
                (loops[0]["k"] == "For" and var in S.pat_bindings(loops[0]["pat"]))
            # a node that wraps the accumulator it is assigned to (`call = ECall { func: call, .. }` per argument list) is the same
            # place of the source again, not a child of it
            asg = next((a for a in par.ancestors(st) if a["k"] == "Assign"), None)
            if asg is not None and asg["left"]["k"] == "Path" and len(asg["left"]["segs"]) == 1 and asg["left"]["segs"][0] in S.idents(st):
                continue
            run.ob("R20.19", f"{f.name}|{st['segs'][-1]} built per element has a pointer of its own", inside, site(LOWER, st["sp"]),
                   f"astptr: `{t}`, declared {'inside' if inside else 'outside'} the loop that builds the node",
                   witness="let Point { x, y } = p: hover on x answers `Point`, the type recorded for the struct pattern that shares the pointer")
    run.floor("nodes built with a syntax pointer in the lowering", n, 60)


def r20_20(run, model):
    run.rule("R20.20", "what is offered after `N::` belongs to N: colon_colon_completions asks for the members of the namespace exactly as it "
                       "stands before the last `::` - every call that collects the items is given that whole string, never a part of it "
                       "(its last segment, a prefix): a retry with a shorter name offers the members of another package's or the local "
                       "type of that name, none of which type-check when inserted")
    f = model.fn("colon_colon_completions", QUERY)
    callees = {g.name for g in model.fns(QUERY) if g.body is not None and any("namespace" == (p["pat"].get("name") or "") for p in g.params() if p["pat"]["k"] == "PIdent")}
    ns = None
    for l in S.find(f.body, "Local"):
        if l.get("init") is not None and re.search(r"segments\[\.\.segments\.len\(\)\.saturating_sub\(1\)\]\.join\(\"::\"\)|\.join\(\"::\"\)", S.norm_ws(run.facts.text(QUERY, l["init"]["sp"]))):
            ns = S.pat_bindings(l["pat"])[0]
    if ns is None or not callees:
        raise AnalysisIncomplete("colon_colon_completions: the namespace string or the item collector was not found")
    n = 0
    for c in S.walk(f.body):
        if c["k"] != "Call" or S.callee_name(c) not in callees:
            continue
        n += 1
        g = model.fn(S.callee_name(c), QUERY)
        idx = [i for i, p in enumerate([p for p in g.params() if not p["self"]]) if p["pat"].get("name") == "namespace"][0]
        t = S.norm_ws(run.facts.text(QUERY, c["args"][idx]["sp"]))
        ok = t in (ns, "&" + ns, ns + ".as_str()", "&" + ns + ".clone()")
        run.ob("R20.20", f"colon_colon_completions|{S.callee_name(c)} is asked about the namespace as written", ok, site(QUERY, c["sp"]),
               f"namespace argument `{t}`; the text before the last `::` is `{ns}`",
               witness="Lib::Color:: in a buffer whose package has its own enum Color (and Lib has none): the local variants are offered as "
                       "members of Lib::Color")
    run.floor("item lookups in colon_colon_completions", n, 1)


def r20_15(run, model):
    from rules import c04 as _c04
    _c04.r04_7(run, model, only_files=("crates/compiler/src/query.rs", "crates/wasm-app/src/lib.rs"))


def run(run, model):
    mir = Mir(run.facts)
    g = Graph(mir)
    run.try_rule(r20_4, model)
    run.try_rule(r20_6, model)
    run.try_rule(r20_8, model)
    run.try_rule(r20_9, model)
    run.try_rule(r20_10, model)
    run.try_rule(r20_11, model)
    run.try_rule(r20_12, model)
    run.try_rule(r20_13, model)
    run.try_rule(r20_14, model)
    # the byte scanning of the textual fallbacks must not index past the end of any text, the empty one included (shared with C04 R04.7)
    run.try_rule(r20_15, model)
    run.try_rule(r20_16, model)
    run.try_rule(r20_17, model)
    run.try_rule(r20_18, model)
    run.try_rule(r20_19, model)
    run.try_rule(r20_20, model)
    from rules import c07
    run.rule("R20.7", "the occurs check looks into every component of every type former (shared with C07 R07.2, restricted to typer::unify): a "
                      "missed component lets a cyclic type through and the next query overflows the stack")
    run.try_rule(c07.r07_2, model, None, "C20")
    run.try_rule(r20_1, model, mir, g)
    run.try_rule(r20_2, model)
    run.try_rule(r20_3, model)
    unres = sum(g.unresolved.values())
    run.assume(f"calls through function pointers / dyn objects are not followed ({unres} indirect calls in the workspace; none on the hover path is known to reach panicking code)")
    run.assume("arithmetic overflow and Vec/arena indexing are not ledgered; rowan and line-index internals are outside the repository")
