"""C17 All call forms of a method agree (structural clauses)."""
import re
from lib import syn as S
from lib.core import AnalysisIncomplete, site

EXPLANATION = (
    "Static decision of the naming/dispatch plumbing shared by the three call forms. R17.1: the mangled names of impl functions are "
    "produced only by names::{trait_impl_fn_name, inherent_method_fn_name} (the literal prefixes occur nowhere else except in readers), "
    "each constructor uses every one of its parameters whole (full trait name, full type text, method) with no string slicing, the "
    "reader splits on the separator the constructors join with and expects the same number of parts, and definition site and all "
    "use sites call the constructor with (trait, receiver type, method) in the same roles. R17.2: a value is coerced to dyn Tr only "
    "after has_visible_trait_impl succeeded (the EToDyn construction is dominated by the rejecting test). R17.3: ambiguity is an "
    "error - the overload solver distinguishes exactly-one / none / many and reports the latter two. R17.4: a static call Tr::m(d,..) "
    "is dispatched through d's vtable only when d's dyn trait IS Tr. That the three dispatch paths compute the same function is not "
    "decided.")

NAMES = "crates/compiler/src/names.rs"
CHECK = "crates/compiler/src/typer/check.rs"
UNI = "crates/compiler/src/typer/unify.rs"
SLICERS = {"rsplit", "split", "rsplit_once", "split_once", "last", "next_back", "trim_start_matches", "trim_end_matches", "strip_prefix",
           "strip_suffix", "replace", "get", "chars", "rfind", "find", "split_off", "truncate", "to_lowercase", "to_uppercase"}


def r17_1(run, model):
    run.rule("R17.1", "one name constructor: the `trait_impl#` / `inherent#` prefixes are written only in names.rs; each constructor uses all "
                      "its parameters whole (no string slicing); the reader agrees on separator and part count; all call sites pass "
                      "(trait, type, method) in the same roles")
    # G-WHO on literals
    ctrl = 0
    for rel in model.src_files():
        if not rel.startswith("crates/compiler/src/") or "/tests/" in rel or "/pprint/" in rel:
            continue
        for f in model.fns(rel):
            if f.body is None:
                continue
            for n in S.walk(f.body):
                if n["k"] == "Lit" and n.get("lit") == "Str" and re.match(r"^(trait_impl#|inherent#)", n["value"]):
                    if rel == NAMES:
                        ctrl += 1
                        continue
                    par = S.Parents(f.body)
                    p = par.parent(n)
                    reader = p is not None and p["k"] == "MethodCall" and p["method"] in ("starts_with", "strip_prefix", "contains")
                    run.ob("R17.1", f"{f.qual}|prefix literal {n['value'][:12]}", reader, site(rel, n["sp"]),
                           "prefix used by a reader (starts_with)" if reader else "an impl-function name is assembled outside names.rs",
                           witness="definition and call sites disagree on the mangled name: the call refers to a function that does not exist")
            for n in S.walk(f.body):
                if n["k"] == "Macro" and n["name"] == "format" and rel != NAMES and re.search(r'"(trait_impl#|inherent#)', n.get("tokens", "")):
                    run.ob("R17.1", f"{f.qual}|format! with impl prefix", False, site(rel, n["sp"]), "an impl-function name is assembled outside names.rs")
    run.floor("positive control: impl-name prefixes recognised in names.rs", ctrl + sum(1 for f in model.fns(NAMES) if f.body and re.search(r"(trait_impl#|inherent#)", run.facts.text(NAMES, f.body["sp"]))), 2)
    for name, nparts in (("trait_impl_fn_name", 4), ("inherent_method_fn_name", 4)):
        f = model.fn(name, NAMES)
        params = [p["pat"]["name"] for p in f.params() if not p["self"]]
        body_ids = S.idents(f.body)
        fm = [n for n in S.walk(f.body) if n["k"] == "Macro" and n["name"] == "format" and "#" in n.get("tokens", "")]
        for p in params:
            used = p in body_ids
            run.ob("R17.1", f"{name}|uses parameter {p}", used, site(NAMES, f.node["sp"]), f"`{p}` {'is' if used else 'is NOT'} part of the name")
        # the constructor and the same-file helpers it hands a parameter to (`trait_key(trait_name)`): a helper that cuts the text is a cut;
        # ty_compact is the type renderer (its own clause: R19.4 / R07.3)
        sl = sorted({f"{g_.name}: {S.callee_name(c)}" if g_ is not f else S.callee_name(c) for g_ in model.scope_fns(f, depth=2) if g_.body is not None and g_.name != "ty_compact"
                     for c in S.calls(g_.body) if S.callee_name(c) in SLICERS})
        run.ob("R17.1", f"{name}|parameters used whole", not sl, site(NAMES, f.node["sp"]), f"string-slicing calls in the constructor: {sl or 'none'}",
               witness="Main's `Show` and `Fmt::Show` implemented for int32 get the same function name: one implementation silently replaces the other")
        for m_ in fm:
            lit = re.search(r'"([^"]*)"', m_["tokens"])
            if lit:
                parts = lit.group(1).split("#")
                run.ob("R17.1", f"{name}|{nparts} '#'-separated parts", len(parts) == nparts, site(NAMES, m_["sp"]), f"template {lit.group(1)!r}")
    rd = model.fn("parse_inherent_method_fn_name", NAMES)
    t = S.norm_ws(run.facts.text(NAMES, rd.body["sp"]))
    # the iterator over the '#'-separated parts, whatever it is called: bound from `<x>.split('#')`, asked `.next()` once per part and once
    # more for the end
    it = None
    for l in S.find(rd.body, "Local"):
        if l.get("init") is not None and re.search(r"\.split\('#'\)$", S.norm_ws(run.facts.text(NAMES, l["init"]["sp"]))) and S.pat_bindings(l["pat"]):
            it = S.pat_bindings(l["pat"])[0]
    nexts = t.count(f"{it}.next()") if it else 0
    ok = it is not None and nexts == 5 and '"inherent"' in t
    run.ob("R17.1", "parse_inherent_method_fn_name|agrees with the constructor", ok, site(NAMES, rd.node["sp"]), f"splits on '#', reads {nexts - 1} parts and requires the end")
    # call-site roles
    n = 0
    for rel in ("crates/compiler/src/compile_match.rs", "crates/compiler/src/mono.rs", "crates/compiler/src/go/compile.rs"):
        for f in model.fns(rel):
            if f.body is None:
                continue
            for c in S.calls(f.body, "trait_impl_fn_name"):
                if c["k"] != "Call" or len(c["args"]) != 3:
                    continue
                n += 1
                a = [S.norm_ws(run.facts.text(rel, x["sp"])) for x in c["args"]]
                ok = bool(re.search(r"trait", a[0], re.I)) and bool(re.search(r"ty\b|_ty|for_ty|self_ty|receiver_ty", a[1])) and bool(re.search(r"method", a[2], re.I))
                run.ob("R17.1", f"{f.qual}|trait_impl_fn_name roles #{n}", ok, site(rel, c["sp"]), f"trait_impl_fn_name({a[0]}, {a[1]}, {a[2]})")
    run.floor("trait_impl_fn_name call sites", n, 6)


def r17_2(run, model):
    run.rule("R17.2", "dyn coercion requires a visible impl: in coerce_to_expected_dyn every construction of EToDyn / Coercion::ToDyn is preceded "
                      "by `if !has_visible_trait_impl(..) { …; return expr }` at the top level of the function")
    f = model.fn("coerce_to_expected_dyn", CHECK, impl="Typer")
    stmts = f.body["stmts"]
    gate = None
    for i, st in enumerate(stmts):
        if st["k"] == "ExprStmt" and st["expr"]["k"] == "If":
            c = S.norm_ws(run.facts.text(CHECK, st["expr"]["cond"]["sp"]))
            if c.startswith("!has_visible_trait_impl(") and any(True for _ in S.find(st["expr"]["then"], "Return")):
                gate = i
    built = [i for i, st in enumerate(stmts) if any(x["segs"][-1] in ("EToDyn", "ToDyn") for x in S.find(st, "Struct"))]
    ok = gate is not None and bool(built) and all(i > gate for i in built)
    run.ob("R17.2", "coerce_to_expected_dyn|impl test dominates the coercion", ok, site(CHECK, f.node["sp"]),
           f"gate at top-level statement {gate}; EToDyn/ToDyn built at {built}",
           witness="a value of a type without an impl is wrapped in dyn Tr: the vtable constructor refers to functions that do not exist")
    h = model.fn("has_visible_trait_impl", CHECK)
    t = S.norm_ws(run.facts.text(CHECK, h.body["sp"]))
    ok = "trait_impls.contains_key(&key)" in t and "genv.deps" in t
    run.ob("R17.2", "has_visible_trait_impl|looks in the current package and its dependencies", ok, site(CHECK, h.node["sp"]), t[:120])


def r17_3(run, model):
    run.rule("R17.3", "ambiguity is an error, not a choice: the overload solver matches the candidate impls as exactly-one / none / many and pushes an "
                      "Error diagnostic for none and many")
    f = model.fn("solve", UNI, impl="Typer")
    found = False
    for m in S.find(f.body, "Match"):
        sc = S.norm_ws(run.facts.text(UNI, m["scrut"]["sp"]))
        if sc.endswith(".as_slice()"):
            pats = [S.norm_ws(run.facts.text(UNI, a["pat"]["sp"])) for a in m["arms"]]
            found = True
            one = [a for a, p in zip(m["arms"], pats) if re.fullmatch(r"\[[a-z_]+\]", p)]
            none = [a for a, p in zip(m["arms"], pats) if p == "[]"]
            many = [a for a, p in zip(m["arms"], pats) if p == "_"]
            ok = len(one) == 1 and len(none) == 1 and len(many) == 1
            for a, what in ((none[0] if none else None, "none"), (many[0] if many else None, "many")):
                if a is not None:
                    t = S.norm_ws(run.facts.text(UNI, a["body"]["sp"]))
                    ok = ok and S.pushes_error(model, run.facts, UNI, a["body"])
                    # unconditional: the push is not nested under an if/match inside the arm
                    pa = S.Parents(a["body"])
                    pushes = [c for c in S.walk(a["body"]) if c["k"] == "MethodCall" and c["method"] == "push" and "diagnostics" in S.idents(c["recv"])]
                    cond = [c for c in pushes if any(x["k"] in ("If", "Match") for x in pa.ancestors(c))]
                    if pushes and len(cond) == len(pushes):
                        ok = False
                        why_cond = f"the `{what}` arm reports only under a condition"
            run.ob("R17.3", "overload solver|one / none / many", ok, site(UNI, m["sp"]), f"arms: {pats}" + (f"; {why_cond}" if "why_cond" in dir() and not ok else ""),
                   witness="two impls match an operator call and the first one found is used")
    if not found:
        raise AnalysisIncomplete("overload solver slice match not found")


def r17_4(run, model):
    run.rule("R17.4", "a static call Tr::m(d, ..) goes through d's vtable only if d's dyn trait is Tr: the branch building CalleeElab::DynTraitMethod "
                      "is guarded by a comparison of the receiver's trait name with the trait named in the path")
    f = model.fn("infer_static_member_call_expr", CHECK, impl="Typer")
    par = S.Parents(f.body)
    n = 0
    for st in S.find(f.body, "Struct"):
        if st["segs"][-1] == "DynTraitMethod" and "CalleeElab" in st["segs"]:
            n += 1
            ok = False
            detail = "no guard found"
            for a in par.ancestors(st):
                if a["k"] == "If" and S.span_contains(a["then"]["sp"], st["sp"]):
                    c = S.norm_ws(run.facts.text(CHECK, a["cond"]["sp"]))
                    if "TDyn" in c:
                        m = re.search(r"trait_name:([a-z_]+)", c)
                        var = m.group(1) if m else None
                        ok = var is not None and re.search(r"&&" + re.escape(var) + r"==[a-z_]+(\.0)?", c) is not None
                        detail = f"guard `{c[:100]}`"
                        break
            run.ob("R17.4", "infer_static_member_call_expr|vtable dispatch only for the named trait", ok, site(CHECK, st["sp"]), detail,
                   witness="impl Describe for dyn Shape: Describe::name(d) runs Shape's `name` through d's vtable")
    if n == 0:
        raise AnalysisIncomplete("DynTraitMethod elaboration not found")


def r17_9(run, model):
    run.rule("R17.9", "an expression is recorded at its own type, the coercion to dyn separately: in check_expr the result tables are written "
                      "(record_expr_result) before coerce_to_expected_dyn wraps the node - the TAST builder rebuilds the inner node from "
                      "the recorded type, so recording the coerced type gives `dyn__Show{x: 1}` for `P { x: 1 }`")
    f = model.fn("check_expr", CHECK, impl="Typer")
    rec = [c for c in S.walk(f.body) if c["k"] == "MethodCall" and c["method"] == "record_expr_result"]
    coe = [c for c in S.walk(f.body) if c["k"] == "MethodCall" and c["method"] == "coerce_to_expected_dyn"]
    if not rec or not coe:
        raise AnalysisIncomplete("check_expr: record_expr_result / coerce_to_expected_dyn not found")
    last_coe = max((c["sp"][0], c["sp"][1]) for c in coe)
    late = [c for c in rec if (c["sp"][0], c["sp"][1]) > last_coe]
    run.ob("R17.9", "check_expr|expression recorded before the dyn coercion", not late, site(CHECK, (late or rec)[0]["sp"]),
           f"{len(rec)} record_expr_result call(s); after the coercion: {len(late)}",
           witness="let d: dyn Show = P { x: 1 } emits dyn__Show{x: 1}; pr(-x) emits `var t dyn__Show = -x`; let d: dyn Show = E::A(1) panics in the Go back end")


TOPLEVEL = "crates/compiler/src/typer/toplevel.rs"
WRITERS = ("insert", "extend", "append", "insert_full", "entry", "push", "replace", "insert_before", "shift_insert")


def unique_definition(run, model, rule, fn_name, tail, what, witness):
    """every write to the name table `…<tail>` in fn_name is an insert that a rejecting `contains_key` test on the same table guards:
    `if T.contains_key(&n) { <diagnostic>; continue|return } T.insert(n, ..)` (or the insert sits in the else branch)."""
    f = model.fn(fn_name, TOPLEVEL)
    text = lambda n: S.norm_ws(run.facts.text(f.file, n["sp"]))
    is_table = lambda e: re.search(re.escape(tail) + r"$", text(e)) is not None
    writes = [c for c in S.walk(f.body) if c["k"] == "MethodCall" and c["method"] in WRITERS and is_table(c["recv"])]
    if not writes:
        raise AnalysisIncomplete(f"{fn_name}: no write to `…{tail}` found")
    guards = []
    for iff in S.walk(f.body):
        if iff["k"] != "If":
            continue
        tests = [c for c in S.walk(iff["cond"]) if c["k"] == "MethodCall" and c["method"] in ("contains_key", "contains") and is_table(c["recv"])]
        if not tests:
            continue
        negated = any(u["k"] == "Unary" and u["op"] == "!" and S.span_contains(u["sp"], tests[0]["sp"]) for u in S.walk(iff["cond"]))
        dup_branch = iff.get("else") if negated else iff["then"]
        if dup_branch is None:
            continue
        reports = any(c["k"] in ("MethodCall", "Call") and (S.callee_name(c) in ("push_error", "push_ice") or (c["k"] == "MethodCall" and c["method"] == "push" and "diagnostics" in text(c["recv"])))
                      for c in S.walk(dup_branch))
        stmts = dup_branch.get("stmts") or []
        last = stmts[-1] if stmts else None
        leaves = last is not None and (last.get("expr") or last)["k"] in ("Continue", "Return")
        guards.append((iff, negated, reports, leaves))
    for i, w in enumerate(writes, 1):
        ok = False
        why = f"`.{w['method']}(` on {text(w['recv'])[-60:]} is not guarded by a rejecting contains_key test on the same table"
        if w["method"] == "insert":
            for iff, negated, reports, leaves in guards:
                if not reports:
                    continue
                after = (w["sp"][0], w["sp"][1]) > (iff["sp"][2], iff["sp"][3]) if len(iff["sp"]) >= 4 else w["sp"][0] > iff["sp"][0]
                other = iff["then"] if negated else iff.get("else")
                in_other = other is not None and S.span_contains(other["sp"], w["sp"])
                if (after and leaves) or in_other:
                    ok = True
                    why = "insert reached only when the name is not in the table; the duplicate branch pushes a diagnostic"
                    break
        run.ob(rule, f"{fn_name}|{what} write #{i} rejects an existing name", ok, site(f.file, w["sp"]), why, witness=witness)
    return len(writes)


def r17_10(run, model):
    run.rule("R17.10", "a method name of a type has one definition: define_inherent_impl adds a method to the inherent table of the receiver "
                       "type only after testing that the name is not there (a second `impl P { fn tag }` block is an error, not an overwrite)")
    n = unique_definition(run, model, "R17.10", "define_inherent_impl", ".methods", "inherent method table",
                          "impl P { fn tag(self: P) -> string { \"first\" } } impl P { fn tag(self: P) -> string { \"second\" } }: no diagnostic, "
                          "p.tag() and P::tag(p) run whichever block comes last")
    run.floor("writes to the inherent method table examined", n, 1)


def r17_11(run, model):
    run.rule("R17.11", "the dyn wrapper calls the implementation under the name it was defined with: trait impl functions are named once "
                       "(compile_match, from the source type `W[int32]`), mono rewrites the type stored in the coercion (`W__int32`), so the "
                       "back end must not derive the impl name again from that rewritten type")
    MONO = "crates/compiler/src/mono.rs"
    GO = "crates/compiler/src/go/compile.rs"
    rw = model.fn("rewrite_expr_types", MONO)
    collapsed = False
    for m in S.find(rw.body, "Match"):
        for arm in m["arms"]:
            if "EToDyn" in S.norm_ws(run.facts.text(MONO, arm["pat"]["sp"])):
                body = S.norm_ws(run.facts.text(MONO, arm["body"]["sp"]))
                collapsed = re.search(r"for_ty:\w+\.collapse_type_apps\(", body) is not None
    g = model.fn("gen_dyn_wrap_fn", GO)
    rederived = [c for c in S.calls(g.body, "trait_impl_fn_name")]
    ok = not (collapsed and rederived)
    run.ob("R17.11", "gen_dyn_wrap_fn|impl function name is not re-derived from a rewritten type", ok, site(GO, (rederived or [g.node])[0]["sp"]),
           f"mono collapses EToDyn.for_ty: {collapsed}; the wrapper derives the name with trait_impl_fn_name: {bool(rederived)}",
           witness="struct W[T] { v: T } impl Show for W[int32] {..}; let d: dyn Show = W { v: 1 }: the wrapper calls "
                   "`trait_impl#Show#W__int32#show`, the function is defined as `trait_impl#Show#W[int32]#show`: undefined in Go")


def r17_12(run, model):
    run.rule("R17.12", "`x.m()` and `T::m(x)` choose the same method when a type has an impl for one instance and a generic impl: "
                       "define_inherent_impl files a block under Exact(type) or Constr(name) and the two lookups prefer different keys, "
                       "so a method present under both keys of one constructor has to be rejected when it is defined")
    f = model.fn("define_inherent_impl", TOPLEVEL)
    t = S.norm_ws(run.facts.text(TOPLEVEL, f.body["sp"]))
    kinds = {k for k in ("Exact", "Constr") if re.search(r"InherentImplKey::" + k + r"\(", t)}
    # an overlap test looks the method up under the *other* kind of key: a get/contains_key on inherent_impls besides the entry() that inserts
    probes = [c for c in S.walk(f.body) if c["k"] == "MethodCall" and c["method"] in ("get", "contains_key", "iter", "keys")
              and "inherent_impls" in S.norm_ws(run.facts.text(TOPLEVEL, c["recv"]["sp"]))]
    ok = len(kinds) < 2 or bool(probes)
    run.ob("R17.12", "define_inherent_impl|exact-instance and generic impls of one type are checked for overlap", ok, site(TOPLEVEL, f.node["sp"]),
           f"key kinds used: {sorted(kinds)}; look-ups of already filed impls before inserting: {len(probes)}",
           witness="impl Pair[int32, int32] { fn tag(self) -> string { \"exact\" } } impl[T] Pair[T, T] { fn tag(self) -> string { \"generic\" } }: "
                   "p.tag() prints exact, Pair::tag(p) prints generic")


def r17_13(run, model):
    run.rule("R17.13", "the dot form looks a method up where the path form finds it: the functions that map a receiver type to the package / "
                       "constructor that owns its methods treat an instance `T[args]` like `T` - each has an arm for TApp that goes on with "
                       "the head type (otherwise `c.get()` on `Lib::Cell[int32]` is searched in the calling package while `Lib::Cell::get(c)` works)")
    n = 0
    for name, rel, impl in (("env_for_receiver_ty", CHECK, None), ("try_constr_name", "crates/compiler/src/typer/util.rs", None),
                            ("constr_name", "crates/compiler/src/tast.rs", "Ty")):
        f = model.fn(name, rel, impl=impl) if impl else model.fn(name, rel)
        ms = list(S.find(f.body, "Match"))
        if not ms:
            raise AnalysisIncomplete(f"{name}: match on the type not found")
        arm = None
        for a in ms[0]["arms"]:
            if any(h[0] == "variant" and h[1][-1] == "TApp" for h in (S.pat_head(x) for x in S.pat_alts(a["pat"]))):
                arm = a
        n += 1
        recurses = arm is not None and any(c["k"] in ("Call", "MethodCall") and S.callee_name(c) == name for c in S.walk(arm["body"]))
        run.ob("R17.13", f"{name}|an instance T[args] is resolved through its head type", recurses, site(rel, (arm or f.node)["sp"]),
               "TApp arm goes on with the head" if recurses else ("no TApp arm: instances fall to the catch-all" if arm is None else "TApp arm does not recurse"),
               witness="package Lib: struct Cell[T], impl[T] Cell[T] { fn get(self) }; in Main `c.get()` on Lib::Cell[int32]: Method get not found, "
                       "while Lib::Cell::get(c) compiles")
    run.floor("receiver-type resolvers examined", n, 3)


def r17_14(run, model):
    run.rule("R17.14", "every bound of a type parameter is known where its methods are resolved: the functions that fill the table of "
                       "type-parameter bounds (free functions and impl-block methods alike) record *all* written bounds - the push of a "
                       "resolved trait sits in a loop over the bounds, not behind `.first()` - otherwise a method declared by two bounds is "
                       "not reported as ambiguous but resolved to the first-written one")
    n = 0
    for f in model.fns(TOPLEVEL):
        if f.body is None or not any(True for _ in S.calls(f.body, "resolve_trait_name")):
            continue
        par = S.Parents(f.body)
        for c in S.walk(f.body):
            if c["k"] != "MethodCall" or c["method"] != "push" or not any(True for _ in S.calls(par.parent(c) or c, "TastIdent")) \
                    and "TastIdent" not in S.norm_ws(run.facts.text(TOPLEVEL, c["sp"])):
                continue
            if "TastIdent" not in S.norm_ws(run.facts.text(TOPLEVEL, c["sp"])):
                continue
            encl = [a for a in par.ancestors(c) if a["k"] in ("For", "If")]
            # nearest construct that selects which bounds are visited
            sel = None
            for a in encl:
                t = S.norm_ws(run.facts.text(TOPLEVEL, (a.get("iter") or a.get("cond"))["sp"]))
                if "traits" in t or "bounds" in t:
                    sel = (a, t)
                    break
            if sel is None:
                continue
            n += 1
            ok = sel[0]["k"] == "For" and not re.search(r"\.(first|last|next|get|take)\(", sel[1])
            run.ob("R17.14", f"{f.name}|all bounds of a type parameter are recorded", ok, site(TOPLEVEL, sel[0]["sp"]), f"bounds visited by: {sel[1][:70]}",
                   witness="impl Logger { fn log[T: Pretty + Debug](self, x: T) { x.render() } } with render in both traits: no ambiguity error, the "
                           "first-written bound wins; swapping the bounds switches the implementation")
    run.floor("functions recording type-parameter bounds", n, 1)


def r17_18(run, model):
    run.rule("R17.18", "resolving an overloaded call is progress: the constraint solver runs while a round changed something; an arm that "
                       "replaces the constraint it took by one of another kind (the operator constraint by the equation with the chosen "
                       "impl's type) marks the round as changed in the same block - otherwise, when it is the last thing to happen, the loop "
                       "stops with the equation unsolved and a well-typed trait method call is reported as `Could not solve all constraints`")
    UNI = "crates/compiler/src/typer/unify.rs"
    f = model.fn("solve", UNI, impl="Typer")
    loops = [w for w in S.find(f.body, "While") if S.idents(w["cond"])]
    if not loops:
        raise AnalysisIncomplete("Typer::solve: the fixpoint loop was not found")
    loop = loops[0]
    flag = sorted(S.idents(loop["cond"]))[0]
    par = S.Parents(f.body)
    n = 0
    for m in S.find(loop["body"], "Match"):
        for arm in m["arms"]:
            mm = re.match(r"Constraint::(\w+)", S.norm_ws(run.facts.text(UNI, arm["pat"]["sp"])))
            if not mm:
                continue
            taken = mm.group(1)
            for c in S.walk(arm["body"]):
                if c["k"] != "MethodCall" or c["method"] != "push" or not c["args"]:
                    continue
                pm = re.match(r"Constraint::(\w+)", S.norm_ws(run.facts.text(UNI, c["args"][0]["sp"])))
                if not pm or pm.group(1) == taken:
                    continue
                n += 1
                blk = next((a for a in par.ancestors(c) if a["k"] == "Block"), None)
                marks = [a for a in S.walk(blk) if a["k"] == "Assign" and S.is_path(a["left"], flag) and a["right"]["k"] == "Lit" and str(a["right"].get("value")).lower() == "true"] if blk else []
                run.ob("R17.18", f"solve|replacing {taken} by {pm.group(1)} counts as a change", bool(marks), site(UNI, c["sp"]),
                       f"`{flag} = true` in the block that queues the new constraint: {len(marks)}",
                       witness="trait Show { fn show(Self) -> string; } impl Show for P; fn main() { let s = Show::show(P{..}); .. } as the only "
                               "thing left to solve: `Could not solve all constraints: [TypeEqual(..)]`")
    run.floor("constraints replaced by one of another kind in the solver", n, 1)


def r17_15(run, model):
    run.rule("R17.15", "every call form finds the same implementations: wherever the typer searches for an implementation of a trait for a "
                       "type (the solver of `Tr::m(x, ..)`, the visibility test behind `x.m(..)` through a bound and behind the coercion to "
                       "`dyn Tr`), it asks the current package and every package in `deps` - an impl may live in the trait's package, in "
                       "the type's package or, for builtin types, only in the trait's")
    n = 0
    for rel in (UNI, CHECK, "crates/compiler/src/typer/toplevel.rs", "crates/compiler/src/typer/util.rs"):
        for f in model.fns(rel):
            if f.body is None:
                continue
            looks = [c for c in S.walk(f.body) if c["k"] == "MethodCall" and (c["method"] == "get_trait_impl" or
                     (c["method"] in ("contains_key", "get") and c["recv"]["k"] == "Field" and c["recv"].get("member") == "trait_impls"))]
            if not looks or re.search(r"trait_impls\.(insert|entry)\(|current_mut\(\)", S.norm_ws(run.facts.text(rel, f.body["sp"]))):
                continue      # a function that defines implementations tests its own package for duplicates (C16 R16.3 covers the others)
            gen = [p["pat"]["name"] for p in f.params() if not p["self"] and p["pat"]["k"] == "PIdent" and "PackageTypeEnv" in (p["ty"] or "")]
            if not gen:
                continue
            n += 1
            par = S.Parents(f.body)

            def over_deps(c):
                for a in par.ancestors(c):
                    if a["k"] == "For" and re.search(r"\.deps\.(values|iter)\(\)", S.norm_ws(run.facts.text(rel, a["iter"]["sp"]))):
                        return True
                    if a["k"] == "MethodCall" and a["method"] in ("any", "find_map", "filter_map", "for_each", "flat_map", "find") and \
                            re.search(r"\.deps\.(values|iter)\(\)", S.norm_ws(run.facts.text(rel, a["recv"]["sp"]))):
                        return True
                return False
            def over_current(c):
                # `once(genv.current()).chain(genv.deps.values()).filter_map(|env| env.get_trait_impl(..))`: the current package heads the chain
                for a in par.ancestors(c):
                    if a["k"] == "MethodCall" and a["method"] in ("any", "find_map", "filter_map", "for_each", "flat_map", "find") and \
                            re.search(r"\.current\(\)", S.norm_ws(run.facts.text(rel, a["recv"]["sp"]))):
                        return True
                return False
            cur = [c for c in looks if re.search(r"\.current\(\)", S.norm_ws(run.facts.text(rel, c["recv"]["sp"]))) or over_current(c)]
            deps = [c for c in looks if over_deps(c)]
            run.ob("R17.15", f"{f.name}|implementations are sought in the current package and in every dependency", bool(cur) and bool(deps), site(rel, looks[0]["sp"]),
                   f"{len(looks)} lookup(s): {len(cur)} on current(), {len(deps)} inside an iteration over all of deps",
                   witness="impl Show for int32 in TraitPkg: TraitPkg::Show::show_with(7, ..) from Main fails with `No instance found`, while x.m(a) "
                           "through T: TraitPkg::Show and the call on 7 coerced to dyn are accepted")
    run.floor("typer functions searching trait implementations across packages", n, 2)


def r17_17(run, model):
    run.rule("R17.17", "an ambiguous method name is rejected, not resolved by a side condition: the list of bound traits that declare the method "
                       "(lookup_bound_trait_methods) is what the one / none / several decision is taken on - it is bound immutably, never "
                       "filtered, truncated or reassigned between the lookup and that decision")
    n = 0
    for f in model.fns(CHECK):
        if f.body is None or f.name == "lookup_bound_trait_methods":
            continue
        for l in S.find(f.body, "Local"):
            init = l.get("init")
            if init is None or l["pat"]["k"] != "PIdent" or not (init["k"] == "Call" and S.callee_name(init) == "lookup_bound_trait_methods"):
                continue
            n += 1
            nm = l["pat"]["name"]
            scope = next((a for a in S.Parents(f.body).ancestors(l) if a["k"] == "Block"), f.body)
            changes = []
            if l["pat"].get("mut"):
                changes.append("declared `mut`")
            for x in S.walk(scope):
                if x["k"] == "Assign" and S.is_path(x["left"], nm):
                    changes.append(f"reassigned at line {x['sp'][0]}")
                if x["k"] == "MethodCall" and x["method"] in ("retain", "truncate", "pop", "remove", "dedup", "dedup_by_key", "sort", "drain", "clear") and S.is_path(x["recv"], nm):
                    changes.append(f".{x['method']}(..) at line {x['sp'][0]}")
            decided = [m_ for m_ in S.find(scope, "Match") if nm in S.idents(m_["scrut"]) and len(S.idents(m_["scrut"]) - {nm, "as_slice"}) == 0]
            run.ob("R17.17", f"{f.name}|the candidates found through the bounds decide unchanged", not changes and bool(decided), site(CHECK, l["sp"]),
                   ("; ".join(changes) if changes else "bound once") + f"; decisions taken directly on `{nm}`: {len(decided)}",
                   witness="T: Render + Plot with Render::draw(Self) and Plot::draw(Self, int32): x.draw() and x.draw(3) are accepted, each silently "
                           "bound to the trait whose parameter count fits; two `Ambiguous method draw` diagnostics are gone")
    run.floor("lookups of a method among the bounds of a type parameter", n, 1)


def r17_16(run, model):
    run.rule("R17.16", "a trait is known by its resolved name: every use of resolve_trait_name binds the resolved name it returns (no `.is_some()`, "
                       "no `_` in its place) - what the typer records for bounds, impls and dyn types is compared as text with resolved "
                       "names elsewhere (`in_bounds`), so a spelling kept as written (`Show` inside package Lib) never matches `Lib::Show`")
    n = 0
    for rel in (CHECK, UNI, "crates/compiler/src/typer/toplevel.rs", "crates/compiler/src/typer/util.rs", "crates/compiler/src/typer/tast_builder.rs"):
        for f in model.fns(rel):
            if f.body is None or f.name == "resolve_trait_name":
                continue
            par = None
            k_ = 0
            for c in S.walk(f.body):
                if c["k"] != "Call" or S.callee_name(c) != "resolve_trait_name":
                    continue
                if par is None:
                    par = S.Parents(f.body)
                n += 1
                k_ += 1
                p_ = par.parent(c)
                ok, why = True, "result handed on"
                if p_ is not None and p_["k"] == "MethodCall" and p_["recv"] is c and p_["method"] in ("is_some", "is_none", "is_ok", "is_err"):
                    ok, why = False, f"reduced to a boolean with .{p_['method']}()"
                elif p_ is not None and p_["k"] in ("Let", "Local"):
                    tup = [x for x in S.walk(p_["pat"]) if x["k"] == "PTuple"]
                    first = tup[0]["elems"][0] if tup and tup[0]["elems"] else None
                    if first is None:
                        ok, why = (p_["pat"]["k"] == "PIdent"), "bound whole"
                    elif first["k"] != "PIdent" or first["name"].startswith("_"):
                        ok, why = False, "the resolved name is discarded by the pattern"
                    else:
                        used = sum(1 for x in S.walk(f.body) if x["k"] == "Path" and len(x["segs"]) == 1 and x["segs"][0] == first["name"])
                        ok, why = used > 0, f"resolved name bound to `{first['name']}`, used {used} time(s)"
                run.ob("R17.16", f"{f.name}|use #{k_} of resolve_trait_name keeps the resolved name", ok, site(rel, c["sp"]), why,
                       witness="package Lib: fn tag_path[T: Show](x: T) { Show::tag(x, 1) } fails with `Type parameter T is not constrained by trait "
                               "Lib::Show` while x.tag(1) through the same bound is accepted")
    run.floor("uses of resolve_trait_name", n, 5)


def r17_19(run, model):
    run.rule("R17.19", "the call form chosen by the type checker survives the middle end: in the term passes (mono, lift, anf) a vtable call "
                       "(`EDynCall` / `CExpr::EDynCall`) is built only by the arm that matches a vtable call of the input - a pass that turns a "
                       "resolved trait call into a vtable call picks the slot by method name alone, whatever trait the object was made for")
    PASSES = (("crates/compiler/src/mono.rs", "mono_expr"), ("crates/compiler/src/lift.rs", "transform_expr"), ("crates/compiler/src/anf.rs", None))
    n = 0
    for rel, anchor in PASSES:
        for f in model.fns(rel):
            if f.body is None:
                continue
            par = None
            for st in S.find(f.body, "Struct"):
                if st["segs"][-1] != "EDynCall":
                    continue
                if par is None:
                    par = S.Parents(f.body)
                arm = next((a for a in par.ancestors(st) if a["k"] == "Arm"), None)
                heads = set()
                a_ = st
                for a in par.ancestors(st):
                    if a["k"] == "Arm":
                        for alt in S.pat_alts(a["pat"]):
                            h = S.pat_head(S.strip_refs(alt))
                            if h[0] == "variant":
                                heads.add(h[1][-1])
                n += 1
                run.ob("R17.19", f"{f.name}|a vtable call is built from a vtable call", "EDynCall" in heads, site(rel, st["sp"]),
                       f"EDynCall constructed under the arms {sorted(heads) or 'none'}",
                       witness="impl Label for dyn Show; fn label_of[T: Label](x: T) instantiated at dyn Show: mono rewrites Label::name(x) into "
                               "x.vtable.name(x.data), which is Show's `name`")
    run.floor("EDynCall constructions in mono / lift / anf", n, 3)


def r17_21(run, model):
    run.rule("R17.21", "a statically resolved trait call names the impl of the receiver's own type: wherever the match compiler builds an impl "
                       "function name (trait_impl_fn_name), the type argument derives from the type of the receiver expression (`..get_ty()`), "
                       "never from the table of known impls - which impls a package can see is not which impl a value has (a library's "
                       "`f[T: Tr]` would be bound to the library's only implementor before a dependent package adds its own)")
    from rules import c07 as _c07
    CM = "crates/compiler/src/compile_match.rs"
    n = 0
    for f0 in model.fns(CM):
        if f0.body is None:
            continue
        # call forms live in the functions that compile an expression; where an impl block is compiled the type is the block's own
        if not any((not p_["self"]) and re.search(r"(^|[&:<\s])Expr\b", p_["ty"] or "") for p_ in f0.params()):
            continue
        f = model.inlined_fn(f0)
        k = 0
        for c in S.walk(f.body):
            if c["k"] != "Call" or S.callee_name(c) != "trait_impl_fn_name" or len(c["args"]) < 2 or c.get("inlined_call"):
                continue
            key = tuple(getattr(c["sp"], "orig", None) or c["sp"])
            n += 1
            k += 1
            a = c["args"][1]
            chain = [S.norm_ws(run.facts.text(CM, a["sp"]))]
            for i in S.idents(a):
                chain += _c07._origin_chain(run, f, CM, c, i)
            src = " <- ".join(chain)
            from_recv = "get_ty()" in src
            from_table = re.search(r"trait_impls|trait_env|impl_table|\.impls\b", src) is not None
            run.ob("R17.21", f"{f0.name}|impl name #{k} is built from the receiver's type", from_recv and not from_table, site(CM, c["sp"]),
                   f"type argument: {src[:140]}",
                   witness="package Codec: trait Enc, impl Enc for int32, fn frame[T: Enc](x: T); package Main adds impl Enc for Token and calls "
                           "frame(tok): frame__T_Token calls the int32 impl with a Token")
    run.floor("impl function names built by the match compiler", n, 3)


def run(run, model):
    # the dyn call form unboxes at the impl's type: a numeric literal stored in the `any` slot without its type makes `d.m()` panic where
    # `T::m(1.5f32)` works (shared with C10 R10.8)
    from rules import c10 as _c10d
    run.try_rule(_c10d.r10_8, model)
    run.try_rule(r17_1, model)
    run.try_rule(r17_2, model)
    run.try_rule(r17_3, model)
    run.try_rule(r17_4, model)
    run.try_rule(r17_9, model)
    run.try_rule(r17_10, model)
    run.try_rule(r17_11, model)
    run.try_rule(r17_12, model)
    run.try_rule(r17_13, model)
    run.try_rule(r17_14, model)
    from rules import c01
    from lib import passes as P
    run.rule("R17.7", "every coercion to dyn gets its vtable: the collector that decides which vtable constructors and wrappers are generated "
                      "visits every sub-term (shared with C01 R01.3, restricted to collect_dyn_requirements)")
    try:
        trs = P.discover(model, include_pprint=False)
        run.try_rule(c01.r01_3, model, trs, (r"collect_dyn_requirements", r"collect_captured"))
    except AnalysisIncomplete as e:
        run.skipped.append({"rule_fn": "r01_3", "reason": str(e)})
    from rules import c02
    run.rule("R17.8", "the dyn call site and the vtable definition spell the method slot alike (shared with C02 R02.8: every Go name slot is mangled)")
    run.try_rule(c02.r02_8, model)
    from rules import c03
    run.rule("R17.6", "a coercion to dyn is recorded once per expression: call arguments are type-checked once (shared with C03 R03.11); a second "
                      "pass pushes the ToDyn coercion again and the value is wrapped twice")
    run.try_rule(c03.r03_11, model)
    from rules import c19 as _c19
    run.rule("R17.20", "the impl function every call form names is the impl of that type: trait_impl_fn_name renders trait and implementing type in "
                       "full, so `Shapes::Point` and Main's `Point` get different functions (shared with C19 R19.12)")
    run.try_rule(_c19.r19_12, model)
    run.try_rule(r17_15, model)
    run.try_rule(r17_21, model)
    run.try_rule(r17_16, model)
    run.try_rule(r17_17, model)
    run.try_rule(r17_18, model)
    run.try_rule(r17_19, model)
    # the call forms agree only if `Self` is instantiated under every type former of a trait method's signature (shared with C07 R07.2)
    from rules import c07 as _c07
    run.try_rule(_c07.r07_2, model, None, "C17")
    # the instance a method call is sent to is chosen by this unification (shared with C07 R07.22)
    run.try_rule(_c07.r07_22, model)
    from rules import c09
    run.rule("R17.5", "the call forms are emitted alike in effect position: static calls (ECall) and dyn calls (EDynCall) both become a Go "
                      "statement when their value is unused (shared with C09 R09.6)")
    run.try_rule(c09.r09_6, model)
    run.assume("ty_compact renders distinct monomorphic types differently (pretty printer; not decided)")
