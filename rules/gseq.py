"""G-SEQ: no new place reorders a sequence.

A who-may-call rule over the resolved program (E1: callee resolved through type information).  In the code that handles program terms
(lexer, parser, cst, ast and the compiler crate without pipeline/, main.rs and query.rs - a sort there makes output *more* canonical and
is C13's business) every resolved call of a reversing (rev, reverse), swapping (swap, swap_remove, rotate_*) or sorting (sort*)
operation on a slice / Vec / iterator is counted per file and family and compared with the number counted on today's tree (ledger:
file, family -> budget + reason).  The key names no function, no receiver type and no position: extracting a helper inside a file,
renaming, changing what a reversed iterator carries (neutral patch N16-e) leave it unchanged; a removed instance is below the budget.
A first version also budgeted shortening and filtering operations by element type; 7 of the 120 kept behaviour-preserving patches
tripped it (`for .. { if let Some(x) = lower(..) { push } }` written as `filter_map`, a work-list element type renamed), so that part
was not armed.  What the rule decides: the evaluation order of children (C09), the row / column order of a match (C06) and the order
of emitted pieces (C01) are not changed by a *new* reversal, swap or sort.  What it does not decide: that the ledgered instances are
right (the rules named in the reasons do that), hand-written index arithmetic, `pop()`-driven loops."""
import re
import collections
from lib.core import site
from lib.mir import Mir, callee_tail

FAM = {"rev": "reverse", "reverse": "reverse", "swap": "swap", "swap_remove": "swap", "rotate_left": "swap", "rotate_right": "swap"}
for _s in ("sort", "sort_by", "sort_by_key", "sort_unstable", "sort_unstable_by", "sort_unstable_by_key", "sort_by_cached_key"):
    FAM[_s] = "sort"
NOT_SEQ = re.compile(r"mem::swap|str::|string::String|char::|cell::|ptr::")
OUT_OF_SCOPE = ("/pipeline/", "compiler/src/main.rs", "compiler/src/query.rs", "wasm-app/", "diagnostics/", "pprint")

# (file suffix, family) -> (budget, reason)
LEDGER = {
    ("compile_match.rs", "reverse"): (3, "fresh columns of enum / struct / tuple cases are inserted at the front one by one: reversed enumeration keeps field order (R06.12 / R08.2)"),
    ("go/dce.rs", "reverse"): (2, "backward liveness walk over a block; kept statements are put back in source order (R02.15 / R09.4)"),
    ("lift.rs", "reverse"): (2, "scope lookup innermost layer first (R08.8); captured variables rebound by lets wrapped inside out (R08.2 / R08.3)"),
    ("typer/localenv.rs", "reverse"): (1, "lookup_var: innermost scope first (R05.2)"),
    ("parser/src/parser.rs", "reverse"): (1, "build_tree: forward parents are opened outermost first (R12.10)"),
    ("go/compile.rs", "sort"): (2, "dyn helper functions and dyn type definitions are emitted in sorted (trait, type) order (R13.1)"),
    ("compiler/src/hir.rs", "sort"): (2, "packages are lowered in name order (R13.1)"),
    ("mono.rs", "sort"): (2, "substitution rendered in parameter-name order for the instance key (R07.3)"),
    ("typer/check.rs", "sort"): (1, "unknown struct-pattern fields are reported in name order (R13.1)"),
    ("typer/toplevel.rs", "sort"): (2, "undeterminable type parameters reported in name order (R03.17 / R13.1)"),
}

WITNESS = {
    "reverse": "`f(a(), b())` with a reversed child list evaluates b first; a reversed row list selects the last matching arm",
    "swap": "two swapped children exchange evaluation order and argument positions",
    "sort": "a sorted child list evaluates / emits by name instead of by source position: `g(zeta(), alpha())` calls alpha first",
}


def r_seq(run, model, rid, files=None):
    """files: optional tuple of file suffixes the property is interested in"""
    run.rule(rid, "no new place reorders a sequence (G-SEQ, resolved calls): in the term-handling code (lexer, parser, cst, ast, compiler without "
                  "pipeline/, main.rs, query.rs) the reversing, swapping and sorting operations on slices / Vecs / iterators are counted per file "
                  "and family and do not exceed the ledger (budget + reason per entry; every other file: zero); the ledgered instances found are "
                  "the positive control")
    mir = Mir(run.facts)
    seen = collections.Counter()
    where = {}
    considered = 0
    for c in mir.calls:
        f = c["file"]
        if not f.startswith("crates/") or "/tests/" in f or f.endswith("_test.rs") or f.endswith("/tests.rs") or any(o in f for o in OUT_OF_SCOPE):
            continue
        if files and not any(f.endswith(p) for p in files):
            continue
        considered += 1
        t = callee_tail(c["callee"])
        fam = FAM.get(t)
        if fam is None or not c["args"] or NOT_SEQ.search(c["callee"]):
            continue
        seen[(f, fam)] += 1
        where.setdefault((f, fam), []).append(c)
    found = 0
    for (f, fam), n in sorted(seen.items()):
        ent = None
        for (lf, lfam), v in LEDGER.items():
            if f.endswith(lf) and lfam == fam:
                ent = v
        cs = where[(f, fam)]
        fns = sorted({re.sub(r"(::\{closure#\d+\})+$", "", c["caller"]).split("::")[-1] for c in cs})
        short = f.split("crates/")[-1]
        if ent and n <= ent[0]:
            found += n
            run.ob(rid, f"{short}|{fam}", True, site(f, [cs[0]["line"]]), f"{n} call(s) in {', '.join(fns)} (budget {ent[0]}): {ent[1]}")
        else:
            why = f"the ledger allows {ent[0]} ({ent[1]})" if ent else "the ledger has no entry for this file"
            run.ob(rid, f"{short}|{fam}", False, site(f, [cs[-1]["line"]]),
                   f"{n} {fam} operation(s) in {', '.join(fns)}; {why}; last: {cs[-1]['callee'][:70]} on {cs[-1]['args'][0][:90]}",
                   witness=WITNESS[fam])
    run.ob(rid, "term-handling code|no other reversal / swap / sort", True, None,
           f"{considered} resolved calls inspected, {found} ledgered instances recognised")
    run.floor(f"{rid}: resolved calls in the term-handling code", considered, 20000 if not files else 1500)
    if not files:
        run.floor(f"{rid}: ledgered reorder instances recognised (positive control)", found, 18)
