"""C08 Closures keep their lexical meaning after lambda lifting (capture-bookkeeping clauses only)."""
import re
from lib import syn as S, passes as P
from lib.core import AnalysisIncomplete, site

EXPLANATION = (
    "Closure conversion in this compiler is type-directed and flow-dependent; whether a function value that flows through a tuple, a "
    "Vec, a branch or an argument is still callable is NOT decided (a known finding of that kind is recorded under C07). Decided are the "
    "structural facts about capture bookkeeping: R08.1 the free-variable walk (collect_captured) matches its IR without a catch-all "
    "and visits every sub-term of every node; its `bound` stack is pushed and popped in pairs around the body of a let. R08.2 index "
    "agreement - every positional index (environment-struct field, constructor argument, EConstrGet field_index, struct field slot) "
    "comes from enumerate() applied to the full, unfiltered ordered collection, with any reversal applied after the enumeration. "
    "R08.3 the environment struct's fields, the creation-site arguments and the rebinding lets of the apply function are all derived "
    "from the one `captured` collection. R08.4 scope layers are paired (shared with C05 R05.3).")

LIFT = "crates/compiler/src/lift.rs"
CM = "crates/compiler/src/compile_match.rs"
LEN_CHANGING = {"filter", "filter_map", "flat_map", "skip", "skip_while", "take_while", "step_by", "dedup", "flatten", "chain"}


def method_chain(e):
    """methods applied along the receiver chain of an expression, innermost first, and the base expression"""
    ms = []
    while isinstance(e, dict) and e.get("k") == "MethodCall":
        ms.append(e["method"])
        e = e["recv"]
    return list(reversed(ms)), e


def r08_1(run, model):
    run.rule("R08.1", "the free-variable walk sees everything: collect_captured has no catch-all arm, uses every sub-term of every variant, and "
                      "pushes/pops its `bound` stack in pairs")
    alltr = P.discover(model)
    trs = [t for t in alltr if t.fn.name == "collect_captured"]
    walker = model.fn("collect_captured", LIFT)
    if not trs:
        # the walk may list the sub-terms through a traversal of its own (`other.children()`): that traversal is held to the same standard
        called = {S.callee_name(c) for c in S.walk(walker.body) if c["k"] in ("Call", "MethodCall")}
        trs = [t for t in alltr if t.fn.file == LIFT and t.enum["name"] == "LiftExpr" and t.fn.name in called]
        if not trs:
            raise AnalysisIncomplete("collect_captured not found as a traversal over LiftExpr")
    t = trs[0]
    run.ob("R08.1", f"{t.fn.name}|no catch-all", not t.catch and len(t.covered) == len(t.enum["variants"]), site(LIFT, t.match["sp"]),
           f"{len(t.covered)}/{len(t.enum['variants'])} variants explicit, catch-all arms: {len(t.catch)}",
           witness="a node kind that is not walked: variables used inside it are not captured")
    variants = {v["name"]: v for v in t.enum["variants"]}
    n = 0
    for vname, lst in sorted(t.covered.items()):
        kids = P.child_fields(variants[vname], t.enum["name"])
        for arm, alt in lst:
            b, rest = P.arm_field_bindings(alt)
            ids = S.idents(arm["body"])
            for k in kids:
                n += 1
                bound_ = b.get(k)
                used = isinstance(bound_, str) and bound_ in ids or (isinstance(bound_, tuple) and any(x in ids for x in bound_))
                run.ob("R08.1", f"{t.fn.name}|{vname}.{k} visited", bool(used), site(LIFT, arm["sp"]),
                       f"{vname}.{k} {'is walked' if used else 'is skipped (`..`, `_` or unused)'}",
                       witness="compose(f, g) { |x| f(g(x)) }: a captured function used only in callee position is missing from the environment struct; the apply function refers to an unbound name")
    run.floor("sub-terms of LiftExpr variants checked in collect_captured", n, 20)
    f = walker
    pushes = [c for c in S.calls(f.body, "push") if c["k"] == "MethodCall" and S.is_path(c["recv"], "bound")]
    pops = [c for c in S.calls(f.body, "pop") if c["k"] == "MethodCall" and S.is_path(c["recv"], "bound")]
    ok = len(pushes) == len(pops) and len(pushes) >= 1
    par = S.Parents(f.body)
    for pu in pushes:
        blk = next((a for a in par.ancestors(pu) if a["k"] == "Block"), None)
        same = blk is not None and any(S.span_contains(blk["sp"], po["sp"]) and (po["sp"][0], po["sp"][1]) > (pu["sp"][0], pu["sp"][1]) for po in pops)
        ok = ok and same
    run.ob("R08.1", "collect_captured|bound.push / bound.pop paired", ok, site(LIFT, f.node["sp"]), f"{len(pushes)} push, {len(pops)} pop on `bound`",
           witness="a let-bound name stays 'bound' after its body: a later free use of the same name is not captured")


def r08_2(run, model):
    run.rule("R08.2", "positional indices come from enumerate() over the full ordered collection: no length-changing adaptor (filter, filter_map, "
                      "flat_map, skip, …) precedes an enumerate() whose index is used as a position, and reversal follows enumeration")
    n = 0
    for rel in (LIFT, CM):
        for f in model.fns(rel):
            if f.body is None:
                continue
            locals_ = {}
            for l in S.find(f.body, "Local"):
                if l["pat"]["k"] == "PIdent" and l.get("init") is not None:
                    locals_.setdefault(l["pat"]["name"], l["init"])
            par = None
            for e in S.walk(f.body):
                if e["k"] != "MethodCall" or e["method"] != "enumerate":
                    continue
                if par is None:
                    par = S.Parents(f.body)
                ms, base = method_chain(e["recv"])
                chain = list(ms)
                # follow a local that was built by an iterator chain
                hops = 0
                while isinstance(base, dict) and base.get("k") == "Path" and len(base["segs"]) == 1 and base["segs"][0] in locals_ and hops < 3:
                    m2, base2 = method_chain(locals_[base["segs"][0]])
                    if not m2:
                        break
                    chain = m2 + chain
                    base = base2
                    hops += 1
                # is the index used positionally?
                user = par.parent(e)
                while user is not None and user["k"] == "MethodCall" and user["method"] in ("rev", "map", "for_each", "collect", "peekable"):
                    nxt = par.parent(user)
                    if nxt is None or nxt["k"] not in ("MethodCall",):
                        break
                    user = nxt
                scope_node = next((a for a in par.ancestors(e) if a["k"] in ("For", "Local", "ExprStmt")), None)
                region = scope_node if scope_node is not None else f.body
                idx_names = set()
                if scope_node is not None and scope_node["k"] == "For":
                    pb = S.pat_bindings(scope_node["pat"])
                    if pb:
                        idx_names.add(pb[0])
                for cl in S.find(region, "Closure"):
                    if cl["inputs"] and S.span_contains(region["sp"], cl["sp"]):
                        pb = S.pat_bindings(cl["inputs"][0])
                        if pb:
                            idx_names.add(pb[0])
                        # fold-style closures |acc, (i, x)|: the index is the first binder of a tuple-patterned input
                        for inp in cl["inputs"]:
                            ip = S.strip_refs(inp)
                            if ip["k"] == "PTuple":
                                pb2 = S.pat_bindings(ip)
                                if pb2:
                                    idx_names.add(pb2[0])
                positional = False
                for x in S.walk(region):
                    if x["k"] == "Index" and S.idents(x["index"]) & idx_names:
                        positional = True
                    if x["k"] == "Struct":
                        for fl in x["fields"]:
                            if fl["name"] in ("field_index", "index") and S.idents(fl["expr"]) & idx_names:
                                positional = True
                if not positional:
                    continue
                n += 1
                bad = [m for m in chain if m in LEN_CHANGING]
                rev_before = "rev" in chain
                ok = not bad and not rev_before
                recv_txt = S.norm_ws(run.facts.text(rel, e["recv"]["sp"]))[:60]
                run.ob("R08.2", f"{f.name}|enumerate over {recv_txt}", ok, site(rel, e["sp"]),
                       f"adaptors before enumerate(): {chain or 'none'}; index used as a position",
                       witness="struct Op { label: string, run: (int32) -> int32 }: the closure type is written into field 0 (label) because the index counts closures, not fields")
    run.floor("positional enumerate() sites", n, 5)


def r08_3(run, model):
    run.rule("R08.3", "one source of truth for captures: in transform_closure the environment struct fields, the constructor arguments at the "
                      "creation site and the rebinding lets of the apply function all iterate the same `captured` collection")
    f = model.fn("transform_closure", LIFT)
    # the function and the private helpers it was split into; a helper is handed `captured` under the same name
    scope = model.scope_fns(f)
    loops = []
    for g in scope:
        cap_names = {"captured"} if g is f else {p["pat"].get("name") for p in g.params() if not p["self"] and (a_ := model.arg_for_param(f, g, p["pat"].get("name"))) is not None
                                                 and S.idents(a_) == {"captured"}}
        for loop in S.find(g.body, "For"):
            it = S.norm_ws(run.facts.text(LIFT, loop["iter"]["sp"]))
            root = re.match(r"\w+", it)
            if root and root.group(0) in cap_names:
                it = "captured" + it[len(root.group(0)):]
                pushed = sorted({c["recv"]["segs"][0] for c in S.walk(loop["body"]) if c["k"] == "MethodCall" and c["method"] == "push" and S.is_path(c["recv"])})
                fi = any(fl["name"] == "field_index" for st in S.find(loop["body"], "Struct") for fl in st["fields"])
                loops.append((it, pushed, fi, loop))
    fill = [l for l in loops if len(l[1]) >= 2]
    rebind = [l for l in loops if l[2]]
    ok = len(fill) == 1 and len(rebind) == 1 and all(l[0].startswith("captured.iter().enumerate()") for l in fill + rebind)
    run.ob("R08.3", "transform_closure|fields and arguments filled by one loop; rebinding uses the same enumeration", ok, site(LIFT, f.node["sp"]),
           f"loops over `captured`: {[(l[0], l[1], 'field_index' if l[2] else '') for l in loops]}",
           witness="environment fields, creation-site arguments and rebinding lets disagree on which variable sits at which index")
    if fill:
        fields_v, args_v = None, None
        for v in fill[0][1]:
            if "field" in v:
                fields_v = v
            if "arg" in v:
                args_v = v
        txt = " ".join(S.norm_ws(run.facts.text(LIFT, g.body["sp"])) for g in scope)
        ok2 = fields_v is not None and args_v is not None and f"fields:{fields_v}" in txt and f"args:{args_v}" in txt
        run.ob("R08.3", "transform_closure|the filled vectors are the struct's fields and the constructor's arguments", ok2, site(LIFT, f.node["sp"]),
               f"fields vector `{fields_v}`, argument vector `{args_v}`")
    for l in S.find(f.body, "Local"):
        if l["pat"]["k"] == "PIdent" and l["pat"]["name"] == "captured":
            t = S.norm_ws(run.facts.text(LIFT, l["init"]["sp"])) if l.get("init") else ""
            run.ob("R08.3", "transform_closure|captured is insertion-ordered", t.startswith("IndexMap::"), site(LIFT, l["sp"]), f"captured = {t}")
    cc = [c for c in S.calls(f.body, "collect_captured")]
    run.ob("R08.3", "transform_closure|captures computed once", len(cc) == 1, site(LIFT, f.node["sp"]), f"{len(cc)} calls to collect_captured")


# node kinds whose type is a function of their (converted) children: passing the old type through is wrong for them
DEPENDENT_TYPES = {"ELet": "its body", "ETuple": "its items", "EProj": "the projected tuple", "EConstrGet": "the field's (rewritten) declared type"}
TYPE_SOURCES = {"get_struct_field_ty", "get_enum_field_ty"}  # declared field types of the (lifted) type definitions


def r08_5(run, model):
    run.rule("R08.5", "closure conversion propagates types bottom-up: wherever transform_expr gives a rebuilt node a type other than the one it "
                      "had before (tuple, let, call, projection, field access), that type is computed from the converted children's get_ty() "
                      "(or the declared field type), never from a name-keyed table that only knows top-level functions")
    f = model.fn("transform_expr", LIFT)
    ms = list(S.find(f.body, "Match"))
    if not ms:
        raise AnalysisIncomplete("transform_expr: no match")
    m = ms[0]
    n = 0
    for arm in m["arms"]:
        alt = S.strip_refs(S.pat_alts(arm["pat"])[0])
        h = S.pat_head(alt)
        if h[0] != "variant":
            continue
        variant = h[1][-1]
        passthrough = set(S.pat_bindings(alt))
        lets = {}
        for l in S.find(arm["body"], "Local"):
            if l.get("init") is not None:
                for b in S.pat_bindings(l["pat"]):
                    lets.setdefault(b, []).append(l["init"])
        converted = {b for b, inits in lets.items() if any(any(True for _ in S.calls(i, "transform_expr", "transform_closure")) for i in inits)}
        if not converted:
            continue  # leaf: nothing converted below it
        for st in S.find(arm["body"], "Struct"):
            if st["segs"][0] != "LiftExpr" or st["segs"][-1] != variant:
                continue
            for fl in st["fields"]:
                if fl["name"] != "ty":
                    continue
                e = fl["expr"]
                if e is None or (e["k"] == "Path" and e["segs"] == ["ty"] and "ty" in passthrough and "ty" not in lets):
                    if variant in DEPENDENT_TYPES:
                        n += 1
                        run.ob("R08.5", f"transform_expr|{variant} type from converted children", False, site(LIFT, st["sp"]),
                               f"{variant} keeps the type it had before conversion; its type depends on {DEPENDENT_TYPES[variant]}",
                               witness="fn make() -> (int32) -> int32 { let k = 1; |x| x + k }: the let keeps the function type while its body is a closure struct; callers call the struct as a bare func")
                    continue  # unchanged type
                # transitive closure of the defining expressions
                seen, work, exprs = set(), [e], []
                while work:
                    x = work.pop()
                    exprs.append(x)
                    short = {fl2["name"] for st2 in S.find(x, "Struct") for fl2 in st2["fields"] if fl2.get("expr") is None}
                    for nm in S.idents(x) | short:
                        if nm in lets and nm not in seen:
                            seen.add(nm)
                            work.extend(lets[nm])
                from_children = any(c["k"] == "MethodCall" and c["method"] == "get_ty" and (S.idents(x) & converted) for x in exprs for c in S.walk(x))
                declared = any(S.callee_name(c) in TYPE_SOURCES for x in exprs for c in S.calls(x))
                tables = sorted({S.callee_name(c) for x in exprs for c in S.calls(x) if (S.callee_name(c) or "").startswith(("get_func", "lookup", "get_fn"))})
                n += 1
                # the type the node had before conversion is stale wherever a child was converted: for the forms whose type is a function
                # of their children it must not flow into the new type on any branch (a conditional rebuild keeps it for nested shapes)
                pat_ty = {b for b in S.pat_bindings(alt)} & {"ty"}
                stale = variant in ("ETuple", "ELet") and bool(pat_ty) and any(
                    x["k"] == "Path" and x.get("segs") == ["ty"] for y in exprs for x in S.walk(y)
                    if not (y is e and e["k"] == "Path"))
                ok = (from_children or declared) and not tables and not stale
                run.ob("R08.5", f"transform_expr|{variant} type from converted children", ok, site(LIFT, st["sp"]),
                       f"new type of {variant}: " + ("children's get_ty()" if from_children else ("declared field type" if declared else "no converted child consulted")) +
                       (f"; name-keyed tables consulted: {tables}" if tables else "") +
                       ("; the pre-conversion type is kept on some branch" if stale else ""),
                       witness="let mk = make_adder; let add3 = mk(3); add3(10): the call through the alias keeps the unconverted function type, add3 is no longer a closure struct and is called as a bare func")
    run.floor("rebuilt nodes with a recomputed type in transform_expr", n, 4)


GOC = "crates/compiler/src/go/compile.rs"


def r08_7(run, model):
    run.rule("R08.7", "`go f` accepts both representations of a callable (closure struct with an apply function, plain function value): "
                      "in compile_go the Option answered by the closure-apply lookup is consumed with a branch for None, never unwrapped")
    f = model.fn("compile_go", GOC)

    def lookups(g):
        return [c for c in S.walk(g.body) if c["k"] == "Call" and S.callee_name(c) in ("find_closure_apply_fn",)] + \
               [c for c in S.walk(g.body) if c["k"] == "MethodCall" and c["method"] == "closure_apply_method"]
    look = lookups(f)
    if not look:
        # the lookup may live in a helper compile_go calls (one level)
        for g in model.fns(GOC):
            if g.body is not None and g is not f and any(True for _ in S.calls(f.body, g.name)) and lookups(g):
                f = g
                look = lookups(g)
                break
    if not look:
        raise AnalysisIncomplete("compile_go: closure-apply lookup not found")
    par = S.Parents(f.body)
    for c in look:
        p_ = par.parent(c)
        forced = p_ is not None and p_["k"] == "MethodCall" and p_["recv"] is c and p_["method"] in ("expect", "unwrap", "unwrap_unchecked")
        branched = p_ is not None and (p_["k"] in ("Match", "Let") or (p_["k"] == "Local" and p_.get("else") is not None) or
                                       (p_["k"] == "MethodCall" and p_["recv"] is c and p_["method"] in ("map", "map_or", "map_or_else", "unwrap_or_else", "and_then", "ok_or", "ok_or_else")))
        run.ob("R08.7", "compile_go|a plain function value is a legal operand of go", (not forced) and branched, site(GOC, c["sp"]),
               "the lookup is " + ("forced with expect/unwrap" if forced else ("consumed by a branching construct" if branched else "consumed in an unrecognised way")),
               witness="fn work() -> unit {..} fn main() { go work; } is accepted by the typer (work: () -> unit) and panics in the Go back end: `go statement closure must have an apply method`")


def r08_8(run, model):
    run.rule("R08.8", "layered environments delegate to the next layer only: a method of the lift/mono environment that falls back to "
                      "`self.<layer>….<same method>(..)` goes through exactly one layer field (skipping a layer hides the definitions "
                      "that layer added: monomorphised struct instances, lifted closure structs)")
    n = 0
    for rel in (LIFT, "crates/compiler/src/mono.rs"):
        for f in model.fns(rel):
            if f.body is None or f.impl not in ("GlobalLiftEnv", "GlobalMonoEnv"):
                continue
            for c in S.walk(f.body):
                if c["k"] != "MethodCall" or c["method"] != f.name:
                    continue
                hops = []
                r = c["recv"]
                while r["k"] == "Field":
                    hops.append(r.get("member"))
                    r = r["base"]
                if not S.is_path(r, "self") or not hops:
                    continue
                n += 1
                run.ob("R08.8", f"{f.impl}::{f.name}|delegates to the adjacent layer", len(hops) == 1, site(rel, c["sp"]),
                       f"self.{'.'.join(reversed(hops))}.{f.name}(..)" + ("" if len(hops) == 1 else f" skips {len(hops) - 1} layer(s)"),
                       witness="a closure stored in a field of a generic struct (Slot[(int32)->int32]): the field type of the monomorphised instance is never rewritten to the closure struct, s.item(4) is emitted as a call of a bare func value")
    run.floor("same-name delegations in the lift/mono environments", n, 4)


def _body_converters(model):
    """transform_expr and the small same-file wrappers that hand a body to it (`transform_in_context`): what 'the body is converted' means"""
    names = {"transform_expr"}
    for g in model.fns(LIFT):
        if g.body is None or g.test or g.name in ("transform_expr", "transform_closure", "lambda_lift"):
            continue
        if any(True for _ in S.calls(g.body, "transform_expr")) and not any(True for _ in S.calls(g.body, g.name)):
            names.add(g.name)
    return tuple(sorted(names))


def r08_10(run, model):
    run.rule("R08.10", "every binder of the lifted language is registered in the conversion scope: transform_closure inserts each closure "
                       "parameter (inside a pushed layer) before the body is converted, as the let arm does for its name - an inner closure "
                       "finds captured variables through that scope")
    f = model.fn("transform_closure", LIFT)
    ins = [c for c in S.walk(f.body) if c["k"] == "MethodCall" and c["method"] == "insert" and S.is_path(c["recv"], "scope") and c["args"] and
           "param" in S.norm_ws(run.facts.text(LIFT, c["args"][0]["sp"]))]
    body_conv = [c for c in S.calls(f.body, *_body_converters(model))]
    ok = bool(ins) and bool(body_conv) and all((i["sp"][0], i["sp"][1]) < (body_conv[0]["sp"][0], body_conv[0]["sp"][1]) for i in ins)
    run.ob("R08.10", "transform_closure|parameters registered before the body is converted", ok, site(LIFT, f.node["sp"]),
           f"{len(ins)} scope.insert(param..) before transform_expr(body)",
           witness="|x| { |y| x + y }: the inner closure does not capture the outer parameter x: its apply function reads an undeclared variable")
    g = model.fn("transform_expr", LIFT)
    let_ins = 0
    for m in S.find(g.body, "Match"):
        for arm in m["arms"]:
            if re.match(r"MonoExpr::ELet\{", S.norm_ws(run.facts.text(LIFT, arm["pat"]["sp"]))):
                let_ins = sum(1 for c in S.walk(arm["body"]) if c["k"] == "MethodCall" and c["method"] == "insert" and S.is_path(c["recv"], "scope"))
        break
    run.ob("R08.10", "transform_expr|let names registered", let_ins >= 1, site(LIFT, g.node["sp"]), f"{let_ins} scope.insert in the ELet arm")


def r08_12(run, model):
    run.rule("R08.12", "a caller sees its callee's converted signature whatever the order of the top-level functions: lambda_lift does not "
                       "transform function bodies (which read callee signatures from the lift environment) in the same pass that rewrites "
                       "those signatures - a function returning a closure gets the closure struct as result type only when it is itself "
                       "processed, so a caller that precedes it keeps the plain function type")
    f = model.fn("lambda_lift", LIFT)
    n = 0
    for loop in S.find(f.body, "For"):
        reads = any(True for _ in S.calls(loop["body"], *_body_converters(model)))
        writes = [c for c in S.walk(loop["body"]) if c["k"] == "MethodCall" and c["method"] == "insert_func"]
        if not reads:
            continue
        n += 1
        run.ob("R08.12", "lambda_lift|callee signatures are final before callers are lifted", not writes, site(LIFT, (writes or [loop])[0]["sp"]),
               "the loop that transforms the bodies also rewrites the function signatures (insert_func)" if writes else "bodies are transformed in a pass of their own",
               witness="fn main() { let f = adder(3); f(4) } placed before fn adder(k) -> (int32) -> int32 { |x| x + k }: main is lifted first and "
                       "emits `var f func(int32) int32 = adder(3)` / `f(4)` although adder returns closure_env_adder_0")
    if n == 0:
        raise AnalysisIncomplete("lambda_lift: loop that transforms the function bodies not found")


def r08_13(run, model):
    run.rule("R08.13", "a closure can be passed where a function type is expected: closure conversion turns a capturing closure into a struct "
                       "value, while parameters keep their function type - so where transform_expr rebuilds an ordinary call it has to look at "
                       "the callee's parameter types next to the converted arguments (adapt the argument or specialise the callee)")
    f = model.fn("transform_expr", LIFT)
    ms = list(S.find(f.body, "Match"))
    arm = None
    for m in ms:
        for a in m["arms"]:
            if S.norm_ws(run.facts.text(LIFT, a["pat"]["sp"])).startswith("MonoExpr::ECall"):
                arm = a
                break
        if arm:
            break
    if arm is None:
        raise AnalysisIncomplete("transform_expr: ECall arm not found")
    body = S.norm_ws(run.facts.text(LIFT, arm["body"]["sp"]))
    # the callee's parameter types are read: a TFunc pattern binding `params`, or a `.params` access, in the arm
    reads_params = re.search(r"TFunc\{(ref)?params|TFunc\{[^}]*\bparams\b(?!:_)|\.params\b", body) is not None
    # the rewrite of a call into the closure's apply function: which callee shapes does it cover?
    only_vars = re.search(r"ifletLiftExpr::EVar\{name,\.\.\}=&func_expr", body) is not None and \
        re.search(r"closure_struct_for_ty\(&?func_expr\.get_ty\(\)\)|apply_fn_for_struct\([^)]*func_ty", body) is None
    run.ob("R08.13", "transform_expr|ECall: a callee that is not a variable is applied through its closure's apply function", not only_vars, site(LIFT, arm["sp"]),
           "the apply rewrite is attempted only when the callee is a scope variable" if only_vars else "the rewrite looks at the callee's converted type",
           witness="fn adder(k: int32) -> (int32) -> int32 { |x: int32| x + k } .. adder(1)(2): Go gets `t3(2)` with t3 of struct type "
                   "closure_env_adder_0; `let f = adder(1); f(2)` works")
    run.ob("R08.13", "transform_expr|ECall: a closure argument is matched against the parameter's function type", reads_params, site(LIFT, arm["sp"]),
           "the arm reads the callee's parameter types" if reads_params else "arguments are converted and passed on; the callee's parameter types are never looked at (`Ty::TFunc { ref ret_ty, .. }`)",
           witness="fn apply_once(f: (int32) -> int32, v: int32) -> int32 { f(v) } … let k = 10; let c = |x: int32| x + k; apply_once(c, 4): "
                   "Go gets `apply_once(c__4, 4)` with c__4 of struct type closure_env_c_0 for a `func(int32) int32` parameter")


def r08_14(run, model):
    run.rule("R08.14", "a function used as a value stays in the output: the reachability walk of Go DCE (collect_called_in_expr) records a "
                       "function name wherever a variable mentions it, not only in callee position - a top-level function that is only "
                       "let-bound, passed or stored must not be pruned while its uses stay")
    DCE = "crates/compiler/src/go/dce.rs"
    f = model.fn_or_role("collect_called_in_expr", DCE, "prune_dead_functions", r"Expr::Var\b")
    ms = list(S.find(f.body, "Match"))
    if not ms:
        raise AnalysisIncomplete("collect_called_in_expr: match not found")
    arm = None
    for a in ms[0]["arms"]:
        heads = [S.pat_head(x) for x in S.pat_alts(a["pat"])]
        if any(h[0] == "variant" and h[1][-1] == "Var" for h in heads):
            arm = a
    if arm is None:
        raise AnalysisIncomplete("collect_called_in_expr: no arm for Expr::Var")
    records = any(c["k"] == "MethodCall" and c["method"] == "insert" for c in S.walk(arm["body"]))
    run.ob("R08.14", "collect_called_in_expr|every mention of a function name keeps the function", records, site(DCE, arm["sp"]),
           "the Var arm records the name" if records else "the Var arm is a leaf: only callees are recorded",
           witness="fn triple(x: int32) -> int32 { x * 3 } fn main() { let f = triple; .. f(2) }: `triple` is pruned as unreachable, Go: undefined: triple")


def r08_16(run, model):
    run.rule("R08.16", "the apply function is registered under one type: in transform_closure the type given to `insert_func` and the type of "
                       "the `apply` method scheme are the same binding, a function type whose parameters are those of the generated function "
                       "(environment first) - the Go back end finds a closure's apply function by looking for a method whose first "
                       "parameter is the environment struct")
    f = model.fn("transform_closure", LIFT)
    norm = lambda e: re.sub(r"^&|\.clone\(\)$", "", S.norm_ws(run.facts.text(LIFT, e["sp"])))
    scope = model.scope_fns(f)
    ins = [(g, c) for g in scope for c in S.walk(g.body) if c["k"] == "MethodCall" and c["method"] == "insert_func" and len(c["args"]) >= 2]
    sch = [(g, st) for g in scope for st in S.find(g.body, "Struct") if st["segs"][-1] == "FnScheme"]
    lf = [st for g in scope for st in S.find(g.body, "Struct") if st["segs"][-1] == "LiftFn"]
    if len(ins) != 1 or len(sch) != 1 or len(lf) != 1 or ins[0][0] is not sch[0][0]:
        raise AnalysisIncomplete(f"transform_closure (and the helpers it calls): insert_func x{len(ins)}, FnScheme x{len(sch)}, LiftFn x{len(lf)}")
    holder = ins[0][0]
    ins = [ins[0][1]]
    sch = [sch[0][1]]
    a = norm(ins[0]["args"][1])
    tyf = next((fl for fl in sch[0]["fields"] if fl["name"] == "ty"), None)
    b = norm(tyf["expr"]) if tyf else None
    run.ob("R08.16", "transform_closure|function table and apply method carry the same type", a == b, site(LIFT, sch[0]["sp"]),
           f"insert_func(.., {a}) / FnScheme {{ ty: {b} }}",
           witness="go |..| body: the back end no longer finds the apply function (its first parameter is not the environment), emits "
                   "`go worker__3()` on the struct and prunes the closure bodies as dead")
    lets = {l["pat"]["name"]: l["init"] for l in S.find(f.body, "Local") if l["pat"]["k"] == "PIdent" and l.get("init") is not None}
    if holder is not f and a is not None:
        # the registration lives in a helper: the type is the argument transform_closure passes for that parameter
        passed = model.arg_for_param(f, holder, a)
        if passed is not None:
            a = norm(passed)
    init = lets.get(a)
    fn_params = next((fl for fl in lf[0]["fields"] if fl["name"] == "params"), None)
    src = S.idents(fn_params["expr"]) if fn_params else set()
    ok = False
    if init is not None and init["k"] == "Struct" and init["segs"][-1] == "TFunc":
        pf = next((fl for fl in init["fields"] if fl["name"] == "params"), None)
        if pf is not None:
            ids = set(S.idents(pf["expr"]))
            for i in list(ids):
                if i in lets:
                    ids |= S.idents(lets[i])
            ok = bool(ids & src)
    run.ob("R08.16", "transform_closure|that type is built from the generated function's parameters", ok, site(LIFT, ins[0]["sp"]),
           f"`{a}` = {S.norm_ws(run.facts.text(LIFT, init['sp']))[:70] if init is not None else '?'}; LiftFn params come from {sorted(src)}")


def r08_17(run, model):
    run.rule("R08.17", "a reference to a local has the type its binding was converted to: in transform_expr's variable arm every local found "
                       "in the conversion scope is typed from its scope entry (the environment struct, or the converted type recorded at the "
                       "binding); the type Mono wrote is kept only for names the scope does not know - a tuple holding a closure, or a "
                       "function value returning one, otherwise keeps a function type its elements no longer have")
    f = model.fn("transform_expr", LIFT)
    arm = None
    for m_ in S.find(f.body, "Match"):
        for a in m_["arms"]:
            if re.match(r"MonoExpr::EVar\{", S.norm_ws(run.facts.text(LIFT, a["pat"]["sp"]))):
                arm = a
        break
    if arm is None:
        raise AnalysisIncomplete("transform_expr: the arm for variables was not found")
    incoming = [b for b in S.pat_bindings(arm["pat"]) if b == "ty"]
    plain = []
    for iff in S.find(arm["body"], "If"):
        for l in S.walk(iff["cond"]):
            if l["k"] == "Let" and l["expr"]["k"] == "MethodCall" and l["expr"]["method"] == "get" and S.is_path(l["expr"]["recv"], "scope"):
                plain.append((iff, l))
    # the same decision written as a match on the lookup: the arm for a found entry must not fall back on the incoming type
    found_arms = []
    for m2 in S.find(arm["body"], "Match"):
        sc = m2["scrut"]
        if sc["k"] == "MethodCall" and sc["method"] == "get" and S.is_path(sc["recv"], "scope"):
            for a2 in m2["arms"]:
                if S.pat_head(S.strip_refs(S.pat_alts(a2["pat"])[0]))[1][-1:] == ["Some"]:
                    found_arms.append(a2)
    if not plain and found_arms:
        leaks = [a2 for a2 in found_arms if incoming and (S.idents(a2["body"]) & set(incoming))]
        built = [st for st in S.find(arm["body"], "Struct") if st["segs"][-1] == "EVar"]
        run.ob("R08.17", "transform_expr|a local of the conversion scope is typed from its scope entry", bool(built) and not leaks, site(LIFT, arm["sp"]),
               f"scope lookup decided by a match: {len(found_arms)} arm(s) for a found entry, {len(leaks)} use the incoming type",
               witness="let pair = (add_base, 7); let h = pair.0; h(1): `pair` keeps Mono's type, the call through h is not routed to the apply function")
        return
    ok = bool(plain)
    detail = "no `if let Some(entry) = scope.get(&name)`: the scope lookup is narrowed before it decides"
    if plain:
        iff, l = plain[0]
        binder = S.pat_bindings(l["pat"])
        evars = [st for st in S.find(iff["then"], "Struct") if st["segs"][-1] == "EVar"]
        leaks = []
        for st in evars:
            tf = next((fl for fl in st["fields"] if fl["name"] == "ty"), None)
            if tf is not None and incoming and S.idents(tf["expr"]) == set(incoming):
                leaks.append(st)
        ok = bool(evars) and not leaks
        detail = f"{len(evars)} variable node(s) built for a local of the scope, {len(leaks)} keep the incoming type (entry bound as {binder})"
    run.ob("R08.17", "transform_expr|a local of the conversion scope is typed from its scope entry", ok, site(LIFT, arm["sp"]), detail,
           witness="let pair = (add_base, 7); let h = pair.0; h(1): `pair` keeps Mono's type, the call through h is not routed to the apply function; "
                   "Go declares `var h func(int32) int32 = pair._0` over a struct value")


def r08_18(run, model):
    """a top-level generic function used as a value inside another generic function is specialised at the substituted use type (shared with C07 R07.20)"""
    from rules import c07
    c07.r07_20(run, model)


def r08_19(run, model):
    run.rule("R08.19", "a call has the result type its callee was given: lambda_lift rewrites the declared result of a function whose body "
                       "type contains a closure (a predicate on the type), and the call arm of transform_expr takes the callee's converted "
                       "result under the same predicate - a narrower test at the call leaves `var pair Tuple2_TFunc.. = make_scaler(3)` "
                       "against a function that returns `Tuple2_closure_env..`")
    ll = model.fn("lambda_lift", LIFT)
    te = model.fn("transform_expr", LIFT)

    def preds_on(f, what):
        out = set()
        for iff in list(S.find(f.body, "If")) + [a for m_ in S.find(f.body, "Match") for a in m_["arms"] if a.get("guard") is not None]:
            cond = iff["cond"] if iff["k"] == "If" else iff["guard"]
            t = S.norm_ws(run.facts.text(LIFT, cond["sp"]))
            if not re.search(what, t):
                continue
            for c in S.walk(cond):
                r = c["recv"] if c["k"] == "MethodCall" else None
                while r is not None and r["k"] == "Field":   # `state.closures.ty_contains_closure(..)`: the registry may be a part of the state
                    r = r["base"]
                if c["k"] == "MethodCall" and S.is_path(r, "state") and re.search(r"closure", c["method"]):
                    out.add(c["method"])
        return out
    sig = preds_on(ll, r"body_ty|ret_ty")
    call = preds_on(te, r"ret_ty")
    if not sig or not call:
        raise AnalysisIncomplete(f"lift.rs: predicates deciding result types not found (signature: {sorted(sig)}, call: {sorted(call)})")
    run.ob("R08.19", "transform_expr|the call arm converts a result type under the predicate lambda_lift uses for signatures", call == sig, site(LIFT, te.node["sp"]),
           f"signature rewriting tests {sorted(sig)}; the call arm tests {sorted(call)}",
           witness="fn make_scaler(k: int32) -> ((int32) -> int32, int32): the declaration returns Tuple2_closure_env_make_scaler_0_int32, the "
                   "variable bound to its call is declared Tuple2_TFunc_int32_int32_int32 and the apply function is pruned")


def r08_15(run, model):
    from rules import c07
    c07.r07_8(run, model, only=("EClosure",))


def r08_21(run, model):
    run.rule("R08.21", "the Go type of a field read is taken from the definition as it stands after lambda lifting: lifting rewrites a struct "
                       "field `run: (int32) -> int32` to its closure struct when it meets the first literal, so a read lifted earlier still "
                       "carries the function type on its node - where the Go back end declares the temporary of an `EConstrGet` (cexpr_ty) it "
                       "does not use the type stored on the node but the field type of the enum / struct definition in the Go environment")
    GOC = "crates/compiler/src/go/compile.rs"
    f = model.fn("cexpr_ty", GOC)
    arms = []
    for m in S.find(f.body, "Match"):
        for a in m["arms"]:
            for alt in S.pat_alts(a["pat"]):
                if alt["k"] in ("PStruct", "PTupleStruct", "PPath") and alt.get("segs") and alt["segs"][-1] == "EConstrGet":
                    arms.append((a, alt))
    if not arms:
        raise AnalysisIncomplete("cexpr_ty: no arm for EConstrGet")
    for a, alt in arms:
        binds_ty = any(fl.get("name") == "ty" and S.pat_bindings(fl["pat"]) for fl in alt.get("fields") or [])
        shared = len(S.pat_alts(a["pat"])) > 1
        reads_env = "goenv" in S.idents(a["body"]) or any(S.callee_name(c) in ("get_enum", "get_struct", "instantiate_struct_fields") for c in S.calls(a["body"]))
        ok = not binds_ty and not shared and reads_env
        run.ob("R08.21", "cexpr_ty|EConstrGet is typed from the definition", ok, site(GOC, a["sp"]),
               f"stored type bound: {binds_ty}; arm shared with other forms: {shared}; consults the Go environment: {reads_env}",
               witness="fn call_it(h: Handler) -> int32 { let f = h.run; f(1) } placed above the function that builds Handler { run: |x| x + n }: "
                       "`var t5 func(int32) int32 = h__0.run` while the field is declared `run closure_env_bump_0`")


def run(run, model):
    # the renamer that respells locals for Go visits every operand: an operand it leaves alone (the closure of `go worker`) keeps the internal
    # spelling while its declaration is renamed (shared with C01 R01.3, restricted to the ANF renamer)
    from rules import c01 as _c01r
    from lib import passes as _P
    run.try_rule(_c01r.r01_3, model, _P.discover(model), (r"::rename_",))
    run.try_rule(r08_10, model)
    run.try_rule(r08_12, model)
    run.try_rule(r08_13, model)
    run.try_rule(r08_14, model)
    from rules import c19
    run.rule("R08.9", "captured variables get distinct environment fields (shared with C19 R19.6)")
    run.try_rule(c19.r19_6, model)
    run.try_rule(r08_7, model)
    from rules import c01
    from lib import passes as P
    run.rule("R08.11", "the capture walk visits every sub-term and traverses child collections whole (shared with C01 R01.3, restricted to collect_captured)")
    try:
        run.try_rule(c01.r01_3, model, P.discover(model, include_pprint=False), (r"collect_captured",))
    except AnalysisIncomplete as e:
        run.skipped.append({"rule_fn": "r01_3", "reason": str(e)})
    run.try_rule(r08_8, model)
    run.try_rule(r08_21, model)
    run.rule("R08.20", "a closure literal is lifted from its own body, never answered from another occurrence's record (shared with C01 R01.12)")
    run.try_rule(c01.r01_12, model)
    run.try_rule(r08_5, model)
    from rules import c07
    run.rule("R08.6", "the closure-type predicates and rewriters of lift.rs are structural over every type former (shared with C07 R07.2, restricted to lift.rs)")
    run.try_rule(c07.r07_2, model, LIFT)
    # lifting takes the apply function's signature from the closure's type: a closure inside a generic function whose type was not
    # instantiated gives an apply function declared `-> T` (shared with C07 R07.8, closure nodes only)
    run.try_rule(r08_15, model)
    run.try_rule(r08_16, model)
    run.try_rule(r08_17, model)
    run.try_rule(r08_18, model)
    run.try_rule(r08_19, model)
    run.try_rule(r08_1, model)
    # the capture walk visits a sub-term whatever its shape (shared with C01 R01.14, restricted to lift.rs)
    from rules import c01 as _c01w
    run.try_rule(_c01w.r01_14, model, "R08.22", r"/lift\.rs$")
    run.try_rule(r08_2, model)
    run.try_rule(r08_3, model)
    from rules import c05
    run.rule("R08.4", "scope layers are paired (lift::Scope push_layer/pop_layer): shared with C05 R05.3")
    run.try_rule(c05.paired_in_block, model, LIFT, "R08.4")
    # lambda lifting records a function's converted type after converting it: packages reach it dependency-first in the linked
    # program as in the whole-program pipeline (shared with C14 R14.1), and a `go` in value position keeps its mode (shared with C01 R01.10)
    from rules import c14 as _c14b, c01 as _c01b
    run.try_rule(_c14b.r14_1, model)
    run.try_rule(_c01b.r01_10, model)
    run.assume("flow of function values (through Vec/Ref/tuples/branches/arguments) is outside this check; see the known finding recorded for ty_contains_closure under C07")
