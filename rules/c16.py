"""C16 Packages are isolated by imports and trait implementations are coherent."""
import re
from lib import syn as S
from lib.mir import Mir, callee_tail
from lib.core import AnalysisIncomplete, site

EXPLANATION = (
    "Static decision of the isolation/coherence gates. R16.1: every conversion of a user-written path into a package-qualified "
    "HIR path in name resolution (resolved From/Into calls, E1) is followed by a package_allowed test that reports an error, and no "
    "user-written type is lowered through the unchecked From<&ast::TypeExpr> conversion. R16.2: cycle, missing-import and "
    "package-declaration-mismatch conditions dominate an Err return. R16.3: the trait-impl table is written only by "
    "define_trait_impl (after the orphan and duplicate tests) and PackageExports::apply_to, and every multi-package merge is "
    "preceded in the same loop body by the cross-package duplicate test. R16.4: the orphan predicate rejects exactly when neither "
    "the trait nor the type is local to the current package. R16.5: the dependency environments handed to a package's type-check "
    "are built only from that package's own imports. Not decided: that these gates suffice for coherence over all package graphs.")

NR = "crates/compiler/src/typer/name_resolution.rs"
PK = "crates/compiler/src/pipeline/packages.rs"
PL = "crates/compiler/src/pipeline/pipeline.rs"
SEP = "crates/compiler/src/pipeline/separate.rs"
TL = "crates/compiler/src/typer/toplevel.rs"


def enclosing(model, rel, line):
    best = None
    for f in model.fns(rel, include_tests=True):
        sp = f.node["sp"]
        if sp[0] <= line <= sp[2] and (best is None or best.node["sp"][0] <= sp[0]):
            best = f
    return best


def reports_error(node):
    """block pushes an error diagnostic / calls self.error"""
    for c in S.calls(node):
        if S.callee_name(c) in ("error", "push_error", "push", "push_ice", "ice"):
            return True
    return False


def r16_1(run, model, mir):
    run.rule("R16.1", "every user-written path converted to a package-qualified HIR path is import-checked: the conversion is followed, "
                      "in the same block, by a package_allowed test on that path's package that reports an error; user-written types "
                      "are never lowered through the unchecked From<&ast::TypeExpr> conversion")
    conv_q, conv_t, control = [], [], 0
    for c in mir.calls:
        if callee_tail(c["callee"]) not in ("into", "from"):
            continue
        if not c["args"]:
            continue
        a0 = c["args"][0]
        if c["ret"] == "hir::TypeExpr" and "ast::ast::TypeExpr" in a0:
            if c["file"].endswith("/hir.rs"):
                control += 1
            else:
                conv_t.append(c)
        if c["ret"] == "hir::QualifiedPath" and "ast::ast::Path" in a0 and not c["file"].endswith("/hir.rs"):
            conv_q.append(c)
    run.floor("positive control: unchecked TypeExpr conversions recognised inside the From impl itself", control, 3)
    run.floor("qualified-path conversion sites in name resolution", len(conv_q), 5)
    for c in conv_t:
        f = enclosing(model, c["file"], c["line"])
        if f is not None and f.test:
            continue
        run.ob("R16.1", f"{f.qual if f else c['file']}|unchecked TypeExpr conversion", False, site(c["file"], [c["line"]]),
               "a user-written type is lowered with From<&ast::TypeExpr> (no package_allowed test on its paths)",
               witness="`let t: B::T = A::make();` in a package that imports only A is accepted")
    run.ob("R16.1", "name resolution|no unchecked TypeExpr conversion outside hir.rs", True, None,
           f"{len(conv_t)} unchecked conversions outside the From impl; {control} control sites recognised")
    seen = {}
    for c in conv_q:
        rel = c["file"]
        f = enclosing(model, rel, c["line"])
        if f is None or f.test:
            continue
        # the let that binds the qualified path
        loc = None
        for l in S.find(f.body, "Local"):
            if l.get("init") and l["sp"][0] <= c["line"] <= l["sp"][2] and l["pat"]["k"] == "PIdent":
                if loc is None or S.span_contains(loc["sp"], l["sp"]):
                    loc = l
        idx = seen.get(f.qual, 0)
        seen[f.qual] = idx + 1
        key = f"{f.qual}|qualified path #{idx}"
        if loc is None:
            run.ob("R16.1", key, False, site(rel, [c["line"]]), "qualified path is not bound to a local that could be import-checked")
            continue
        var = loc["pat"]["name"]
        par = S.Parents(f.body)
        blk = par.parent(loc)
        ok = False
        detail = f"`{var}` (hir::QualifiedPath) is never import-checked"
        if blk is not None and blk["k"] == "Block":
            stmts = blk["stmts"]
            i = next(j for j, s in enumerate(stmts) if s is loc)
            for s in stmts[i + 1:]:
                for iff in S.find(s, "If"):
                    cond_ids = S.idents(iff["cond"])
                    calls_pa = [x for x in S.calls(iff["cond"], "package_allowed")]
                    if var in cond_ids and calls_pa:
                        txt = S.norm_ws(run.facts.text(rel, iff["cond"]["sp"]))
                        negated = "!ctx.package_allowed(" in txt or "!package_allowed(" in txt or "!self.package_allowed(" in txt
                        if negated and reports_error(iff["then"]):
                            ok = True
                            detail = f"`{var}.package` is tested with package_allowed and an error is reported"
                        else:
                            detail = f"package_allowed test on `{var}` does not report an error on failure"
                if ok:
                    break
        run.ob("R16.1", key, ok, site(rel, [c["line"]]), detail,
               witness="a struct literal / pattern / type / trait path into a package that is not imported is accepted")
    # expression paths with >=2 segments: the import test in the EPath arm
    f = model.fn("resolve_expr", NR, impl="NameResolution")
    ok = False
    n_tests = 0
    for iff in S.find(f.body, "If"):
        # the condition as a formula over four questions about `package` (boolean locals are read as what they abbreviate): it must
        # reject a dependency that is neither the current package, nor Builtin, nor imported - and nothing that is imported
        cond = S.expand_bool_locals(iff["cond"], f.body)
        kinds = {}
        for a_ in S.bool_atoms(cond):
            t_ = S.norm_ws(run.facts.text(NR, a_["sp"])) if a_.get("sp") else ""
            m_ = re.fullmatch(r"package(==|!=)(?:ctx\.|self\.)?current_package|(?:ctx\.|self\.)?current_package(==|!=)package", t_)
            if m_:
                kinds[id(a_)] = ("own", (m_.group(1) or m_.group(2)) == "==")
            elif re.fullmatch(r'package(==|!=)"Builtin"', t_):
                kinds[id(a_)] = ("builtin", "==" in t_)
            elif re.fullmatch(r"(?:ctx\.|self\.)?deps\.contains_key\(package\)", t_):
                kinds[id(a_)] = ("dep", True)
            elif re.fullmatch(r"(?:ctx\.|self\.)?imports\.contains\(package\)", t_):
                kinds[id(a_)] = ("imp", True)
        if not any(v[0] == "imp" for v in kinds.values()) or not reports_error(iff["then"]):
            continue
        n_tests += 1

        def val(env, other):
            def atom(a_):
                kv = kinds.get(id(a_))
                if kv is None:
                    return other
                return env[kv[0]] if kv[1] else (not env[kv[0]])
            return S.bool_eval(cond, atom)
        essential = {"own": False, "builtin": False, "dep": True, "imp": False}
        rejects = any(val(essential, o) for o in (True, False))
        spares = True
        for own in (True, False):
            for bi in (True, False):
                for dep in (True, False):
                    if any(val({"own": own, "builtin": bi, "dep": dep, "imp": True}, o) for o in (True, False)):
                        spares = False
        if rejects and spares:
            ok = True
    run.ob("R16.1", "resolve_expr|EPath multi-segment|import test", ok, site(NR, f.node["sp"]),
           "multi-segment expression paths: a dependency that is not imported is reported ('package not imported'), an imported one never" if ok else
           f"no import test for multi-segment expression paths that rejects exactly the unimported dependencies ({n_tests} candidate tests)")
    pa = [x for x in model.fns(NR) if x.name == "package_allowed"]
    run.floor("package_allowed predicates", len(pa), 1)
    for x in pa:
        txt = S.norm_ws(run.facts.text(NR, x.body["sp"]))
        ok = "imports.contains(package)" in txt and "current_package" in txt and "||" in txt and "&&" not in txt and "true" not in txt
        if not ok:
            # a predicate that hands its question to another predicate of the same name (method -> free function) asks the same question
            st_ = x.body["stmts"]
            tail = st_[0]["expr"] if len(st_) == 1 and st_[0]["k"] == "ExprStmt" and not st_[0].get("semi") else None
            if tail is not None and tail["k"] == "Call" and S.callee_name(tail) == "package_allowed" and len(pa) > 1 and \
                    {"package", "current_package", "imports"} <= S.idents(tail) | {m_.get("member") for m_ in S.walk(tail) if m_["k"] == "Field"}:
                ok = True
        run.ob("R16.1", f"{x.qual}|predicate", ok, site(NR, x.node["sp"]), f"package_allowed body: {txt[:120]}")


def r16_2(run, model):
    run.rule("R16.2", "package-graph errors are errors: a node already on the DFS stack (cycle), an import absent from the graph, a "
                      "directory declaring another package name and files of one directory declaring different packages each reach "
                      "`return Err(..)`")
    f = model.fn("visit_package", PK)

    def if_returns_err(fn_, pred, what, witness):
        hit = None
        # the test may sit in a private helper of fn_ (same file, one level): the obligation stays fn_'s
        for g_, iff in [(g_, i_) for g_ in model.scope_fns(fn_) if g_.body is not None for i_ in S.find(g_.body, "If")]:
            txt = S.norm_ws(run.facts.text(fn_.file, iff["cond"]["sp"]))
            # a condition named by a boolean local (`let declares_requested_name = package.name == package_name; if !declares_requested_name`)
            # is the condition: `!(a==b)` is read as `a!=b`
            txt1 = S.text_with_locals(run.facts, fn_.file, iff["cond"], g_.body, 1).replace(" ", "")
            mneg = re.fullmatch(r"!\(([^()&|]+)==([^()&|]+)\)", txt1)
            if mneg:
                txt1 = f"{mneg.group(1)}!={mneg.group(2)}"
            if pred(txt) or pred(txt1):
                rets = [r for r in S.find(iff["then"], "Return") if r.get("expr") and r["expr"]["k"] == "Call" and S.callee_name(r["expr"]) == "Err"]
                hit = bool(rets)
                if hit:
                    break
        run.ob("R16.2", f"{fn_.qual}|{what}", bool(hit), site(fn_.file, fn_.node["sp"]),
               f"condition for `{what}` {'returns Err' if hit else ('does not return Err' if hit is not None else 'not found')}", witness=witness)

    # the temporary mark: the set that is inserted into before the recursive visit and removed from after it
    ins = {S.norm_ws(run.facts.text(PK, c["recv"]["sp"])) for c in S.walk(f.body) if c["k"] == "MethodCall" and c["method"] == "insert"}
    rem = {S.norm_ws(run.facts.text(PK, c["recv"]["sp"])) for c in S.walk(f.body) if c["k"] == "MethodCall" and c["method"] == "remove"}
    marks = sorted(ins & rem)
    if not marks:
        raise AnalysisIncomplete("visit_package: no set that is both inserted into and removed from (temporary DFS mark)")
    mark = marks[0]
    if_returns_err(f, lambda t: re.fullmatch(re.escape(mark) + r"\.contains\(&?\w+\)", t) is not None, "cycle", "A imports B imports A: the walk recurses forever or accepts")
    if_returns_err(f, lambda t: t.startswith("!") and "packages.contains_key" in t, "missing import", "an import of a package that was not discovered is ignored")
    # the temp mark is set before recursing and cleared after
    body_txt = S.norm_ws(run.facts.text(PK, f.body["sp"]))
    order_ok = 0 <= body_txt.find(mark + ".insert(") < body_txt.find(f.name + "(") < body_txt.find(mark + ".remove(")
    run.ob("R16.2", f"{f.qual}|temporary mark brackets the recursion", order_ok, site(PK, f.node["sp"]),
           "temp.insert precedes the recursive visit and temp.remove follows it" if order_ok else "temporary mark is not set around the recursion")
    d = model.fn("discover_packages_with_layout", PK)
    if_returns_err(d, lambda t: re.search(r"(^|[^\w.])package\.name!=\w+($|[^\w.(])|(^|[^\w.])\w+!=package\.name($|[^\w.(])|declared_name!=\w+", t.replace(" ", "")) is not None,
                   "declared name equals directory name", "directory Lib/ containing `package Other` is loaded as Lib")
    if_returns_err(d, lambda t: "entry_name!=" in t and "root_package_name" in t, "root declares the root package", "root directory declaring another package is accepted")
    # load_package: every file is compared with the package name established so far
    lp = model.fn("load_package", PK)
    ok = False
    detail = "no per-file package comparison found"
    for loop in S.find(lp.body, "For"):
        if "read_gom_sources" not in S.norm_ws(run.facts.text(PK, loop["iter"]["sp"])) and not any(True for _ in S.calls(loop["body"], "parse_ast_file")):
            continue
        # the comparison is an `if` or the guard of a match arm
        tests = [(iff["cond"], iff["then"], iff, None) for iff in S.find(loop["body"], "If")]
        for mt in S.find(loop["body"], "Match"):
            for arm in mt["arms"]:
                if arm.get("guard") is not None:
                    tests.append((arm["guard"], arm["body"], arm, mt))
        for cond_n, taken, iff, mt in tests:
            # (one level of named operands: `declared` is `&ast.package.0`; `ast` itself stays the parsed file)
            m = None
            for depth_ in (1, 2, 0):
                txt = S.text_with_locals(run.facts, PK, cond_n, lp.body, depth_) if depth_ else S.norm_ws(run.facts.text(PK, cond_n["sp"]))
                m = re.search(r"package\.0\)?!=&?([A-Za-z_]+)|([A-Za-z_]+)!=\(?&?ast\.package\.0", txt)
                if m:
                    break
            if not m:
                continue
            rets = [r for r in S.find(taken, "Return")]
            if not rets:
                detail = "package mismatch does not return Err"
                continue
            existing = m.group(1) or m.group(2)
            # `existing` comes from `if let Some(existing) = &V` (or `match &V { Some(existing) if .. }`); V must be (re)established
            # inside the loop for files after the first
            par = S.Parents(loop["body"])
            guard_var = None
            if mt is not None and existing in S.pat_bindings(iff["pat"]):
                ids = S.idents(mt["scrut"])
                guard_var = sorted(ids)[0] if ids else None
            for a in par.ancestors(iff):
                if a["k"] == "If":
                    for l in S.find(a["cond"], "Let"):
                        if existing in S.pat_bindings(l["pat"]):
                            ids = S.idents(l["expr"])
                            guard_var = sorted(ids)[0] if ids else None
            if guard_var is None:
                guard_var = existing
            assigned_in_loop = any(n["k"] == "Assign" and S.is_path(n["left"], guard_var) for n in S.walk(loop["body"]))
            ok = assigned_in_loop
            detail = (f"each file's package is compared with `{guard_var}`, which the loop establishes from the first file" if ok else
                      f"files are compared with `{guard_var}`, which is never set inside the loop: in directories without an entry file nothing is compared")
    run.ob("R16.2", f"{lp.qual}|all files of a directory declare one package", ok, site(PK, lp.node["sp"]), detail,
           witness="Lib/b.gom declaring `package Main` injects unqualified definitions into Main")


def r16_3(run, model, mir):
    run.rule("R16.3", "the trait-impl table is written only by define_trait_impl (after orphan and duplicate tests that return) and by "
                      "PackageExports::apply_to; each multi-package merge loop tests for a cross-package duplicate before apply_to")
    writers = {}
    for c in mir.calls:
        if callee_tail(c["callee"]) in ("insert", "insert_full", "entry", "extend", "shift_insert") and c["args"] and \
                re.search(r"&mut indexmap::IndexMap<\(std::string::String, tast::Ty\), env::ImplDef", c["args"][0]):
            if "/tests/" in c["file"]:
                continue
            f = enclosing(model, c["file"], c["line"])
            if f is None or f.test:
                continue
            writers.setdefault(f.qual, (f, c))
    run.floor("writers of trait_impls found (E1)", len(writers), 2)
    allowed = {"define_trait_impl", "apply_to"}
    for q, (f, c) in sorted(writers.items()):
        run.ob("R16.3", f"{q}|may write trait_impls", f.name in allowed, site(f.file, [c["line"]]),
               f"{q} inserts into trait_env.trait_impls", witness="an impl registered without the orphan/duplicate tests")
    d = model.fn("define_trait_impl", TL)
    # position of the insert statement and the two guards among the top-level statements
    stmts = d.body["stmts"]
    ins = None
    for i, s in enumerate(stmts):
        t = S.norm_ws(run.facts.text(TL, s["sp"]))
        if "trait_impls.insert(" in t or ".trait_impls.insert(" in t.replace("\n", ""):
            ins = i
    guards = {"orphan": None, "duplicate": None}
    for i, s in enumerate(stmts):
        if s["k"] == "ExprStmt" and s["expr"]["k"] == "If":
            iff = s["expr"]
            t = S.norm_ws(run.facts.text(TL, iff["cond"]["sp"]))
            has_ret = any(r for r in S.find(iff["then"], "Return")) and reports_error(iff["then"])
            if "trait_impls.contains_key(" in t and not t.startswith("!") and has_ret:
                guards["duplicate"] = i
            if re.fullmatch(r"!([a-z_]+)&&!([a-z_]+)", t) and has_ret:
                guards["orphan"] = i
    # the duplicate test has to consult the table the insert writes (modulo current()/current_mut()): testing another environment
    # (e.g. the one the trait was found in) never sees this package's own earlier impl
    def _table(txt, op):
        m_ = re.search(r"([A-Za-z_]\w*(?:\s*\.\s*\w+(?:\(\))?)*)\s*\.\s*trait_impls\s*\.\s*" + op + r"\s*\(", txt)
        return re.sub(r"\s+", "", m_.group(1)).replace("current_mut()", "current()") if m_ else None
    t_ins = _table(run.facts.text(TL, d.body["sp"]), "insert")
    t_dup = None
    if guards["duplicate"] is not None:
        t_dup = _table(run.facts.text(TL, stmts[guards["duplicate"]]["expr"]["cond"]["sp"]), "contains_key")
    run.ob("R16.3", "define_trait_impl|duplicate test reads the table the insert writes", t_ins is not None and t_ins == t_dup, site(TL, d.node["sp"]),
           f"insert into `{t_ins}.trait_impls`, duplicate test on `{t_dup}.trait_impls`",
           witness="a second `impl TraitPkg::Show for Item` in the same package is accepted and replaces the first: the meaning of a call depends on file order")
    for g, i in guards.items():
        ok = ins is not None and i is not None and i < ins
        run.ob("R16.3", f"define_trait_impl|{g} test returns before the insert", ok, site(TL, d.node["sp"]),
               f"{g} guard at top-level statement {i}, insert at {ins}",
               witness="a second impl of the same (trait, type) silently replaces the first" if g == "duplicate" else "an impl of a foreign trait for a foreign type is registered")
    # merges
    n = 0
    for rel in (PL, SEP):
        for f in model.fns(rel):
            if f.body is None:
                continue
            for loop in S.find(f.body, "For"):
                stmts = loop["body"]["stmts"]
                ap = [i for i, s in enumerate(stmts) if s["k"] == "ExprStmt" and any(True for _ in S.calls(s, "apply_to"))
                      and not any(x["k"] == "For" for x in S.walk(s))]
                if not ap:
                    continue
                # project-wide merges only: the loop walks the topological order of all packages (a variable bound from
                # topo_sort*).  Loops over one package's own deps build a private view for match compilation.
                it_ids = S.idents(loop["iter"])
                topo_vars = {l["pat"]["name"] for l in S.find(f.body, "Local") if l["pat"]["k"] == "PIdent" and l.get("init")
                             and any(True for _ in S.calls(l["init"], "topo_sort", "topo_sort_packages"))}
                if not (it_ids & topo_vars):
                    continue
                n += 1
                first_ap = ap[0]
                dup = False
                def dup_test_in(node):
                    for inner in S.find(node, "For"):
                        it = S.norm_ws(run.facts.text(rel, inner["iter"]["sp"]))
                        if "trait_impls" in it:
                            for iff in S.find(inner["body"], "If"):
                                ct = S.norm_ws(run.facts.text(rel, iff["cond"]["sp"]))
                                if "trait_impls.contains_key(" in ct and not ct.startswith("!") and (reports_error(iff["then"]) or any(True for _ in S.find(iff["then"], "Return"))):
                                    return True
                                # the guard form: `if !table.contains_key(key) { continue; }` followed by the report
                                if "trait_impls.contains_key(" in ct and ct.startswith("!") and iff.get("else") is None and \
                                        any(True for _ in S.find(iff["then"], "Continue")):
                                    stmts_ = inner["body"]["stmts"]
                                    pos_ = next((i_ for i_, s_ in enumerate(stmts_) if S.span_contains(s_["sp"], iff["sp"])), None)
                                    if pos_ is not None and any(reports_error(s_) or any(True for _ in S.find(s_, "Return")) for s_ in stmts_[pos_ + 1:]):
                                        return True
                    return False
                helpers = {g.name: g for g in model.fns(rel) if g.body is not None and g.name != f.name}
                for s in stmts[:first_ap]:
                    if dup_test_in(s):
                        dup = True
                    # the test may live in a helper of the same file called here
                    for c in S.walk(s):
                        if c["k"] in ("Call", "MethodCall") and S.callee_name(c) in helpers and dup_test_in(helpers[S.callee_name(c)].body):
                            dup = True
                run.ob("R16.3", f"{f.qual}|duplicate test precedes apply_to", dup, site(rel, loop["sp"]),
                       "merge loop tests genv.trait_env.trait_impls.contains_key(key) for every exported impl before apply_to" if dup else
                       "exports are merged into the shared environment without the cross-package duplicate test",
                       witness="sibling packages both implement Show for the same type; which one a call means depends on merge order")
    run.floor("multi-package merge loops", n, 3)


def r16_4(run, model):
    run.rule("R16.4", "the orphan test rejects exactly when neither the trait nor the implementing type is local, both locality flags "
                      "being computed against the current package")
    d = model.fn("define_trait_impl", TL)
    locs = {}
    for l in S.find(d.body, "Local"):
        if l["pat"]["k"] == "PIdent" and l.get("init") and l["init"]["k"] == "Call":
            cn = S.callee_name(l["init"])
            if cn in ("is_local_name", "is_local_nominal_type"):
                a0 = S.norm_ws(run.facts.text(TL, l["init"]["args"][0]["sp"])) if l["init"]["args"] else ""
                locs[l["pat"]["name"]] = (cn, a0)
    ok = len(locs) == 2 and {v[0] for v in locs.values()} == {"is_local_name", "is_local_nominal_type"} and all(v[1] in ("&env.package", "env.package.as_str()", "&env.package.clone()") for v in locs.values())
    run.ob("R16.4", "define_trait_impl|locality flags", ok, site(TL, d.node["sp"]), f"locality flags: {locs}")
    for name in ("is_local_name", "is_local_nominal_type"):
        f = model.fn(name, TL)
        txt = S.norm_ws(run.facts.text(TL, f.body["sp"]))
        if name == "is_local_name":
            ok = "package==current_package" in txt or "current_package==package" in txt
        else:
            ok = "is_local_name(current_package,name)" in txt and "_=>false" in txt
        run.ob("R16.4", f"{name}|definition", ok, site(TL, f.node["sp"]), txt[:160])


def r16_5(run, model):
    run.rule("R16.5", "the dependency environments and interfaces handed to a package's type-check are inserted only inside loops over "
                      "that package's own (sorted) imports")
    n = 0
    targets = ("typecheck_package", "typecheck_single_package", "typecheck_package_with_results", "build_package")
    for rel in (PL, SEP):
        for f in model.fns(rel):
            if f.body is None:
                continue
            callsites = [c for c in S.calls(f.body, *targets) if c["k"] == "Call"]
            if not callsites:
                continue
            argvars = set()
            for c in callsites:
                for a in c["args"]:
                    ids = S.idents(a)
                    argvars |= {i for i in ids if re.search(r"deps?_(envs|interfaces)|interfaces|envs", i)}
            if not argvars:
                continue
            par = S.Parents(f.body)
            # variables derived from imports
            derived = set()
            for l in S.find(f.body, "Local"):
                if l["pat"]["k"] == "PIdent" and l.get("init"):
                    t = S.norm_ws(run.facts.text(rel, l["init"]["sp"]))
                    if re.search(r"(^|[^a-z_])imports(\.|$)", t) or ".imports." in t:
                        derived.add(l["pat"]["name"])
            for ins in S.calls(f.body, "insert", "extend", "entry", "push", "append", "insert_full", "extend_from_slice"):
                if ins["k"] != "MethodCall" or not S.is_path(ins["recv"]) or ins["recv"]["segs"][0] not in argvars:
                    continue
                n += 1
                loops = [a for a in par.ancestors(ins) if a["k"] == "For"]
                ok = False
                why = "insert is not inside a loop over the package's imports"
                if loops:
                    it_ids = S.idents(loops[0]["iter"])
                    it_txt = S.norm_ws(run.facts.text(rel, loops[0]["iter"]["sp"]))
                    if it_ids & derived or ".imports" in it_txt:
                        ok = True
                        why = f"inside `for … in {it_txt}` (derived from the package's imports)"
                    else:
                        why = f"inside `for … in {it_txt}`, which is not derived from the package's imports"
                var = ins["recv"]["segs"][0]
                run.ob("R16.5", f"{f.qual}|{var}.{ins['method']}", ok, site(rel, ins["sp"]), why,
                       witness="Main -> A -> B: Main can use B::… without importing B, and acceptance depends on type-check order")
    run.floor("dependency-environment inserts", n, 6)


def r16_7(run, model):
    run.rule("R16.7", "dependency edges are the imports as written: between collect_imports and the PackageUnit nothing removes a name from the "
                      "import set (a self-import is a cycle of length one and must reach the cycle check); and every core named on the link "
                      "command line reaches link_cores, which owns the duplicate test (no filtering in the CLI)")
    PK = "crates/compiler/src/pipeline/packages.rs"
    f = model.fn("load_package", PK)
    removers = sorted({c["method"] for c in S.walk(f.body) if c["k"] == "MethodCall" and c["method"] in ("remove", "retain", "swap_remove", "shift_remove", "drain", "clear", "difference")
                       and "imports" in S.norm_ws(run.facts.text(PK, c["recv"]["sp"]))})
    bound = [l for l in S.find(f.body, "Local") if l["pat"]["k"] == "PIdent" and l["pat"]["name"] == "imports"]
    if not bound:
        raise AnalysisIncomplete("load_package: `imports` local not found")
    filt = any(re.search(r"\.filter\(|\.retain\(", S.norm_ws(run.facts.text(PK, l["init"]["sp"]))) for l in bound if l.get("init") is not None)
    run.ob("R16.7", "load_package|import set is not edited", not removers and not filt, site(PK, bound[0]["sp"]),
           f"operations that drop imports: {removers or 'none'}; filtered at construction: {filt}",
           witness="package Lib; import Lib; is accepted: the self edge never reaches the cycle detection")
    MAIN = "crates/compiler/src/main.rs"
    g = model.opt_fn("execute_link", MAIN)
    if g is None or g.body is None:
        raise AnalysisIncomplete("execute_link not found")
    for loop in S.find(g.body, "For"):
        pushes = [c for c in S.walk(loop["body"]) if c["k"] == "MethodCall" and c["method"] == "push"]
        if not pushes:
            continue
        skips = [x for x in S.walk_no_closures(loop["body"]) if x["k"] in ("Continue", "Break")]
        par = S.Parents(loop["body"])
        cond = [c for c in pushes if any(a["k"] in ("If", "Match") for a in par.ancestors(c))]
        run.ob("R16.7", "execute_link|every input core reaches link_cores", not skips and not cond, site(MAIN, loop["sp"]),
               f"{len(skips)} continue/break, {len(cond)} conditional pushes in the loop that collects the cores",
               witness="link old/Lib.core new/Lib.core Main.core: two builds of Lib that differ only in bodies have one interface hash; the second is dropped silently, argument order decides what Lib::greet() returns")


def r16_8(run, model):
    from rules import c17
    run.rule("R16.8", "what a call means does not depend on the order in which the files of a package are loaded: define_function adds a "
                      "function to the package's function table only after testing that the name is not there, and inherent methods "
                      "likewise (shared with C17 R17.10)")
    n = c17.unique_definition(run, model, "R16.8", "define_function", ".funcs", "function table",
                              "main.gom and util.gom of package Main both define fn bonus(): no diagnostic; the entry file's definition loses, "
                              "so `compiler run main.gom` and `compiler run util.gom` print different numbers")
    n += c17.unique_definition(run, model, "R16.8", "define_inherent_impl", ".methods", "inherent method table",
                               "two files of one package both contain impl P { fn get(self: P) -> int32 }: the later loaded block silently wins")
    # an extern declaration enters the same table through register_extern_function
    f = model.fn("define_extern_go", "crates/compiler/src/typer/toplevel.rs")
    regs = [c for c in S.walk(f.body) if c["k"] == "MethodCall" and c["method"] == "register_extern_function"]
    if not regs:
        raise AnalysisIncomplete("define_extern_go: register_extern_function call not found")
    guarded = False
    for iff in S.find(f.body, "If"):
        ct = S.norm_ws(run.facts.text(f.file, iff["cond"]["sp"]))
        if re.search(r"\.funcs\.contains_key\(", ct) and not ct.startswith("!") and any(x["k"] == "Return" for x in S.walk(iff["then"])) \
                and (iff["sp"][0], iff["sp"][1]) < (regs[0]["sp"][0], regs[0]["sp"][1]):
            guarded = True
    run.ob("R16.8", "define_extern_go|extern function registration rejects an existing name", guarded, site(f.file, regs[0]["sp"]),
           "a rejecting contains_key test on the function table precedes register_extern_function" if guarded else "register_extern_function overwrites whatever the table holds",
           witness="extern \"go\" \"strings\" ref_get(a: string) -> string replaces the builtin's type; the back end still lowers ref_get by name and panics")
    n += 1
    n += c17.unique_definition(run, model, "R16.8", "define_extern_builtin", ".funcs", "function table",
                               "#[builtin] extern fn ref_get(x: int32) -> int32 in user code replaces the prelude entry; the back end lowers ref_get by name and panics")
    run.floor("writes to the function and method tables examined", n, 4)


def no_import_skipped(run, model, rule):
    """check_package / build_package: the loop over the package's imports resolves every import to an interface or returns an error"""
    SEP = "crates/compiler/src/pipeline/separate.rs"
    n = 0
    for name in ("check_package", "build_package"):
        f = model.fn(name, SEP)
        loops = [l for l in S.find(model.inlined_body(f), "For") if any(True for _ in S.calls(l["body"], "load_interface_from_paths"))]
        if not loops:
            raise AnalysisIncomplete(f"{name}: loop that loads the interfaces of the imports not found")
        for loop in loops:
            n += 1
            inner_loops = list(S.find(loop["body"], "For", "While", "Loop"))
            skips = [c for c in S.walk_no_closures(loop["body"]) if c["k"] == "Continue" and not any(S.span_contains(l2["sp"], c["sp"]) for l2 in inner_loops)]
            conds = []
            par = S.Parents(loop["body"])
            for c in skips:
                for a in par.ancestors(c):
                    if a["k"] == "If":
                        conds.append(S.norm_ws(run.facts.text(SEP, a["cond"]["sp"])))
                        break
            run.ob(rule, f"{name}|every import is resolved to an interface or rejected", not skips, site(SEP, (skips or [loop])[0]["sp"]),
                   f"imports skipped without a diagnostic when: {conds}" if skips else "no `continue` in the loop over the imports",
                   witness="package Lib / import Lib (a cycle of length 1) and import Builtin (no such package): `run` reports a dependency cycle / "
                           "a missing package directory, check + build + link accept the project")
    run.floor("import loops of the separate pipeline examined", n, 2)


def r16_9(run, model):
    run.rule("R16.9", "missing packages and import cycles are errors in the separate pipeline too: check_package and build_package skip no import")
    no_import_skipped(run, model, "R16.9")


def r16_10(run, model):
    run.rule("R16.10", "a package's own extern type keeps its foreign name: name resolution qualifies the goml name of an extern type with its "
                       "package (`Lib::Time`), so the Go-side name stored next to it is derived without the qualifier (or given "
                       "separately) - the back end prints `<alias>.<go_name>`")
    from rules import c07
    ENV = "crates/compiler/src/env.rs"
    f = model.fn("register_extern_type", ENV, impl="TypeEnv")
    lits = [st for st in S.walk(f.body) if st["k"] == "Struct" and st["segs"][-1] == "ExternType"]
    if not lits:
        raise AnalysisIncomplete("register_extern_type: ExternType literal not found")
    keyparams = [p["pat"]["name"] for p in f.params() if not p["self"] and p["pat"]["k"] == "PIdent"]
    for st in lits:
        fl = next((x for x in st["fields"] if x["name"] == "go_name"), None)
        if fl is None:
            raise AnalysisIncomplete("ExternType literal without go_name")
        e = fl["expr"]
        chain = [S.norm_ws(run.facts.text(ENV, e["sp"]))]
        for i in S.idents(e):
            chain += c07._origin_chain(run, f, ENV, st, i)
        src = " <- ".join(chain)
        stripped = re.search(r"r?split(_once)?\(\"::\"\)|rfind\(\"::\"\)|strip_prefix", src) is not None
        other_param = len(keyparams) > 1 and any(p in S.idents(e) for p in keyparams[1:])
        run.ob("R16.10", "register_extern_type|Go name of an extern type carries no package qualifier", stripped or other_param, site(ENV, st["sp"]),
               f"go_name = {src[:120]}",
               witness="package Lib { extern type Time; extern \"go\" \"time\" now() -> Time }: the output contains `type _goml_Lib_x3a__x3a_Time = time.Lib::Time`, which is not Go")


def r16_11(run, model):
    run.rule("R16.11", "a mismatched package declaration is an error in the separate pipeline: in read_source_files the test that rejects a "
                       "file holds whenever the file's declared package differs from the package being compiled, whatever else the "
                       "condition mentions (no exemption for particular package names)")
    SEP = "crates/compiler/src/pipeline/separate.rs"
    f = model.fn("read_source_files", SEP)
    import itertools
    n = 0
    for iff in S.find(f.body, "If"):
        ct = S.norm_ws(run.facts.text(SEP, iff["cond"]["sp"]))
        if "package" not in ct or not any(r.get("expr") is not None and S.callee_name(r["expr"]) == "Err" for r in S.find(iff["then"], "Return")):
            continue
        atoms = S.bool_atoms(iff["cond"])
        texts = sorted({S.norm_ws(run.facts.text(SEP, a["sp"])) for a in atoms})
        main = [t for t in texts if re.fullmatch(r"ast\.package\.0!=&?package|&?package!=ast\.package\.0", t)]
        if not main:
            continue
        n += 1
        ok, counter = True, None
        for vals in itertools.product([False, True], repeat=len(texts)):
            env = dict(zip(texts, vals))
            if not env[main[0]]:
                continue
            if not S.bool_eval(iff["cond"], lambda a: env[S.norm_ws(run.facts.text(SEP, a["sp"]))]):
                ok, counter = False, env
                break
        run.ob("R16.11", "read_source_files|every file of another package is rejected", ok, site(SEP, iff["sp"]),
               f"condition: {ct[:100]}" + (f"; not rejected when {counter}" if counter else ""),
               witness="build --package Lib --input lib.gom helper.gom where helper.gom has no package clause (package Main): accepted, its functions "
                       "land in the unqualified namespace and Main's same-named function replaces them at link")
    if n == 0:
        raise AnalysisIncomplete("read_source_files: package mismatch test not found")


def r16_12(run, model):
    run.rule("R16.12", "a type or trait name has one definition per package: collect_typedefs (or a function it calls) rejects a second enum / "
                       "struct / trait of a name before the definitions are entered by name (insert-overwrite) - otherwise the last "
                       "definition silently wins, an impl written between two definitions of a trait is checked against the first one, and "
                       "the verdict depends on file order")
    TOP = "crates/compiler/src/typer/toplevel.rs"
    f = model.fn("collect_typedefs", TOP)
    called = {S.callee_name(c) for c in S.calls(f.body)}
    checkers = []
    for g in [f] + [x for x in model.fns(TOP) if x.name in called and x.body is not None]:
        dup_test = any(iff for iff in S.find(g.body, "If")
                       if re.search(r"!\w+\.insert\(|\.contains(_key)?\(", S.norm_ws(run.facts.text(TOP, iff["cond"]["sp"])))
                       and any(c["k"] == "MethodCall" and c["method"] == "push" for c in S.walk(iff["then"])))
        if dup_test:
            checkers.append(g)
    for kind in ("EnumDef", "StructDef", "TraitDef"):
        ok = any(re.search(r"Def::" + kind + r"\b", S.norm_ws(run.facts.text(TOP, g.body["sp"]))) for g in checkers if g.name != "collect_typedefs") or \
             any(g.name == "collect_typedefs" for g in checkers)
        run.ob("R16.12", f"collect_typedefs|a second {kind} of one name is rejected", ok, site(TOP, f.node["sp"]),
               f"functions with a duplicate test: {[g.name for g in checkers] or 'none'}",
               witness="trait Shape { fn area(Self) -> int32; } impl Shape for Square {..} trait Shape { fn area(Self) -> int32; fn name(Self) -> string; }: "
                       "the impl is checked against the first definition, the Go calls the undeclared _goml_trait_impl_Shape_Square_name")


def r16_13(run, model):
    run.rule("R16.13", "an inherent impl is accepted only for a type of the package it is written in, whatever its form: in "
                       "define_inherent_impl the rejecting test `!is_local_nominal_type(<current package>, <implementing type>)` is not nested "
                       "in a branch that depends on the shape of the impl (generic or not) and comes before the impl key is built")
    d = model.fn("define_inherent_impl", TL)
    par = S.Parents(d.body)
    tests = []
    for iff in S.find(d.body, "If"):
        calls = [c for c in S.walk(iff["cond"]) if c["k"] == "Call" and S.callee_name(c) == "is_local_nominal_type"]
        if calls and any(x["k"] == "Return" for x in S.walk(iff["then"])):
            tests.append((iff, calls[0]))
    keys = [l for l in S.find(d.body, "Local") if any(st["k"] in ("Call", "Struct", "Path") and "InherentImplKey" in (st.get("segs") or S.callee_segs(st) or [])
                                                       for st in S.walk(l.get("init") or {"k": "None"}))]
    if not keys:
        raise AnalysisIncomplete("define_inherent_impl: construction of the impl key not found")
    first_key = min((l["sp"][0], l["sp"][1]) for l in keys)
    top = [(iff, c) for iff, c in tests if not any(a["k"] in ("If", "Match", "Arm", "Closure", "For", "While") for a in par.ancestors(iff))
           and (iff["sp"][0], iff["sp"][1]) < first_key]
    a0 = S.norm_ws(run.facts.text(TL, top[0][1]["args"][0]["sp"])) if top and top[0][1]["args"] else ""
    ok = bool(top) and a0 in ("&env.package", "env.package.as_str()", "&env.package.clone()")
    run.ob("R16.13", "define_inherent_impl|the locality test guards every form of impl", ok, site(TL, (tests or [(d.node, None)])[0][0]["sp"]),
           f"{len(tests)} rejecting locality test(s), {len(top)} of them unconditional and before the key; package argument `{a0}`",
           witness="package Main: impl[T] D::Box[T] { fn size(self: D::Box[T]) -> int32 { 4242 } } is accepted; D's own call of size() runs Main's body "
                   "(which package wins is decided by link order)")


def r16_14(run, model):
    run.rule("R16.14", "an import cycle is named in the separate pipeline too: check_package and build_package refuse a dependency whose "
                       "interface was built against the package being compiled (its `deps` name it), and link_cores orders the packages - "
                       "which reports a cycle - before it compares pinned hashes (the hash of each member of a cycle covers the others': "
                       "the comparison alone answers `rebuild A`, `rebuild B`, `rebuild A` for ever)")
    helpers = {}
    for g in model.fns(SEP):
        if g.body is None:
            continue
        t = S.norm_ws(run.facts.text(SEP, g.body["sp"]))
        if re.search(r"\.deps\.(contains_key|get)\(", t) and "Err(" in t and re.search(r"cycle", t):
            # the refusal rests on that membership alone: one decision in the helper, and it is the test of `deps`
            decisions = [x for x in S.walk(g.body) if x["k"] in ("If", "Match") or (x["k"] == "Local" and x.get("else") is not None)]
            sole = len(decisions) == 1 and re.search(r"\.deps\.(contains_key|get)\(", S.norm_ws(run.facts.text(SEP, decisions[0]["sp"]))) is not None and \
                not re.search(r"&&", S.norm_ws(run.facts.text(SEP, (decisions[0].get("cond") or decisions[0])["sp"]))[:200])
            run.ob("R16.14", f"{g.name}|the refusal depends on the dependency naming this package and on nothing else", sole, site(SEP, g.node["sp"]),
                   f"decisions in the helper: {len(decisions)}",
                   witness="history A v1, B (imports A), A v2 rebuilt, A v3 (imports B): B's interface pins another build of A, is taken for `merely "
                           "stale`, and check / build accept the package that closes A -> B -> A")
            helpers[g.name] = g
    for name in ("check_package", "build_package"):
        f = model.fn(name, SEP)
        # the loop may have moved into a private helper together with the rest of the dependency loading
        loops = [l for l in S.find(model.inlined_body(f), "For") if any(True for _ in S.calls(l["body"], "load_interface_from_paths"))]
        loops = [l for l in loops if not any(l is not l2 and S.span_contains(l2["sp"], l["sp"]) for l2 in loops)]
        if len(loops) != 1:
            raise AnalysisIncomplete(f"{name}: the loop that loads dependency interfaces was not found")
        body = loops[0]["body"]
        t = S.norm_ws(run.facts.text(SEP, body["sp"]))
        direct = re.search(r"\.deps\.(contains_key|get)\(&?(opts\.)?package", t) is not None and "Err(" in t
        via = [c for c in S.walk(body) if c["k"] == "Call" and S.callee_name(c) in helpers and (S.idents(c) & {"opts", "package"})]
        bpar = S.Parents(body)

        def first_real_parent(c):
            for a in bpar.ancestors(c):
                if a["k"] in ("ExprStmt",) or (a["k"] == "Block" and a.get("inlined")):
                    continue
                return a
            return None
        propagated = any(p_ is not None and p_["k"] == "Try" for p_ in [first_real_parent(c) for c in via])
        run.ob("R16.14", f"{name}|a dependency built against this package is refused", direct or (bool(via) and propagated), site(SEP, loops[0]["sp"]),
               "the loaded interface's deps are tested for the package being compiled" if direct or via else
               "only `dep == opts.package` is tested: a stale interface of the other package lets every member of a cycle pass",
               witness="A imports B, B imports A (a stale B.interface on the path): check A, build A, build B all exit 0; link answers "
                       "`rebuild A`, then `rebuild B`, ... while whole-program compilation says `package dependency cycle detected`")
    f = model.fn("link_cores", SEP)
    topo = [c for c in S.walk(f.body) if c["k"] == "Call" and S.callee_name(c) in ("topo_sort", "topo_sort_packages")]
    cmpv = [b for b in S.walk(f.body) if b["k"] == "Binary" and b["op"] in ("!=", "Ne", "==", "Eq") and "interface_hash" in S.norm_ws(run.facts.text(SEP, b["sp"]))]
    if not topo or not cmpv:
        raise AnalysisIncomplete("link_cores: ordering call or hash comparison not found")
    ok = min((c["sp"][0], c["sp"][1]) for c in topo) < min((c["sp"][0], c["sp"][1]) for c in cmpv)
    run.ob("R16.14", "link_cores|packages are ordered (cycles reported) before pinned hashes are compared", ok, site(SEP, topo[0]["sp"]),
           f"ordering at line {topo[0]['sp'][0]}, first hash comparison at line {cmpv[0]['sp'][0]}",
           witness="link of a cyclic pair: `package A expects interface_hash .. for B (rebuild A)` instead of the cycle")


def r16_15(run, model):
    run.rule("R16.15", "whether a package is accepted does not depend on the order of its items or the names of its files: in "
                       "collect_typedefs what the other definitions look up by name - traits (`impl T for ..`, `dyn T`) and extern types - "
                       "is defined in a loop over all items that comes before the loop defining impls, functions, extern functions and the "
                       "bodies of structs and enums (structs and enums are pre-declared by name already)")
    f = model.fn("collect_typedefs", TL)
    loops = [l for l in f.body["stmts"] if (l["k"] == "ExprStmt" and l["expr"]["k"] == "For") or l["k"] == "For"]
    loops = [l["expr"] if l["k"] == "ExprStmt" else l for l in loops]
    if not loops:
        raise AnalysisIncomplete("collect_typedefs: no loop over the top-level items found")

    def pos(names):
        out = []
        for i, l in enumerate(loops):
            if any(c["k"] == "Call" and S.callee_name(c) in names for c in S.walk(l["body"])):
                out.append(i)
        return out
    providers = {"traits": ("define_trait",), "extern types": ("define_extern_type",)}
    users = ("define_trait_impl", "define_inherent_impl", "define_function", "define_extern_go", "define_struct", "define_enum")
    u = pos(users)
    if not u:
        raise AnalysisIncomplete("collect_typedefs: the loop defining impls and functions was not found")
    for what, names in providers.items():
        p_ = pos(names)
        if not p_:
            raise AnalysisIncomplete(f"collect_typedefs: the definition of {what} was not found")
        ok = max(p_) < min(u)
        run.ob("R16.15", f"collect_typedefs|{what} are defined before anything that names them", ok, site(TL, loops[p_[0]]["sp"]),
               f"{what}: loop #{[i + 1 for i in p_]}; impls / functions / bodies: loop #{[i + 1 for i in u]}",
               witness="package Shapes = circle.gom (struct + impl Area for Circle) + traits.gom (trait Area): `Trait Shapes::Area is not defined`; "
                       "renaming traits.gom to area.gom makes the package valid")


def r16_17(run, model):
    run.rule("R16.17", "a refused package is a reported package: every place of name resolution that tests `!package_allowed(..)` (or "
                       "`!imports.contains(..)`) and gives the construct up on failure reports the missing import there - the other "
                       "resolutions of the same path see a form they do not understand and stay silent or say something else")
    n = 0
    for f in model.fns(NR):
        if f.body is None:
            continue
        seq = 0
        for iff in S.find(f.body, "If"):
            txt = S.norm_ws(run.facts.text(NR, iff["cond"]["sp"]))
            if not re.search(r"!\s*(\w+\.)*(package_allowed\(|imports\.contains\()", txt):
                continue
            n += 1
            seq += 1
            ok = reports_error(iff["then"])
            run.ob("R16.17", f"{f.name}|import test #{seq} reports its failure", ok, site(NR, iff["sp"]),
                   f"condition `{txt[:60]}`; the branch taken on failure {'reports' if ok else 'does not report'} an error",
                   witness="let c = Palette::Color::Red in a file that does not import Palette: the diagnostic names an unresolved constructor, "
                           "not the missing import (or nothing is said and the name is resolved through a sibling file's import)")
    run.floor("import tests in name resolution", n, 8)


def r16_18(run, model):
    run.rule("R16.18", "an implementation is filed under the trait's resolved name: in the function that writes the trait-impl table, once "
                       "resolve_trait_name has answered, the spelling that was handed to it is not used again - a key built from the unresolved "
                       "spelling lets `impl Show for P` and `impl Lib::Show for P` (or the same impl in two files) coexist and hides the impl "
                       "from every lookup that uses the resolved name")
    TOP = "crates/compiler/src/typer/toplevel.rs"
    n = 0
    for f in model.fns(TOP):
        if f.body is None or not re.search(r"trait_impls\s*\.\s*insert\(", S.norm_ws(run.facts.text(TOP, f.body["sp"]))):
            continue
        for l in S.find(f.body, "Local"):
            if l.get("init") is None:
                continue
            cs = [c for c in S.calls(l["init"], "resolve_trait_name")]
            if not cs or not cs[0]["args"]:
                continue
            raw = S.idents(cs[0]["args"][-1])
            n += 1
            end = (l["sp"][2], l["sp"][3])
            later = [x for x in S.walk(f.body) if x["k"] == "Path" and len(x.get("segs", [])) == 1 and x["segs"][0] in raw and (x["sp"][0], x["sp"][1]) > end]
            run.ob("R16.18", f"{f.name}|the unresolved trait spelling is not used after resolution", not later, site(TOP, (later[0] if later else l)["sp"]),
                   f"`{sorted(raw)}` is used {len(later)} time(s) after resolve_trait_name answered",
                   witness="impl Show for P {..} twice, once written `Show` and once `Main::Show`: no `already defined` diagnostic; method "
                           "lookup by the resolved name does not find the impl filed under the raw one")
    run.floor("trait-impl writers that resolve the trait name", n, 1)


def r16_16(run, model):
    run.rule("R16.16", "a trait bound names a trait through the file's own imports: wherever name resolution copies the segments of a "
                       "user-written path into a hir::Path (the bounds of a generic function), the same block tests the path's package with "
                       "package_allowed and reports a failure - every other position of a file already is (R16.1)")
    n = 0
    for f in model.fns(NR):
        if f.body is None:
            continue
        par = None
        for c in S.walk(f.body):
            if c["k"] != "Call" or (S.callee_segs(c) or [])[-2:] != ["Path", "new"] or "segments" not in S.norm_ws(run.facts.text(NR, c["sp"])):
                continue
            if par is None:
                par = S.Parents(f.body)
            n += 1
            scope = next((a for a in par.ancestors(c) if a["k"] in ("Closure", "Block")), f.body)
            tests = [i_ for i_ in S.find(scope, "If") if re.search(r"!\s*(ctx\.|self\.)?package_allowed\(", S.norm_ws(run.facts.text(NR, i_["cond"]["sp"]))) and
                     any(x["k"] == "MethodCall" and x["method"] in ("error", "push") for x in S.walk(i_["then"]))]
            run.ob("R16.16", f"{f.name}|a path copied into a hir::Path is import-checked", bool(tests), site(NR, c["sp"]),
                   f"package_allowed tests with a report in the same block: {len(tests)}",
                   witness="util.gom of package Main has no `import B` but declares fn describe[X: B::Show](x: X): accepted because a sibling "
                           "file imports B; `dyn B::Show`, `B::foo()`, `impl B::Show for Q` in the same file are all rejected")
    run.floor("user paths copied segment by segment", n, 1)


def run(run, model):
    mir = Mir(run.facts)
    run.try_rule(r16_1, model, mir)
    run.try_rule(r16_2, model)
    run.try_rule(r16_3, model, mir)
    run.try_rule(r16_4, model)
    run.try_rule(r16_5, model)
    run.try_rule(r16_7, model)
    run.try_rule(r16_8, model)
    run.try_rule(r16_9, model)
    run.try_rule(r16_10, model)
    run.try_rule(r16_11, model)
    run.try_rule(r16_12, model)
    run.try_rule(r16_13, model)
    run.try_rule(r16_14, model)
    run.try_rule(r16_15, model)
    run.try_rule(r16_16, model)
    run.try_rule(r16_17, model)
    run.try_rule(r16_18, model)
    # a stale dependant names items its dependency no longer exports: the pinned-hash comparison is how link reports that (shared with C15 R15.4)
    from rules import c15 as _c15
    run.try_rule(_c15.r15_4, model)
    from rules import c04
    run.rule("R16.6", "a package missing from the link inputs is reported, not skipped (shared with C04 R04.8)")
    run.try_rule(c04.r04_8, model)
    run.assume("the typer resolves package-qualified names only through the dependency environments it is given (R16.5 keeps those equal to the imports)")
