"""C11 Source text is read as written: precedence, associativity, literal fidelity."""
import re
from lib import syn as S, tables as TB
from lib.core import AnalysisIncomplete, site

EXPLANATION = (
    "Static decision of the parser's tables against the documented grammar. R11.1: the extracted Pratt binding powers satisfy the "
    "documented order (|| < && < == != < < > <= >= < + - < * / < prefix <= .), tiers are strictly separated, every binary operator "
    "is left-associative (l_bp < r_bp), operators of one tier share their powers, the call postfix binds tighter than every binary "
    "operator except `.`. R11.2: every operator of the binding-power tables has a lowering arm and vice versa, and its lexeme "
    "survives the chain token -> syntax kind -> BinaryOp (shared with R10.3). R11.3: call arguments never cross parentheses in "
    "lower_expr_with_args. R11.4: every escape the string regex admits is decoded by the lowering. R11.5: string literal delimiters "
    "are stripped exactly (one quote each side) and identically for expressions and patterns; numeric suffixes are stripped with "
    "the suffix of the arm's own width (R10.1). Print/parse round trips over generated trees are not executed.")

LOWER = TB.LOWER
TIERS = [["||"], ["&&"], ["==", "!="], ["<", ">", "<=", ">="], ["+", "-"], ["*", "/"]]


def r11_1(run, model):
    run.rule("R11.1", "binding powers satisfy the documented precedence and associativity")
    bp = TB.binding_powers(run, model)
    inf, pre, post = bp["infix"], bp["prefix"], bp["postfix"]
    run.anchor("binding powers", str(bp))
    for t in TIERS:
        for s in t:
            run.ob("R11.1", f"infix {s}|present", s in inf, site(TB.EXPR, None), f"{s}: {inf.get(s)}")
    prev_max_r = -1
    prev = None
    for t in TIERS:
        have = [s for s in t if s in inf]
        if not have:
            continue
        ls = {inf[s][0] for s in have}
        rs = {inf[s][1] for s in have}
        run.ob("R11.1", f"tier {' '.join(t)}|same powers", len(ls) == 1 and len(rs) == 1, site(TB.EXPR, None), f"powers {[inf[s] for s in have]}",
               witness=f"operators of one precedence level ({' '.join(t)}) parse with different strength")
        for s in have:
            l, r = inf[s]
            run.ob("R11.1", f"infix {s}|left-associative", l < r, site(TB.EXPR, None), f"({l}, {r})",
                   witness=f"a {s} b {s} c parses as a {s} (b {s} c): n * 100 / total becomes n * (100 / total)")
        if prev is not None:
            ok = prev_max_r < min(ls)
            run.ob("R11.1", f"tier {' '.join(prev)} below {' '.join(t)}", ok, site(TB.EXPR, None), f"max r_bp {prev_max_r} < min l_bp {min(ls)}",
                   witness=f"`a {t[0]} b {prev[0]} c` groups the looser operator first")
        prev_max_r = max(rs)
        prev = t
    top = prev_max_r
    for s, r in pre.items():
        run.ob("R11.1", f"prefix {s}|tighter than * /", r > top, site(TB.EXPR, None), f"prefix {s}: {r} vs {top}", witness="-a * b parses as -(a * b)")
    if "." in inf:
        run.ob("R11.1", "member access|tightest", inf["."][0] >= max(pre.values() or [0]) and inf["."][0] > top and inf["."][0] < inf["."][1], site(TB.EXPR, None), f". {inf['.']}")
    if "(" in post:
        run.ob("R11.1", "call postfix|tighter than every binary operator except .", post["("] > top and post["("] < inf.get(".", (99, 99))[0] + 1, site(TB.EXPR, None), f"call {post['(']} vs binary max {top}",
               witness="a + f(x) parses as (a + f)(x)")
    if "(" in post and pre and "." in inf:
        ok = post["("] >= max(pre.values()) and post["("] < inf["."][1]
        run.ob("R11.1", "call postfix|binds under a prefix operator and applies to the whole member path", ok, site(TB.EXPR, None),
               f"call {post['(']}; prefix operand parsed with {max(pre.values())}; right power of `.` {inf['.'][1]}",
               witness="-tick() is read as `-tick` (the empty argument list is lost in the re-association the lowering attempts): no diagnostic, "
                       "tick is never called; !q.is_empty() is rejected; -origin(3).x becomes (-origin(3)).x")
    # an operator the tiers above do not know (a later addition to the language) is held to what every binary operator obeys:
    # it associates to the left and sits on one precedence level - that of a documented tier, or a level of its own strictly between two
    extra = sorted(set(inf) - {s for t in TIERS for s in t} - {"."})
    tiers_have = [[s for s in t if s in inf] for t in TIERS]
    spans = [(min(inf[s][0] for s in h), max(inf[s][1] for s in h)) for h in tiers_have if h]
    for e in extra:
        l, r = inf[e]
        joins = any(h and inf[h[0]] == (l, r) for h in tiers_have)
        apart = all(r < lo or l > hi for lo, hi in spans) and l < inf.get(".", (99, 99))[0]
        run.ob("R11.1", f"infix {e}|left-associative on one precedence level", l < r and (joins or apart), site(TB.EXPR, None),
               f"{e}: ({l}, {r}); " + ("the powers of a documented tier" if joins else "a level of its own" if apart else "overlaps a documented tier"),
               witness=f"a {e} b {e} c groups to the right, or {e} binds between the two powers of another level")


def r11_2(run, model):
    run.rule("R11.2", "every operator in the binding-power tables is lowered (and only those), with the lexeme preserved")
    bp = TB.binding_powers(run, model)
    tm = TB.t_macro(model)
    tk = {v: (k, t) for v, k, t in TB.token_kinds(model)}
    low = model.fn("lower_expr_with_args", LOWER)
    lower_bin = {}
    for kind, op, arm in TB.arms_mapping(run, model, low, r"MySyntaxKind::([A-Za-z]+)", r"common_defs::BinaryOp::([A-Za-z]+)"):
        lower_bin.setdefault(kind, op)
    syms = TB.binop_symbols(run, model)["BinaryOp"]
    for s in sorted(bp["infix"]):
        if s == ".":
            continue
        v = tm.get(s)
        lex = tk.get(v, (None, None))[1]
        op = lower_bin.get(v)
        ok = v is not None and lex == s and op is not None and syms.get(op) == s
        run.ob("R11.2", f"infix {s}|lowered to itself", ok, site(LOWER, None), f"T![{s}] = {v}, lexeme {lex!r}, lowered to {op}, symbol {syms.get(op)!r}",
               witness=f"`a {s} b` is rejected by lowering or becomes another operator")
    inv = {v: k for k, v in tm.items()}
    for kind, op in sorted(lower_bin.items()):
        s = inv.get(kind)
        run.ob("R11.2", f"lowering {kind}|is a parsed operator", s in bp["infix"], site(LOWER, None), f"{kind} ({s}) lowered to {op}; in the infix table: {s in bp['infix']}")


def r11_3(run, model):
    run.rule("R11.3", "call arguments never cross parentheses: the ParenExpr arm of lower_expr_with_args does not forward non-empty "
                      "trailing arguments into the parenthesised expression (they apply to its value)")
    f = model.fn("lower_expr_with_args", LOWER)
    argp = None
    for p in f.params():
        if "Vec<ast::Expr>" in (p["ty"] or "").replace(" ", ""):
            argp = p["pat"]["name"]
    if argp is None:
        raise AnalysisIncomplete("lower_expr_with_args: trailing-args parameter not found")
    found = False
    for m in S.find(f.body, "Match"):
        for arm in m["arms"]:
            pt = S.norm_ws(run.facts.text(LOWER, arm["pat"]["sp"]))
            if "ParenExpr" in pt:
                found = True
                fwd = [c for c in S.calls(arm["body"], "lower_expr_with_args") if len(c["args"]) >= 3 and argp in S.idents(c["args"][2])]
                run.ob("R11.3", "lower_expr_with_args|ParenExpr keeps arguments outside", not fwd, site(LOWER, arm["sp"]),
                       "the parenthesised expression is lowered with the caller's trailing arguments pushed inside" if fwd else "arguments are applied to the parenthesised value",
                       witness="(a + inc)(2) is read as a + inc(2)")
    if not found:
        raise AnalysisIncomplete("ParenExpr arm not found")


def r11_4(run, model):
    run.rule("R11.4", "every escape sequence admitted by the lexer's string regex is decoded when the literal is lowered")
    tk = {v: (k, t) for v, k, t in TB.token_kinds(model)}
    rx = tk.get("Str", (None, ""))[1] or ""
    admits = "\\\\(" in rx or '\\\\(["' in rx or "\\\\(" in rx.replace("\\\\\\\\", "")
    admits = bool(re.search(r'\\\\\(\[', rx)) or "bnfrt" in rx
    f = model.fn("lower_expr_with_args", LOWER)
    decoded = False
    for m in S.find(f.body, "Match"):
        for arm in m["arms"]:
            if "StrExpr" in S.norm_ws(run.facts.text(LOWER, arm["pat"]["sp"])) and "Multiline" not in S.norm_ws(run.facts.text(LOWER, arm["pat"]["sp"])):
                names = [S.callee_name(c) or "" for c in S.calls(arm["body"])]
                decoded = any(re.search(r"unescape|decode|unquote|parse_string|escape", n) for n in names)
    run.ob("R11.4", "StrExpr|escapes decoded", (not admits) or decoded, site(LOWER, None),
           f"regex admits escapes: {admits}; lowering decodes them: {decoded}",
           witness='"a\\nb" prints backslash-n: the raw text between the quotes is kept and the Go printer escapes the backslash again')


def r11_5(run, model):
    run.rule("R11.5", "string delimiters are stripped exactly: one leading and one trailing quote (strip_prefix + strip_suffix), never "
                      "trim_matches/replace, and expressions and patterns use the same extraction")
    idiom = 'raw.strip_prefix(\'"\').and_then(|s|s.strip_suffix(\'"\'))'
    n = 0
    sites = {}
    for fn in model.fns(LOWER):
        if fn.body is None:
            continue
        for m in S.find(fn.body, "Match"):
            for arm in m["arms"]:
                pt = S.norm_ws(run.facts.text(LOWER, arm["pat"]["sp"]))
                mm = re.search(r"cst::(Expr|Pattern)::(StrExpr|StringPat)\b", pt)
                if not mm:
                    continue
                bt = S.norm_ws(run.facts.text(LOWER, arm["body"]["sp"])).replace("\\\"", '"')
                n += 1
                exact = idiom in bt
                sloppy = re.search(r"trim_matches|trim_start_matches\('\"'\)|trim_end_matches\('\"'\)|replace\('\"'", bt) is not None
                sites[mm.group(2)] = exact and not sloppy
                run.ob("R11.5", f"{fn.name}|{mm.group(2)} strips exactly one quote per side", exact and not sloppy, site(LOWER, arm["sp"]),
                       "strip_prefix('\"').and_then(strip_suffix('\"'))" if exact and not sloppy else "delimiters removed by another method",
                       witness='"say \\"hi\\"" loses its final escaped quote; the identically spelled pattern no longer equals the literal')
    run.floor("string literal lowering arms", n, 2)
    # expected-zero rule with positive control: quote-trimming calls anywhere in lower.rs
    ctrl = 0
    bad = 0
    for fn in model.fns(LOWER):
        if fn.body is None:
            continue
        for c in S.calls(fn.body, "trim_matches", "trim_start_matches", "trim_end_matches"):
            ctrl += 1
            a = S.norm_ws(run.facts.text(LOWER, c["sp"]))
            if "'\"'" in a or '"\\""' in a:
                bad += 1
                run.ob("R11.5", f"{fn.name}|no quote trimming", False, site(LOWER, c["sp"]), f"`{a[-60:]}` removes every leading/trailing quote")
    run.ob("R11.5", "lower.rs|no trim of quote characters", bad == 0, site(LOWER, None), f"{ctrl} trim_* calls in lower.rs (positive control), {bad} on quote characters")
    run.floor("positive control: strip_prefix/strip_suffix/trim_* calls recognised in lower.rs", ctrl + sum(1 for fn in model.fns(LOWER) if fn.body is not None for _ in S.calls(fn.body, "strip_prefix", "strip_suffix")), 2)


FORM_LEDGER = {}  # (function, CST form) -> reason why the arm may return a lowered child unchanged


def r11_6(run, model):
    run.rule("R11.6", "type lowering is form-preserving: every value an arm of lower_ty returns for a CST type form is built by an "
                      "ast::TypeExpr constructor in that arm (directly or through a local bound to one), never a lowered child passed through "
                      "(`(T)` stays a 1-tuple / parameter list, it is not silently the element)")
    f = model.fn("lower_ty", LOWER)
    ms = list(S.find(f.body, "Match"))
    if not ms:
        raise AnalysisIncomplete("lower_ty: no match")
    m = ms[0]
    n = 0
    for arm in m["arms"]:
        pt = S.norm_ws(run.facts.text(LOWER, arm["pat"]["sp"]))
        mm = re.search(r"cst::Type::([A-Za-z0-9]+)", pt)
        if not mm:
            continue
        form = mm.group(1)
        lets = {}
        for l in S.find(arm["body"], "Local"):
            if l.get("init") is not None:
                for b in S.pat_bindings(l["pat"]):
                    lets[b] = l["init"]
        results = []
        body = arm["body"]
        tails = [body]
        while tails:
            t = tails.pop()
            if t["k"] == "Block":
                if t["stmts"] and t["stmts"][-1]["k"] == "ExprStmt" and not t["stmts"][-1].get("semi"):
                    tails.append(t["stmts"][-1]["expr"])
                elif t.get("expr") is not None:
                    tails.append(t["expr"])
            elif t["k"] == "If":
                tails.append(t["then"])
                if t.get("else") is not None:
                    tails.append(t["else"])
            elif t["k"] == "Match":
                tails.extend(a["body"] for a in t["arms"])
            else:
                results.append(t)
        results += [r["expr"] for r in S.walk_no_closures(body) if r["k"] == "Return" and r.get("expr") is not None]

        def built(e, depth=0):
            if e["k"] == "Call" and S.callee_name(e) == "Some" and e["args"]:
                return built(e["args"][0], depth)
            if e["k"] in ("Struct", "Path", "Call") and "TypeExpr" in (e.get("segs") or (e.get("func") or {}).get("segs") or []):
                return True
            if e["k"] == "Path" and len(e["segs"]) == 1:
                if e["segs"][0] == "None":
                    return True
                if e["segs"][0] in lets and depth < 3:
                    return built(lets[e["segs"][0]], depth + 1)
            return False

        for r in results:
            n += 1
            ok = built(r) or FORM_LEDGER.get(("lower_ty", form)) is not None
            rt = S.norm_ws(run.facts.text(LOWER, r["sp"]))[:60]
            run.ob("R11.6", f"lower_ty|{form} yields its own form" if ok else f"lower_ty|{form} returns `{rt}`", ok, site(LOWER, r["sp"]),
                   f"result `{rt}`",
                   witness="((int32, int32)) -> int32 (one pair parameter) is read as (int32, int32) -> int32 (two parameters); (int32,) is read as int32")
    run.floor("result expressions of lower_ty arms", n, 20)


ARGS_LEDGER = {"ECall": "further arguments applied to a call result are applied call by call (existing behaviour for f(a)(b) under a prefix operator)"}


def r11_7(run, model):
    run.rule("R11.7", "arguments written in one pair of parentheses form one call: apply_trailing_args hands the argument vector on whole "
                      "(`args: trailing_args`, `extend(trailing_args)`, or the recursive call), it is iterated element by element only in the ledgered arm")
    f = model.fn("apply_trailing_args", LOWER)
    argp = None
    for p in f.params():
        if "Vec<ast::Expr>" in (p["ty"] or "").replace(" ", ""):
            argp = p["pat"]["name"]
    if argp is None:
        raise AnalysisIncomplete("apply_trailing_args: argument vector parameter not found")
    helpers = {g.name: g for g in model.fns(LOWER) if g.body is not None}
    ms = list(S.find(f.body, "Match"))
    if not ms:
        raise AnalysisIncomplete("apply_trailing_args: no match")
    n = 0
    for arm in ms[0]["arms"]:
        pt = S.norm_ws(run.facts.text(LOWER, arm["pat"]["sp"]))
        mm = re.search(r"ast::Expr::([A-Za-z0-9]+)", pt)
        if not mm or argp not in S.idents(arm["body"]):
            continue
        form = mm.group(1)
        n += 1
        par = S.Parents(arm["body"])
        uses = [x for x in S.walk(arm["body"]) if x["k"] == "Path" and x["segs"] == [argp]]
        how = []
        for u in uses:
            p_ = par.parent(u)
            if p_ is None:
                how.append("whole")  # the arm body is the vector itself
            elif p_["k"] == "For":
                how.append("elementwise")
            elif p_["k"] == "MethodCall" and p_["method"] in ("extend", "append") and u in p_["args"]:
                how.append("whole")
            elif p_["k"] == "MethodCall" and p_["recv"] is u and p_["method"] in ("into_iter", "iter", "drain", "pop", "remove", "first", "split_first", "get"):
                how.append("elementwise")
            elif p_["k"] == "Call" and u in p_["args"]:
                cn = S.callee_name(p_)
                if cn in ("apply_trailing_args", "lower_expr_with_args"):
                    how.append("whole")
                elif cn in helpers:
                    g = helpers[cn]
                    idx = p_["args"].index(u)
                    ps = [q for q in g.params() if not q["self"]]
                    pn = ps[idx]["pat"].get("name") if idx < len(ps) else None
                    it = any(l["k"] == "For" and pn in S.idents(l["iter"]) for l in S.walk(g.body)) or \
                        any(c["k"] == "MethodCall" and c["method"] in ("into_iter", "iter", "drain", "pop") and S.is_path(c["recv"], pn) for c in S.walk(g.body))
                    how.append("elementwise" if it else "whole")
                else:
                    how.append("whole")
            else:
                how.append("whole")  # struct field `args: trailing_args`
        ew = "elementwise" in how
        led = ARGS_LEDGER.get(form)
        run.ob("R11.7", f"apply_trailing_args|{form} keeps the argument list whole", (not ew) or led is not None, site(LOWER, arm["sp"]),
               f"`{argp}` consumed {sorted(set(how))}" + (f"; ledger: {led}" if ew and led else ""),
               witness="-clamp(12, 0, 9) is read as -clamp(12)(0)(9)")
    run.floor("arms of apply_trailing_args that consume the arguments", n, 5)


def r11_8(run, model):
    run.rule("R11.8", "a string literal reaches Go with every character that needs escaping escaped: in escape_go_string any shortcut that "
                      "returns the text unescaped tests for all characters the escaping loop rewrites (a fast path that forgets `\\` turns "
                      "the two source characters backslash-t into a tab)")
    GOPP = "crates/compiler/src/pprint/go_pprint.rs"
    f = model.fn("escape_go_string", GOPP)
    esc = set()
    for m in S.find(f.body, "Match"):
        for arm in m["arms"]:
            for n in S.walk(arm["pat"]):
                if n["k"] in ("PLit", "Lit") and n.get("lit") in ("Char", None) and isinstance(n.get("value"), str) and len(n["value"]) <= 2:
                    esc.add(n["value"])
            pt = S.norm_ws(run.facts.text(GOPP, arm["pat"]["sp"]))
            for mm in re.finditer(r"'(\\.|[^'\\])'", pt):
                esc.add(mm.group(1))
    run.floor("characters escaped for Go", len(esc), 4)
    shortcuts = []
    for r in S.walk(f.body):
        if r["k"] == "If" and any(True for _ in S.find(r["then"], "Return")):
            ct = S.norm_ws(run.facts.text(GOPP, r["cond"]["sp"]))
            # the test may be delegated to a predicate of the same file (called, or handed to any/all)
            for g in model.fns(GOPP):
                if g.body is not None and g.name != f.name and g.name in S.idents(r["cond"]):
                    ct += S.norm_ws(run.facts.text(GOPP, g.body["sp"]))
            tested = set(re.findall(r"'(\\.|[^'\\])'", ct))
            if re.search(r"is_(ascii_)?control\(\)", ct):
                tested |= {e for e in esc if e in ("\\n", "\\r", "\\t", "\\0", "\n", "\r", "\t")}
            shortcuts.append((r, tested, ct))
    dec = lambda x: {"n": "\n", "r": "\r", "t": "\t", "0": "\0", "\\": "\\", '"': '"', "'": "'"}.get(x[1], x) if len(x) == 2 and x[0] == "\\" else x
    for r, tested, ct in shortcuts:
        missing = sorted({dec(e) for e in esc} - {dec(e) for e in tested})
        run.ob("R11.8", "escape_go_string|shortcut tests every escaped character", not missing, site(GOPP, r["sp"]),
               f"early return under `{ct[:60]}` tests {sorted(tested)}; the loop escapes {sorted(esc)}; not tested: {missing or 'none'}",
               witness="\"col1\\tcol2\" (backslash, t) is emitted with a single backslash: Go prints a tab")
    run.ob("R11.8", "escape_go_string|escapes quote, backslash and control characters", {'"', "\\\\", "\\n"} <= esc or {'"', "\\", "\n"} <= esc or len(esc) >= 5, site(GOPP, f.node["sp"]),
           f"escaped characters: {sorted(esc)}; shortcuts: {len(shortcuts)}")
    # characters a Go compiler refuses inside source text (NUL, a byte order mark) and the remaining control characters
    guards = [S.norm_ws(run.facts.text(GOPP, a["guard"]["sp"])) for m in S.find(f.body, "Match") for a in m["arms"] if a.get("guard") is not None]
    ctrl = any("is_control" in g or "is_ascii_control" in g or re.search(r"<\s*'?\\?u?\{?0*20", g) for g in guards)
    bom = any(re.search(r"feff", g, re.I) for g in guards) or any(re.search(r"feff", e, re.I) for e in esc)
    run.ob("R11.8", "escape_go_string|control characters are written as escapes", ctrl, site(GOPP, f.node["sp"]),
           f"guards of the escaping match: {guards or 'none'}",
           witness="a NUL byte in a multi-line string is copied raw into the Go source: gc reports `invalid NUL character`")
    # the escapes are written in Go's syntax: Rust's own escape iterators spell a code point `\\u{1b}`, which no Go scanner accepts
    rust_esc = [c for g in model.scope_fns(f) if g.body is not None for c in S.walk(g.body)
                if (c["k"] == "MethodCall" and c["method"] in ("escape_unicode", "escape_default", "escape_debug")) or
                (c["k"] == "Macro" and re.search(r"\{[^{}]*:\??\?\}|\{:\?\}|\{:#\?\}", S.norm_ws(run.facts.text(GOPP, c["sp"]))))]
    run.ob("R11.8", "escape_go_string|escapes are spelled in Go's syntax", not rust_esc, site(GOPP, (rust_esc[0] if rust_esc else f.node)["sp"]),
           f"Rust escape iterators / Debug formatting used while escaping: {len(rust_esc)}",
           witness="an ESC character in a multi-line string is emitted as \\u{1b}: gc reports `invalid character in escape sequence`")
    run.ob("R11.8", "escape_go_string|a byte order mark is written as an escape", bom, site(GOPP, f.node["sp"]),
           f"guards of the escaping match: {guards or 'none'}",
           witness="a string containing U+FEFF is copied raw: gc reports `invalid BOM in the middle of the file`")


def r11_9(run, model):
    run.rule("R11.9", "a multi-line string keeps what is written after the `\\\\` marker: the lowering strips only the indentation *before* the "
                      "marker (trim_start*), never the end of the line")
    f = model.fn("lower_expr_with_args", LOWER)
    found = False
    for m in S.find(f.body, "Match"):
        for arm in m["arms"]:
            if "MultilineStrExpr" not in S.norm_ws(run.facts.text(LOWER, arm["pat"]["sp"])):
                continue
            found = True
            trims = {c["method"] for c in S.walk(arm["body"]) if c["k"] == "MethodCall" and c["method"].startswith("trim")
                     and not (c["method"] == "trim_end_matches" and c["args"] and S.norm_ws(run.facts.text(LOWER, c["args"][0]["sp"])) == "'\\r'")}
            # the lines may be cut by an accessor of the CST node (cst/nodes.rs, impl MultilineStrExpr): what it trims counts as well
            NODES = "crates/cst/src/nodes.rs"
            acc = {g.name: g for g in model.fns(NODES) if g.impl == "MultilineStrExpr" and g.body is not None}
            for c in S.walk(arm["body"]):
                if c["k"] == "MethodCall" and c["method"] in acc:
                    trims |= {x["method"] for x in S.walk(acc[c["method"]].body) if x["k"] == "MethodCall" and x["method"].startswith("trim")
                              and not (x["method"] == "trim_end_matches" and x["args"] and S.norm_ws(run.facts.text(NODES, x["args"][0]["sp"])) == "'\\r'")}
            trims = sorted(trims)
            bad = [t for t in trims if not t.startswith("trim_start")]
            run.ob("R11.9", "MultilineStrExpr|only leading indentation is stripped", not bad, site(LOWER, arm["sp"]),
                   f"trim calls on the line: {trims or 'none'}" + (f"; {bad} also remove the end of the line" if bad else ""),
                   witness="\\\\Name:<space><space> loses its trailing blanks: the string denotes \"Name:\" instead of \"Name:  \"")
    if not found:
        raise AnalysisIncomplete("MultilineStrExpr arm not found")
    # the same discipline where the token is cut: the scanner removes the line terminator after the last line and nothing else
    LEX = "crates/lexer/src/lib.rs"
    g = model.fn("lex_multiline_str", LEX)
    for h in model.scope_fns(g):
        if h.body is None:
            continue
        for c in S.walk(h.body):
            if c["k"] != "MethodCall" or not c["method"].startswith("trim") or c["method"].startswith("trim_start"):
                continue
            at = S.norm_ws(run.facts.text(LEX, c["args"][0]["sp"])) if c["args"] else ""
            only_terminator = c["method"] in ("trim_end_matches", "trim_matches") and bool(at) and \
                set(re.findall(r"'(\\.|[^'\\])'", at)) <= {"\\n", "\\r"} and not re.search(r"is_|char::|\|", at) and bool(re.findall(r"'(\\.|[^'\\])'", at))
            run.ob("R11.9", f"{h.name}|{c['method']}({at[:20]}) removes the line terminator only", only_terminator, site(LEX, c["sp"]),
                   f"`{c['method']}({at})` while cutting the multi-line string token",
                   witness="let prompt = \\\\> <space>; the token is cut with trim_end(): the literal denotes \"> \" without its trailing blank")


def r11_12(run, model):
    run.rule("R11.12", "a multi-line string denotes the same characters in an LF and in a CRLF file: the lexer admits `\\r` as whitespace and the "
                       "lowering splits the token with str::lines (which drops `\\n` and `\\r\\n`), so either the scanner that cuts the token at "
                       "the last `\\n` also looks at a preceding `\\r`, or the lowering removes a trailing `\\r` from each line")
    LEX = "crates/lexer/src/lib.rs"
    f = model.fn("lex_multiline_str", LEX)
    cuts = [c for c in S.walk(f.body) if c["k"] == "Lit" and S.norm_ws(run.facts.text(LEX, c["sp"])) in ("b'\\n'", "'\\n'")]
    if not cuts:
        raise AnalysisIncomplete("lex_multiline_str: no comparison with b'\\n' found")
    cr = [c for c in S.walk(f.body) if c["k"] == "Lit" and S.norm_ws(run.facts.text(LEX, c["sp"])) in ("b'\\r'", "'\\r'", '"\\r\\n"')]
    g = model.fn("lower_expr_with_args", LOWER)
    low = False
    for m in S.find(g.body, "Match"):
        for arm in m["arms"]:
            if "MultilineStrExpr" in S.norm_ws(run.facts.text(LOWER, arm["pat"]["sp"])):
                low = any(c["k"] == "MethodCall" and c["method"] in ("strip_suffix", "trim_end_matches") and c["args"]
                          and S.norm_ws(run.facts.text(LOWER, c["args"][0]["sp"])) == "'\\r'" for c in S.walk(arm["body"]))
    ok = bool(cr) or low
    run.ob("R11.12", "lex_multiline_str|a carriage return before the cut line feed is handled", ok, site(LEX, f.node["sp"]),
           f"scanner compares with b'\\n' {len(cuts)} times, with b'\\r' {len(cr)} times; lowering strips a trailing '\\r': {low}",
           witness="the file `let s = \\\\one<CR><LF> \\\\two<CR><LF>;` saved with CRLF line ends: the literal denotes \"one\\ntwo\\r\" (LF file: \"one\\ntwo\")")


def r11_23(run, model):
    run.rule("R11.23", "a number token is made of digits: the sign in front of a number is the operator `-`, which the parser places by "
                       "precedence - a numeric token whose regex can start with a sign swallows the operator of `a-1` (the longest match "
                       "lexes `a` `-1`, two operands with nothing between them) and binds tighter than any operator in `-1.max(2)`")
    import re as _re
    samples = ["1", "12", "1.5", "0x1F", "0b101", "1e5", "1_000"]
    sufs = ["", "i8", "i16", "i32", "i64", "u8", "u16", "u32", "u64", "f32", "f64"]
    n = 0
    for name, k, t in TB.token_kinds(model):
        if k != "regex" or not t:
            continue
        try:
            rx = _re.compile(t)
        except _re.error:
            continue
        # a numeric token: its regex matches some plain number
        if not any(rx.fullmatch(s_ + u) for s_ in samples for u in sufs):
            continue
        n += 1
        signed = sorted({c for c in "+-" for s_ in samples for u in sufs if rx.fullmatch(c + s_ + u)})
        run.ob("R11.23", f"TokenKind::{name}|starts with a digit", not signed, site(TB.LEXER, None),
               f"/{t}/ " + (f"also matches a number with a leading {signed}" if signed else "matches no signed number"),
               witness="let a = 5; a-1 lexes as `a` `-1`: a parse error, or with a newline between them two statements")
    run.floor("numeric token regexes", n, 6)


def r11_24(run, model):
    run.rule("R11.24", "an operand position holds a whole expression: the parser of primary forms (the function the Pratt loop calls for its "
                       "left operand) is entered from the Pratt loop only - a sub-expression parsed by calling it directly ends at the primary "
                       "form, and the operators that follow attach to the enclosing construct instead "
                       "(`if a { 1 } else if b { 2 } else { 3 } + 10` would add 10 to the outer `if`)")
    EXPR = "crates/parser/src/expr.rs"
    pratt = [f for f in model.fns(EXPR) if f.body is not None and any(p["pat"].get("name") == "min_bp" for p in f.params() if p["pat"]["k"] == "PIdent")]
    pratt = [f for f in pratt if any(True for _ in S.find(f.body, "Loop", "While"))]
    if len(pratt) != 1:
        raise AnalysisIncomplete(f"parser::expr: the Pratt loop (a function taking min_bp that loops) was not identified: {[f.name for f in pratt]}")
    loop = pratt[0]
    names = {g.name for g in model.fns(EXPR)}
    # the primary parser: a function of this file the Pratt loop calls outside its loop, returning an optional closed marker
    cands = [S.callee_name(c) for c in S.walk(loop.body) if c["k"] == "Call" and S.callee_name(c) in names and S.callee_name(c) != loop.name
             and "MarkerClosed" in (model.fn(S.callee_name(c), EXPR).node.get("ret") or "")]
    prim = sorted(set(cands))
    if len(prim) != 1:
        raise AnalysisIncomplete(f"{loop.name}: the primary-form parser was not identified: {prim}")
    n = 0
    for rel in ("crates/parser/src/expr.rs", "crates/parser/src/file.rs", "crates/parser/src/pattern.rs", "crates/parser/src/stmt.rs"):
        try:
            fns = model.fns(rel)
        except Exception:
            continue
        for f in fns:
            if f.body is None:
                continue
            for c in S.walk(f.body):
                if c["k"] == "Call" and S.callee_name(c) == prim[0] and (rel != EXPR or S.callee_name(c) in names):
                    n += 1
                    ok = f.name == loop.name and rel == EXPR
                    run.ob("R11.24", f"{f.name}|{prim[0]} is entered from the Pratt loop", ok, site(rel, c["sp"]),
                           f"call of {prim[0]} in {f.name}",
                           witness="if a { 1 } else if b { 2 } else { 3 } + 10 evaluates to 11 where it was 1")
    run.floor("entries into the primary-form parser", n, 1)


def r11_14(run, model):
    run.rule("R11.14", "nested tuple projections parse back: `t.1.0` needs no parentheses (`.` is left-associative), but the lexer's longest match "
                       "reads `1.0` as one Float token, so the lowering of `lhs . rhs` accepts a float token of the form digits.digits as two "
                       "projections")
    toks = {n: (k, t) for n, k, t in TB.token_kinds(model)}
    fl = toks.get("Float")
    if fl is None or fl[1] is None:
        raise AnalysisIncomplete("lexer: Float token not found")
    import re as _re
    premise = _re.fullmatch(fl[1], "1.0") is not None if fl[0] == "regex" else False
    f = model.fn("lower_expr_with_args", LOWER)
    target = None
    for m in S.find(f.body, "Match"):
        pats = [S.norm_ws(run.facts.text(LOWER, a["pat"]["sp"])) for a in m["arms"]]
        if any("IntExpr" in p for p in pats) and any("IdentExpr" in p for p in pats) and any(True for _ in S.find(m, "Struct")) \
                and "EProj" in S.norm_ws(run.facts.text(LOWER, m["sp"])):
            if target is None or len(pats) < len(target[1]):
                target = (m, pats)
    if target is None:
        raise AnalysisIncomplete("lower_expr_with_args: the match on the right operand of `.` was not found")
    m, pats = target
    arm = next((a for a, p in zip(m["arms"], pats) if "FloatExpr" in p), None)
    ok = (not premise) or (arm is not None and "EProj" in S.norm_ws(run.facts.text(LOWER, arm["body"]["sp"])))
    run.ob("R11.14", "member access|a float token after `.` is read as two tuple indices", ok, site(LOWER, (arm or m)["sp"]),
           f"lexer Float = /{fl[1]}/ matches `1.0`: {premise}; right-operand kinds handled: {[p.split('::')[-1][:24] for p in pats]}",
           witness="let t = (1, (2, 3)); t.1.0 is rejected with `Unsupported field access expression`, while (t.1).0 compiles and the "
                   "compiler's own printer renders it as t.1.0")


def r11_15(run, model):
    run.rule("R11.15", "`t.i.j` projects i first: where the lowering splits the float token `i.j` into two projections, the projection applied "
                       "directly to the left operand takes the text before the dot and the outer one the text after it")
    f = model.fn("lower_expr_with_args", LOWER)
    arm = None
    for m in S.find(f.body, "Match"):
        pats = [S.norm_ws(run.facts.text(LOWER, a["pat"]["sp"])) for a in m["arms"]]
        if any("IntExpr" in p for p in pats) and any("IdentExpr" in p for p in pats) and "EProj" in S.norm_ws(run.facts.text(LOWER, m["sp"])):
            for a, p in zip(m["arms"], pats):
                if "FloatExpr" in p and (arm is None or len(pats) < arm[1]):
                    arm = (a, len(pats))
    if arm is None:
        run.ob("R11.15", "member access|no float token is split into projections", True, site(LOWER, f.node["sp"]), "no FloatExpr arm in the lowering of `.`")
        return
    arm = arm[0]
    # order of the two pieces: the tuple pattern bound from split_once('.') / from the parsed pair
    pairs = []
    for n in S.walk(arm["body"]):
        pat = None
        if n["k"] == "Local":
            pat = n["pat"]
        elif n["k"] == "Closure" and n["inputs"]:
            pat = n["inputs"][0]
        if pat is None:
            continue
        for t in S.walk(pat):
            if t["k"] == "PTuple" and len(t["elems"]) == 2 and all(S.strip_refs(e)["k"] == "PIdent" for e in t["elems"]):
                pairs.append(tuple(S.strip_refs(e)["name"] for e in t["elems"]))
    if not pairs:
        raise AnalysisIncomplete("FloatExpr arm: the pair of index texts is not bound by a two-element tuple pattern")
    firsts = {p[0] for p in pairs}
    seconds = {p[1] for p in pairs}
    # consistency of the chain of pairs: a closure |(a, b)| Some((A, B)) keeps the order
    ok_chain = True
    for n in S.walk(arm["body"]):
        if n["k"] == "Closure" and n["inputs"]:
            names = [S.strip_refs(e)["name"] for t in S.walk(n["inputs"][0]) if t["k"] == "PTuple" and len(t["elems"]) == 2 for e in t["elems"] if S.strip_refs(e)["k"] == "PIdent"]
            tups = [t for t in S.walk(n["body"]) if t["k"] == "Tuple" and len(t.get("elems") or []) == 2]
            if len(names) == 2 and tups:
                a_, b_ = tups[-1]["elems"]
                if not (names[0] in S.idents(a_) and names[1] in S.idents(b_)):
                    ok_chain = False
    projs = [st for st in S.walk(arm["body"]) if st["k"] == "Struct" and st["segs"][-1] == "EProj"]
    inner = [st for st in projs if any(fl["name"] == "tuple" and "lhs" in S.idents(fl["expr"]) and not any(x["k"] == "Struct" for x in S.walk(fl["expr"])) for fl in st["fields"])]
    if len(projs) < 2 or not inner:
        raise AnalysisIncomplete("FloatExpr arm: the two EProj nodes were not recognised")
    idx = lambda st: next((S.idents(fl["expr"]) for fl in st["fields"] if fl["name"] == "index"), set())
    inner_ok = bool(idx(inner[0]) & firsts) and not (idx(inner[0]) & (seconds - firsts))
    outer = [st for st in projs if st is not inner[0]]
    outer_ok = all(bool(idx(st) & seconds) and not (idx(st) & (firsts - seconds)) for st in outer)
    run.ob("R11.15", "member access|`t.i.j` applies index i to t and index j to the result", ok_chain and inner_ok and outer_ok, site(LOWER, arm["sp"]),
           f"pairs bound: {pairs}; index of the projection on lhs: {sorted(idx(inner[0]))}; of the outer projection: {[sorted(idx(st)) for st in outer]}",
           witness="let t = ((1, 2), (3, 4)); t.1.0 reads (t.0).1 = 2 instead of 3 - both orders type-check on a symmetric tuple")


def r11_17(run, model):
    run.rule("R11.17", "what the parser accepts is lowered or reported, never dropped: the file-level grammar accepts an expression between "
                       "items (parser::file calls expr), the AST has no place for one, so ast::lower::lower reports it - otherwise a call "
                       "placed after a misplaced `}`, an unresolved name or an ill-typed expression at file level vanishes without a word")
    FILE = "crates/parser/src/file.rs"
    pf = model.fn("file", FILE)
    premise = any(True for _ in S.calls(pf.body, "expr"))
    lf = model.fn("lower", LOWER)
    # `lower` and the same-file helpers it calls (a wrapper that delegates to `lower_with_options` is still the lowering of a file)
    body = " ".join(S.norm_ws(run.facts.text(LOWER, g.body["sp"])) for g in model.scope_fns(lf) if g.body is not None)
    handled = re.search(r"Expr::can_cast|cst::Expr::cast|\.exprs\(\)", body) is not None and ("push_error" in body or "lower_expr" in body)
    run.ob("R11.17", "lower|an expression at file level is lowered or reported", (not premise) or handled, site(LOWER, lf.node["sp"]),
           f"the file-level grammar parses expressions: {premise}; the lowering looks at them: {handled}",
           witness="fn main() { .. }\n    string_println(\"after main\")   (the `}` closed main too early): `check` exits 0, the call is never "
                   "executed, `helper() + no_such_function(1)` at file level is never reported")


def r11_10(run, model):
    run.rule("R11.10", "the Pratt loop stops an operand exactly when the next operator binds *less* tightly than the context (`l_bp < min_bp`): "
                       "with `<=` equal powers stop too, and the only tie the tables allow - prefix (r_bp) against `.` (l_bp) - flips: "
                       "-a.b would parse as (-a).b")
    f = model.fn("expr_bp", TB.EXPR)
    helpers = {g.name: g for g in model.fns(TB.EXPR) if g.body is not None}
    n = 0
    for iff in S.find(f.body, "If"):
        if not any(x["k"] == "Break" for x in S.walk(iff["then"])):
            continue
        c = S.norm_ws(run.facts.text(TB.EXPR, iff["cond"]["sp"]))
        if "min_bp" not in c:
            continue
        n += 1
        ok = c in ("l_bp<min_bp", "min_bp>l_bp")
        how = c
        m = re.fullmatch(r"!(\w+)\(l_bp,min_bp\)", c)
        if m and m.group(1) in helpers:
            hb = S.norm_ws(run.facts.text(TB.EXPR, helpers[m.group(1)].body["sp"])).strip("{}")
            ps = [p["pat"]["name"] for p in helpers[m.group(1)].params()]
            if len(ps) == 2:
                hb = re.sub(r"\b" + ps[0] + r"\b", "l_bp", hb)
                hb = re.sub(r"\b" + ps[1] + r"\b", "min_bp", hb)
            ok = hb in ("l_bp>=min_bp", "min_bp<=l_bp", "!(l_bp<min_bp)")
            how = f"!{m.group(1)}(..) where it is `{hb}`"
        run.ob("R11.10", f"expr_bp|operand ends only when l_bp < min_bp #{n}", ok, site(TB.EXPR, iff["sp"]), f"break condition: {how}",
               witness="-acct.balance parses as (-acct).balance; !door.locked fails to type-check")
    run.floor("binding-power comparisons in expr_bp", n, 2)


def r11_18(run, model):
    run.rule("R11.18", "whatever can start an expression is in EXPR_FIRST: every token the atom parser has an arm for, and every prefix "
                       "operator, is a member of the set the grammar tests before it asks for an optional expression (call arguments, tuple "
                       "and struct-literal elements, closure bodies) - a starter missing from the set parses after `let x =` and is a syntax "
                       "error as an argument")
    from rules import c04
    EXPR = "crates/parser/src/expr.rs"
    consts = c04.const_sets(run, model)
    first = consts.get("EXPR_FIRST")
    if not first:
        raise AnalysisIncomplete("EXPR_FIRST not found")
    f = model.fn("atom", EXPR)
    m_ = next(iter(S.find(f.body, "Match")), None)
    if m_ is None:
        raise AnalysisIncomplete("atom: match over the next token not found")
    starters = {}
    for arm in m_["arms"]:
        for mm in re.finditer(r"T!\[('.'|[^\]]+?)\]", S.norm_ws(run.facts.text(EXPR, arm["pat"]["sp"]))):
            t = mm.group(1)
            starters.setdefault(t[1] if len(t) == 3 and t[0] == "'" else t, arm)
    bp = TB.binding_powers(run, model)
    for t in bp["prefix"]:
        starters.setdefault(t, None)
    for t, arm in sorted(starters.items()):
        run.ob("R11.18", f"EXPR_FIRST|contains `{t}`", t in first, site(EXPR, arm["sp"]) if arm is not None else site(EXPR, f.node["sp"]),
               f"`{t}` starts an expression ({'atom arm' if arm is not None else 'prefix operator'}); in EXPR_FIRST: {t in first}",
               witness="call(|| 40), (0, || 5), Lazy { get: || 7 }: `expect \")\", actual \"||\"` although `let f = || 40;` parses")
    run.floor("tokens that start an expression", len(starters), 28)


def r11_19(run, model):
    run.rule("R11.19", "a function type has the parameters that are written: where lower_ty turns the left side of `->` into a parameter list, "
                       "only a tuple type is taken apart; any other type - `unit` included - is exactly one parameter (`unit -> T` and "
                       "`() -> T` are different types, and `(unit) -> T` must print and parse back as itself)")
    LOWER = "crates/ast/src/lower.rs"
    f = model.fn("lower_ty", LOWER)
    found = False
    for st in S.find(f.body, "Struct"):
        if st["segs"][-1] != "TFunc":
            continue
        pf = next((fl for fl in st["fields"] if fl["name"] == "params"), None)
        if pf is None:
            continue
        src = pf["expr"]
        if src["k"] == "Path" and len(src["segs"]) == 1:
            par = S.Parents(f.body)
            arm = next((a for a in par.ancestors(st) if a["k"] == "Arm"), None)
            scope = arm["body"] if arm is not None else f.body
            init = next((l["init"] for l in S.find(scope, "Local") if l["pat"]["k"] == "PIdent" and l["pat"]["name"] == src["segs"][0] and l.get("init") is not None), None)
            src = init if init is not None else src
        if src["k"] != "Match":
            raise AnalysisIncomplete("lower_ty: the parameter list of a function type is not computed by a match on the lowered type")
        found = True
        for i, arm in enumerate(src["arms"], 1):
            pt = S.norm_ws(run.facts.text(LOWER, arm["pat"]["sp"]))
            if re.search(r"TypeExpr::TTuple\b", pt):
                continue
            binds = S.pat_bindings(arm["pat"])
            b = arm["body"]
            one = b["k"] == "Macro" and b["name"] == "vec" and len(binds) == 1 and arm["pat"]["k"] == "PIdent" and \
                re.fullmatch(r"vec!\[" + re.escape(binds[0]) + r"\]", S.norm_ws(run.facts.text(LOWER, b["sp"]))) is not None
            run.ob("R11.19", f"lower_ty|function type: `{re.sub(r'[^A-Za-z:_]', '', pt)[:30]}` is one parameter", one, site(LOWER, arm["sp"]),
                   f"arm `{pt[:40]}` => `{S.norm_ws(run.facts.text(LOWER, b['sp']))[:40]}`",
                   witness="fn call(f: unit -> int32) -> int32 { f(()) } is rejected and `f()` accepted: the written one-parameter type became `() -> int32`")
    if not found:
        raise AnalysisIncomplete("lower_ty: no TFunc with a params field found")


def r11_22(run, model):
    run.rule("R11.22", "a call keeps its callee: (a) the CallExpr arm of the lowering hands its argument list down only to callee forms that "
                       "place arguments themselves; a closure literal - the one form that refuses handed-down arguments and can still be a "
                       "function without parentheses - is lowered on its own and then applied; (b) a handed-down argument list is "
                       "distinguishable from none, so that `(f)()` stays a call")
    LOWER = "crates/ast/src/lower.rs"
    f = model.fn("lower_expr_with_args", LOWER)
    m = max(S.find(f.body, "Match"), key=lambda x: len(x["arms"]))
    rejects, call_arm = set(), None
    for arm in m["arms"]:
        pt = S.norm_ws(run.facts.text(LOWER, arm["pat"]["sp"]))
        kinds = re.findall(r"cst::Expr::(\w+)", pt)
        if "CallExpr" in kinds:
            call_arm = arm
        for iff in S.find(arm["body"], "If"):
            c = S.norm_ws(run.facts.text(LOWER, iff["cond"]["sp"]))
            if re.fullmatch(r"!trailing_args\.is_empty\(\)", c) and any(x["k"] == "MethodCall" and x["method"] == "push_error" for x in S.walk(iff["then"])):
                rejects |= set(kinds)
    if call_arm is None:
        raise AnalysisIncomplete("lower_expr_with_args: the arm for call expressions was not found")
    # the callee forms lowered on their own: kinds named where the arm calls lower_expr on the callee
    alone = set()
    for x in S.walk(call_arm["body"]):
        if x["k"] == "Macro" and x["name"] == "matches":
            alone |= set(re.findall(r"cst::Expr::(\w+)", x.get("tokens") or ""))
        if x["k"] == "Arm" and S.norm_ws(run.facts.text(LOWER, x["body"]["sp"])) == "true":
            alone |= set(re.findall(r"cst::Expr::(\w+)", S.norm_ws(run.facts.text(LOWER, x["pat"]["sp"]))))
        if x["k"] == "Let":
            alone |= set(re.findall(r"cst::Expr::(\w+)", S.norm_ws(run.facts.text(LOWER, x["pat"]["sp"]))))
    if "ClosureExpr" in rejects:
        run.ob("R11.22", "lower_expr_with_args|a closure literal applied to arguments is lowered on its own", "ClosureExpr" in alone, site(LOWER, call_arm["sp"]),
               f"callee forms lowered first and then applied: {sorted(alone)}; forms refusing handed-down arguments: {len(rejects)}",
               witness="|| { step(r) }() loses its call (the AST holds a bare closure), |x: int32| { base + x }(2) is rejected with `Cannot apply "
                       "arguments to closure expression`")
    ps = [p_ for p_ in f.params() if not p_["self"] and p_["pat"]["k"] == "PIdent" and p_["pat"]["name"] == "trailing_args"]
    ty = (ps[0]["ty"] or "").replace(" ", "") if ps else ""
    run.ob("R11.22", "lower_expr_with_args|an empty argument list handed down is still a call", bool(ps) and ("Option<" in ty), site(LOWER, f.node["sp"]),
           f"trailing_args: {ty or '?'}; the arms test `.is_empty()` to decide whether there is a call at all",
           witness="let a = (f)(); binds the function f, not its result; `5()` is read as `5`")


def r11_21(run, model):
    run.rule("R11.21", "arguments that reach the lowering of `lhs . rhs` are applied to its result: every arm of the match on the right operand "
                       "that yields a node either uses `trailing_args` or reports an error - `(t.0)(5)` hands its argument list down to the "
                       "projection, and an arm that ignores it deletes the call. Likewise a qualified path after `.` is reported, not cut "
                       "down to its last segment")
    LOWER = "crates/ast/src/lower.rs"
    f = model.fn("lower_expr_with_args", LOWER)
    dot = None
    for m_ in S.find(f.body, "Match"):
        for arm in m_["arms"]:
            if re.fullmatch(r"MySyntaxKind::Dot", S.norm_ws(run.facts.text(LOWER, arm["pat"]["sp"]))) and arm["body"]["k"] == "Match":
                dot = arm["body"]
    if dot is None:
        raise AnalysisIncomplete("lower_expr_with_args: the match on the right operand of `.` was not found")
    n = 0
    for arm in dot["arms"]:
        pt = S.norm_ws(run.facts.text(LOWER, arm["pat"]["sp"]))
        yields = [st for st in S.find(arm["body"], "Struct") if len(st["segs"]) >= 2 and st["segs"][-2] == "Expr"]
        if not yields:
            continue
        n += 1
        uses = "trailing_args" in S.idents(arm["body"])
        run.ob("R11.21", f"lower_expr_with_args|`.` {re.sub(r'[^A-Za-z:]', '', pt)[:30]}: trailing arguments are applied", uses, site(LOWER, arm["sp"]),
               f"arm builds {sorted({st['segs'][-1] for st in yields})}; mentions trailing_args: {uses}",
               witness="let t = (inc, 1); (t.0)(5): Core shows `let _ = t.0`, the call and its argument are gone")
        if "IdentExpr" in pt:
            counts = re.search(r"ident_tokens\(\)\.(count|nth|skip)\(|\.len\(\)", S.norm_ws(run.facts.text(LOWER, arm["body"]["sp"]))) is not None
            run.ob("R11.21", "lower_expr_with_args|`.` IdentExpr: a qualified name after the dot is reported", counts, site(LOWER, arm["sp"]),
                   "the number of path segments is examined" if counts else "only `.last()` of the path's identifiers is read",
                   witness="p.Nope::Other::y is accepted and read as p.y; p.Whatever::get() as p.get()")
    run.floor("arms of the `.` lowering that build a node", n, 3)


def r11_20(run, model):
    """the lowering recognises an expression between items by Expr::can_cast: a kind missing there is dropped silently (shared with C20 R20.17)"""
    from rules import c20
    c20.cst_cast_agreement(run, model, "R11.20")


def r11_25(run, model):
    run.rule("R11.25", "trivia between two tokens is skipped by a loop, never by a single step: in the parser crate no `if` whose condition asks "
                       "whether the token at an index is trivia (is_trivia(), or a same-file predicate that is such a test) advances that "
                       "index in its then-branch - one blank and one comment are two trivia tokens, and a look-ahead that steps over one of "
                       "them answers `Comment` for the token after; the `while`-form skips found are the positive control")
    n_if, n_while = 0, 0
    for rel in model.src_files():
        if not rel.startswith("crates/parser/src/"):
            continue
        preds = {"is_trivia"}
        for g in model.fns(rel):
            if g.body is not None and len(g.body.get("stmts", [])) == 1 and any(c["k"] == "MethodCall" and c["method"] == "is_trivia" for c in S.walk(g.body)):
                preds.add(g.name)
        for f in model.fns(rel):
            if f.body is None or f.test:
                continue

            def positive(cond):
                # the predicate occurs outside a negation
                par = S.Parents(cond)
                for c in S.walk(cond):
                    if c["k"] in ("MethodCall", "Call") and S.callee_name(c) in preds:
                        neg = sum(1 for a in par.ancestors(c) if a["k"] == "Unary" and a.get("op") == "!")
                        if neg % 2 == 0:
                            return True
                return False
            for w in S.find(f.body, "While"):
                if positive(w["cond"]):
                    n_while += 1
            for iff in S.find(f.body, "If"):
                if not positive(iff["cond"]):
                    continue
                steps = [b for b in S.walk(iff["then"]) if b["k"] in ("Binary", "AssignOp") and str(b.get("op", "")).replace(" ", "") == "+="]
                if not steps:
                    continue
                n_if += 1
                run.ob("R11.25", f"{f.name}|trivia is skipped by a loop", False, site(rel, iff["sp"]),
                       f"`if {S.norm_ws(run.facts.text(rel, iff['cond']['sp']))[:70]}` advances an index once: a second trivia token is taken for the next token",
                       witness="let p = Point { // origin\n x: 0, y: 0 }: a line comment after `{` puts two trivia tokens (blank, comment) in the look-ahead "
                               "window of looks_like_struct_literal; nth(1) answers Comment and a valid struct literal produces a cascade of parse errors")
    if n_if == 0:
        run.ob("R11.25", "parser|no single-step trivia skip", True, None, f"{n_while} loop-form trivia skips, no `if`-form step over trivia")
    run.floor("loop-form trivia skips in the parser crate (positive control)", n_while, 1)


def run(run, model):
    run.try_rule(r11_10, model)
    from rules import c10
    run.rule("R11.11", "a literal's value is parsed at its own width (shared with C10 R10.1 / R10.2: an f32 literal is not rounded through f64)")
    run.try_rule(c10.r10_1, model)
    run.try_rule(c10.r10_2, model)
    run.try_rule(r11_8, model)
    # the tree a text denotes does not depend on how a name is capitalised: `let Limit = 3` binds a variable (shared with C05 R05.15)
    from rules import c05 as _c05
    run.try_rule(_c05.r05_15, model)
    run.try_rule(r11_9, model)
    run.try_rule(r11_25, model)
    run.try_rule(r11_12, model)
    run.try_rule(r11_14, model)
    run.try_rule(r11_23, model)
    run.try_rule(r11_24, model)
    run.try_rule(r11_15, model)
    run.try_rule(r11_17, model)
    from rules import c12 as _c12
    run.rule("R11.16", "an operator token reaches the tree as the operator that was written: token kinds are converted to syntax kinds by "
                       "discriminant, so the two enums are aligned index for index (shared with C12 R12.1)")
    run.try_rule(_c12.r12_1, model)
    run.try_rule(r11_6, model)
    run.try_rule(r11_7, model)
    run.try_rule(r11_1, model)
    run.try_rule(r11_2, model)
    run.try_rule(r11_3, model)
    run.try_rule(r11_4, model)
    run.try_rule(r11_5, model)
    run.try_rule(r11_18, model)
    run.try_rule(r11_19, model)
    run.try_rule(r11_20, model)
    run.try_rule(r11_21, model)
    run.try_rule(r11_22, model)
    # the grammar's look-ahead sees the same tokens as its cursor: a comment between two tokens changes no decision (shared with C12 R12.10)
    from rules import c12 as _c12
    run.try_rule(_c12.r12_10, model)
    run.assume("documented precedence order is the one in the property statement (constant oracle)")
