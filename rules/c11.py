"""C11 Source text is read as written: precedence, associativity, literal fidelity."""
import re
from lib import syn as S, tables as TB
from lib.core import AnalysisIncomplete, site

EXPLANATION = (
    "Static decision of the parser's tables against the documented grammar. R11.1: the extracted Pratt binding powers satisfy the "
    "documented order (|| < && < == != < < > <= >= < + - < * / < prefix <= .), tiers are strictly separated, every binary operator "
    "is left-associative (l_bp < r_bp), operators of one tier share their powers, the call postfix binds tighter than every binary "
    "operator except `.`. R11.2: every operator of the binding-power tables has a lowering arm and vice versa, and its lexeme "
    "survives the chain token -> syntax kind -> BinaryOp (shared with R10.3). R11.3: call arguments never cross parentheses in "
    "lower_expr_with_args. R11.4: every escape the string regex admits is decoded by the lowering. R11.5: string literal delimiters "
    "are stripped exactly (one quote each side) and identically for expressions and patterns; numeric suffixes are stripped with "
    "the suffix of the arm's own width (R10.1). Print/parse round trips over generated trees are not executed.")

LOWER = TB.LOWER
TIERS = [["||"], ["&&"], ["==", "!="], ["<", ">", "<=", ">="], ["+", "-"], ["*", "/"]]


def r11_1(run, model):
    run.rule("R11.1", "binding powers satisfy the documented precedence and associativity")
    bp = TB.binding_powers(run, model)
    inf, pre, post = bp["infix"], bp["prefix"], bp["postfix"]
    run.anchor("binding powers", str(bp))
    for t in TIERS:
        for s in t:
            run.ob("R11.1", f"infix {s}|present", s in inf, site(TB.EXPR, None), f"{s}: {inf.get(s)}")
    prev_max_r = -1
    prev = None
    for t in TIERS:
        have = [s for s in t if s in inf]
        if not have:
            continue
        ls = {inf[s][0] for s in have}
        rs = {inf[s][1] for s in have}
        run.ob("R11.1", f"tier {' '.join(t)}|same powers", len(ls) == 1 and len(rs) == 1, site(TB.EXPR, None), f"powers {[inf[s] for s in have]}",
               witness=f"operators of one precedence level ({' '.join(t)}) parse with different strength")
        for s in have:
            l, r = inf[s]
            run.ob("R11.1", f"infix {s}|left-associative", l < r, site(TB.EXPR, None), f"({l}, {r})",
                   witness=f"a {s} b {s} c parses as a {s} (b {s} c): n * 100 / total becomes n * (100 / total)")
        if prev is not None:
            ok = prev_max_r < min(ls)
            run.ob("R11.1", f"tier {' '.join(prev)} below {' '.join(t)}", ok, site(TB.EXPR, None), f"max r_bp {prev_max_r} < min l_bp {min(ls)}",
                   witness=f"`a {t[0]} b {prev[0]} c` groups the looser operator first")
        prev_max_r = max(rs)
        prev = t
    top = prev_max_r
    for s, r in pre.items():
        run.ob("R11.1", f"prefix {s}|tighter than * /", r > top, site(TB.EXPR, None), f"prefix {s}: {r} vs {top}", witness="-a * b parses as -(a * b)")
    if "." in inf:
        run.ob("R11.1", "member access|tightest", inf["."][0] >= max(pre.values() or [0]) and inf["."][0] > top and inf["."][0] < inf["."][1], site(TB.EXPR, None), f". {inf['.']}")
    if "(" in post:
        run.ob("R11.1", "call postfix|tighter than every binary operator except .", post["("] > top and post["("] < inf.get(".", (99, 99))[0] + 1, site(TB.EXPR, None), f"call {post['(']} vs binary max {top}",
               witness="a + f(x) parses as (a + f)(x)")
    extra = sorted(set(inf) - {s for t in TIERS for s in t} - {"."})
    run.ob("R11.1", "infix table|no undocumented operator", not extra, site(TB.EXPR, None), f"undocumented infix operators: {extra}")


def r11_2(run, model):
    run.rule("R11.2", "every operator in the binding-power tables is lowered (and only those), with the lexeme preserved")
    bp = TB.binding_powers(run, model)
    tm = TB.t_macro(model)
    tk = {v: (k, t) for v, k, t in TB.token_kinds(model)}
    low = model.fn("lower_expr_with_args", LOWER)
    lower_bin = {}
    for kind, op, arm in TB.arms_mapping(run, model, low, r"MySyntaxKind::([A-Za-z]+)", r"common_defs::BinaryOp::([A-Za-z]+)"):
        lower_bin.setdefault(kind, op)
    syms = TB.binop_symbols(run, model)["BinaryOp"]
    for s in sorted(bp["infix"]):
        if s == ".":
            continue
        v = tm.get(s)
        lex = tk.get(v, (None, None))[1]
        op = lower_bin.get(v)
        ok = v is not None and lex == s and op is not None and syms.get(op) == s
        run.ob("R11.2", f"infix {s}|lowered to itself", ok, site(LOWER, None), f"T![{s}] = {v}, lexeme {lex!r}, lowered to {op}, symbol {syms.get(op)!r}",
               witness=f"`a {s} b` is rejected by lowering or becomes another operator")
    inv = {v: k for k, v in tm.items()}
    for kind, op in sorted(lower_bin.items()):
        s = inv.get(kind)
        run.ob("R11.2", f"lowering {kind}|is a parsed operator", s in bp["infix"], site(LOWER, None), f"{kind} ({s}) lowered to {op}; in the infix table: {s in bp['infix']}")


def r11_3(run, model):
    run.rule("R11.3", "call arguments never cross parentheses: the ParenExpr arm of lower_expr_with_args does not forward non-empty "
                      "trailing arguments into the parenthesised expression (they apply to its value)")
    f = model.fn("lower_expr_with_args", LOWER)
    argp = None
    for p in f.params():
        if "Vec<ast::Expr>" in (p["ty"] or "").replace(" ", ""):
            argp = p["pat"]["name"]
    if argp is None:
        raise AnalysisIncomplete("lower_expr_with_args: trailing-args parameter not found")
    found = False
    for m in S.find(f.body, "Match"):
        for arm in m["arms"]:
            pt = S.norm_ws(run.facts.text(LOWER, arm["pat"]["sp"]))
            if "ParenExpr" in pt:
                found = True
                fwd = [c for c in S.calls(arm["body"], "lower_expr_with_args") if len(c["args"]) >= 3 and argp in S.idents(c["args"][2])]
                run.ob("R11.3", "lower_expr_with_args|ParenExpr keeps arguments outside", not fwd, site(LOWER, arm["sp"]),
                       "the parenthesised expression is lowered with the caller's trailing arguments pushed inside" if fwd else "arguments are applied to the parenthesised value",
                       witness="(a + inc)(2) is read as a + inc(2)")
    if not found:
        raise AnalysisIncomplete("ParenExpr arm not found")


def r11_4(run, model):
    run.rule("R11.4", "every escape sequence admitted by the lexer's string regex is decoded when the literal is lowered")
    tk = {v: (k, t) for v, k, t in TB.token_kinds(model)}
    rx = tk.get("Str", (None, ""))[1] or ""
    admits = "\\\\(" in rx or '\\\\(["' in rx or "\\\\(" in rx.replace("\\\\\\\\", "")
    admits = bool(re.search(r'\\\\\(\[', rx)) or "bnfrt" in rx
    f = model.fn("lower_expr_with_args", LOWER)
    decoded = False
    for m in S.find(f.body, "Match"):
        for arm in m["arms"]:
            if "StrExpr" in S.norm_ws(run.facts.text(LOWER, arm["pat"]["sp"])) and "Multiline" not in S.norm_ws(run.facts.text(LOWER, arm["pat"]["sp"])):
                names = [S.callee_name(c) or "" for c in S.calls(arm["body"])]
                decoded = any(re.search(r"unescape|decode|unquote|parse_string|escape", n) for n in names)
    run.ob("R11.4", "StrExpr|escapes decoded", (not admits) or decoded, site(LOWER, None),
           f"regex admits escapes: {admits}; lowering decodes them: {decoded}",
           witness='"a\\nb" prints backslash-n: the raw text between the quotes is kept and the Go printer escapes the backslash again')


def r11_5(run, model):
    run.rule("R11.5", "string delimiters are stripped exactly: one leading and one trailing quote (strip_prefix + strip_suffix), never "
                      "trim_matches/replace, and expressions and patterns use the same extraction")
    idiom = 'raw.strip_prefix(\'"\').and_then(|s|s.strip_suffix(\'"\'))'
    n = 0
    sites = {}
    for fn in model.fns(LOWER):
        if fn.body is None:
            continue
        for m in S.find(fn.body, "Match"):
            for arm in m["arms"]:
                pt = S.norm_ws(run.facts.text(LOWER, arm["pat"]["sp"]))
                mm = re.search(r"cst::(Expr|Pattern)::(StrExpr|StringPat)\b", pt)
                if not mm:
                    continue
                bt = S.norm_ws(run.facts.text(LOWER, arm["body"]["sp"])).replace("\\\"", '"')
                n += 1
                exact = idiom in bt
                sloppy = re.search(r"trim_matches|trim_start_matches\('\"'\)|trim_end_matches\('\"'\)|replace\('\"'", bt) is not None
                sites[mm.group(2)] = exact and not sloppy
                run.ob("R11.5", f"{fn.name}|{mm.group(2)} strips exactly one quote per side", exact and not sloppy, site(LOWER, arm["sp"]),
                       "strip_prefix('\"').and_then(strip_suffix('\"'))" if exact and not sloppy else "delimiters removed by another method",
                       witness='"say \\"hi\\"" loses its final escaped quote; the identically spelled pattern no longer equals the literal')
    run.floor("string literal lowering arms", n, 2)
    # expected-zero rule with positive control: quote-trimming calls anywhere in lower.rs
    ctrl = 0
    bad = 0
    for fn in model.fns(LOWER):
        if fn.body is None:
            continue
        for c in S.calls(fn.body, "trim_matches", "trim_start_matches", "trim_end_matches"):
            ctrl += 1
            a = S.norm_ws(run.facts.text(LOWER, c["sp"]))
            if "'\"'" in a or '"\\""' in a:
                bad += 1
                run.ob("R11.5", f"{fn.name}|no quote trimming", False, site(LOWER, c["sp"]), f"`{a[-60:]}` removes every leading/trailing quote")
    run.ob("R11.5", "lower.rs|no trim of quote characters", bad == 0, site(LOWER, None), f"{ctrl} trim_* calls in lower.rs (positive control), {bad} on quote characters")
    run.floor("positive control: trim_* calls recognised in lower.rs", ctrl, 1)


def run(run, model):
    run.try_rule(r11_1, model)
    run.try_rule(r11_2, model)
    run.try_rule(r11_3, model)
    run.try_rule(r11_4, model)
    run.try_rule(r11_5, model)
    run.assume("documented precedence order is the one in the property statement (constant oracle)")
