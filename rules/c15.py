"""C15 Linking never combines packages built against different interfaces."""
import re
from lib import syn as S
from lib.mir import Mir, callee_tail, reachable_adts, find_adt, HASH_TY
from lib.core import AnalysisIncomplete, site

EXPLANATION = (
    "Static decision of the artifact discipline. R15.1: the hash view has exactly the fields of InterfaceUnit minus the hash "
    "itself, compute_hash copies each from the same-named field, and no serde skip/default/flatten attribute hides data of any "
    "type reachable from the view. R15.2: no expression/body type is reachable from the hashed exports, so body-only edits cannot "
    "move the hash. R15.3: every serde_json deserialisation of an InterfaceUnit/CoreUnit is followed, before the value can be "
    "returned, by a rejecting test that (transitively through validate methods) compares the stored hash with the recomputed one "
    "and format_version/compiler_abi with the compiler's own constants. R15.4: link compares, for every (package, pinned "
    "dependency) pair, the pinned hash with the linked dependency's hash and rejects absence/mismatch before any environment is "
    "merged. R15.5: the pinned hash is taken from the very interface unit whose exports were used. R15.6: every CoreUnit field read "
    "by the linker is covered by the validated hash or cross-checked against a field that is. Histories of edits/rebuilds are not "
    "executed; these are the necessary conditions that make stale or foreign artifacts rejectable.")

ART = "crates/compiler/src/artifact.rs"
SEP = "crates/compiler/src/pipeline/separate.rs"


# serde(with=…) helpers that serialise every entry, in order (read: indexmap's serde_seq writes the map as a sequence of pairs)
ORDER_PRESERVING_WITH = {'with="indexmap::map::serde_seq"'}


def struct_fields(model, name, rel=None):
    s = model.struct(name, rel)
    return [f["name"] for f in s["fields"]], s


def r15_11(run, model):
    run.rule("R15.11", "what an artifact does not say is not assumed: every field that the validation of a deserialised InterfaceUnit / CoreUnit "
                       "compares (format version, compiler ABI, package, pinned dependencies, hash) has to be present in the file - no "
                       "#[serde(default/skip*/flatten)] on the fields of the two unit structs, or a file without a header passes as the "
                       "current format")
    n = 0
    for name in ("InterfaceUnit", "CoreUnit"):
        flds, st = struct_fields(model, name)
        for f in st["fields"]:
            n += 1
            bad = [a for a in f.get("attrs", []) if a["name"] == "serde" and re.search(r"\b(default|skip\w*|flatten)\b", a["args"])]
            run.ob("R15.11", f"{name}.{f['name']}|must be present in the file", not bad, site(st["file"], (bad[0] if bad else st["node"])["sp"]),
                   f"serde attributes: {[a['args'] for a in f.get('attrs', []) if a['name'] == 'serde'] or 'none'}",
                   witness="an .interface file from which format_version and compiler_abi were deleted (or that predates a format bump) is read as "
                           "the current format and linked")
    run.floor("fields of the artifact units", n, 12)


def r15_1(run, model, mir):
    run.rule("R15.1", "fields(InterfaceUnit) minus the hash field = fields(InterfaceHashView); compute_hash maps each view field to "
                      "the same-named self field; no #[serde(skip*/default/flatten/with)] on any type reachable from the view")
    unit_f, unit_s = struct_fields(model, "InterfaceUnit")
    view_f, view_s = struct_fields(model, "InterfaceHashView")
    hash_fields = [f for f in unit_f if "hash" in f]
    run.anchor("InterfaceUnit / InterfaceHashView", f"{unit_s['file']}: unit={unit_f} view={view_f}")
    missing = [f for f in unit_f if f not in view_f and f not in hash_fields]
    extra = [f for f in view_f if f not in unit_f]
    for f in unit_f:
        if f in hash_fields:
            continue
        run.ob("R15.1", f"InterfaceHashView|covers {f}", f in view_f, site(view_s["file"], view_s["node"]["sp"]),
               f"InterfaceUnit.{f} {'is' if f in view_f else 'is NOT'} part of the hashed view",
               witness=f"a dependent-visible change confined to `{f}` leaves interface_hash unchanged, so stale dependents still link")
    run.ob("R15.1", "InterfaceHashView|no foreign field", not extra, site(view_s["file"], view_s["node"]["sp"]), f"view-only fields: {extra}")
    run.ob("R15.1", "InterfaceUnit|exactly one hash field", len(hash_fields) == 1, site(unit_s["file"], unit_s["node"]["sp"]), f"hash fields: {hash_fields}")
    # compute_hash wiring
    ch = model.fn("compute_hash", unit_s["file"], impl="InterfaceUnit")
    lits = [n for n in S.find(ch.body, "Struct") if n["segs"][-1] == "InterfaceHashView"]
    if not lits:
        run.ob("R15.1", "compute_hash|builds the view", False, site(ch.file, ch.node["sp"]), "compute_hash does not construct InterfaceHashView")
    for lit in lits:
        for fl in lit["fields"]:
            txt = S.norm_ws(run.facts.text(ch.file, fl["expr"]["sp"])) if not fl["shorthand"] else fl["name"]
            ok = re.fullmatch(r"&?self\." + re.escape(fl["name"]) + r"(\.clone\(\))?", txt) is not None
            run.ob("R15.1", f"compute_hash|{fl['name']} <- self.{fl['name']}", ok, site(ch.file, fl["sp"]),
                   f"view field {fl['name']} is initialised from `{txt}`",
                   witness="the hash would cover a different value than the one stored in the artifact")
        if lit.get("rest") is not None:
            run.ob("R15.1", "compute_hash|no struct-update", False, site(ch.file, lit["sp"]), "view built with ..rest")
    # the digest covers the serialised view
    ser = [c for c in S.calls(ch.body, "to_vec", "to_string", "to_writer") if True]
    dig = [c for c in S.calls(ch.body, "digest", "update", "finalize", "new_with_prefix")]
    run.ob("R15.1", "compute_hash|sha256(serde_json(view))", bool(ser) and bool(dig), site(ch.file, ch.node["sp"]),
           f"serialisers: {[S.callee_name(c) for c in ser]}, digest calls: {[S.callee_name(c) for c in dig]}")
    # serde attributes on reachable types
    root = find_adt(mir, "artifact::InterfaceHashView")
    reach = reachable_adts(mir, root)
    run.floor("types reachable from InterfaceHashView", len(reach), 10)
    bad_attr = re.compile(r"\b(skip|skip_serializing|skip_serializing_if|default|flatten|with|serialize_with|rename|untagged|tag|into|from|try_from|remote)\b")
    checked = 0
    for key, path in sorted(reach.items()):
        crate, p = key
        name = p.split("::")[-1]
        cands = [s for s in model.structs() + model.enums() if s["name"] == name]
        for s in cands:
            checked += 1
            atts = list(s["node"].get("attrs", []))
            members = s.get("fields") if "fields" in s else None
            if members is None:
                for v in s["variants"]:
                    atts += v.get("attrs", [])
                    for fl in v["fields"]:
                        atts += fl.get("attrs", [])
            else:
                for fl in members:
                    atts += fl.get("attrs", [])
            hits = [a for a in atts if a["name"] == "serde" and bad_attr.search(a["args"])
                    and S.norm_ws(a["args"]) not in ORDER_PRESERVING_WITH]
            run.ob("R15.1", f"{p}|serde attributes", not hits, site(s["file"], s["node"]["sp"]),
                   f"serde attributes on {p}: {[a['args'] for a in hits] or 'none that hide or reshape data'}",
                   witness="a field skipped/defaulted by serde is not covered by the interface hash")
    run.floor("reachable type definitions inspected for serde attributes", checked, 10)
    return reach


EXPR_TY = re.compile(r"\b(hir::Expr|hir::ExprId|tast::Expr|core::Expr|ast::ast::Expr|ast::Expr|mono::|lift::|anf::|hir::Pat\b|hir::PatId|tast::Pat\b|tast::Arm|hir::Arm|core::Arm|core::Fn\b|tast::Fn\b|hir::Fn\b)")


def r15_2(run, model, mir, reach):
    if reach is None:
        raise AnalysisIncomplete("R15.2 needs the type reachability computed by R15.1")
    run.rule("R15.2", "no expression/body-carrying type is reachable from the hashed interface (exports, hir_interface), so a "
                      "body-only edit cannot change the interface hash")
    n = 0
    for key, path in sorted(reach.items()):
        a = mir.adts[key]
        for v in a["variants"]:
            for f in v["fields"]:
                n += 1
                if EXPR_TY.search(f["ty"]):
                    run.ob("R15.2", f"{a['path']}.{f['name']}|body type", False, None,
                           f"field {a['path']}.{f['name']}: {f['ty']} carries function bodies into the hashed interface (via {path})",
                           witness="editing only a function body changes interface_hash and makes every dependent unlinkable")
    run.ob("R15.2", "InterfaceHashView|field types scanned", True, None, f"{n} fields of {len(reach)} reachable types carry no body type")
    run.floor("fields scanned for body types", n, 30)


def _eq_tags(run, rel, n, self_ty=None):
    l = S.norm_ws(run.facts.text(rel, n["left"]["sp"]))
    r = S.norm_ws(run.facts.text(rel, n["right"]["sp"]))
    pair = {l, r}
    both = l + " " + r
    tags = set()
    def owner(x):
        # whose header field is compared: the embedded interface's, or the unit's own (`self.` in a method of that type, a local at the site)
        return "InterfaceUnit" if "interface." in x else (self_ty or "?")
    if "FORMAT_VERSION" in both and any(x.endswith("format_version") for x in pair):
        tags.add("format_version==FORMAT_VERSION")
        tags |= {"format_version@" + owner(x) for x in pair if x.endswith("format_version")}
    if "COMPILER_ABI" in both and any(x.endswith("compiler_abi") for x in pair):
        tags.add("compiler_abi==COMPILER_ABI")
        tags |= {"compiler_abi@" + owner(x) for x in pair if x.endswith("compiler_abi")}
    if any(x.endswith("interface_hash") for x in pair) and "compute_hash()" in both:
        tags.add("interface_hash==compute_hash()")
    if any(x.endswith(".package") or x == "package" for x in pair) and "interface.package" in both:
        tags.add("package==interface.package")
    if any(x.endswith("deps") for x in pair) and "interface.deps" in both:
        tags.add("deps==interface.deps")
    return tags


def facts(run, model, rel, e, self_ty, depth, seen):
    """(facts guaranteed when e is true, facts guaranteed when e is false); conjunction/disjunction/negation aware, so
    `h.is_empty() || h == compute_hash()` establishes nothing when true"""
    k = e["k"]
    if k == "Paren":
        return facts(run, model, rel, e["expr"], self_ty, depth, seen)
    if k == "Unary" and e.get("op") == "!":
        t, f_ = facts(run, model, rel, e["expr"], self_ty, depth, seen)
        return f_, t
    if k == "Binary":
        if e["op"] == "==":
            return _eq_tags(run, rel, e, self_ty), set()
        if e["op"] == "!=":
            return set(), _eq_tags(run, rel, e, self_ty)
        if e["op"] in ("&&", "||"):
            lt, lf = facts(run, model, rel, e["left"], self_ty, depth, seen)
            rt, rf = facts(run, model, rel, e["right"], self_ty, depth, seen)
            return (lt | rt, lf & rf) if e["op"] == "&&" else (lt & rt, lf | rf)
        return set(), set()
    if k == "MethodCall" and (e["method"] in ("validate", "validate_hash", "validate_versions", "is_valid", "check") or e["method"].startswith("validate")):
        recv = S.norm_ws(run.facts.text(rel, e["recv"]["sp"]))
        if recv.endswith("interface"):
            targets = ["InterfaceUnit"]
        elif recv == "self" and self_ty:
            targets = [self_ty]
        else:
            targets = ["InterfaceUnit", "CoreUnit"]
        tags = set()
        for t in targets:
            for cand in model.find_fns(e["method"], None, impl=t):
                tags |= collect_checks(run, model, cand, depth + 1, seen)
        return tags, set()
    return set(), set()


def collect_checks(run, model, fninfo, depth=0, seen=None):
    """facts established when a boolean validation method returns true: its tail expression's true-facts plus the false-facts of
    every `if c { return false }` before it"""
    seen = seen or set()
    tags = set()
    if fninfo is None or fninfo.body is None or fninfo.qual in seen or depth > 3:
        return tags
    seen.add(fninfo.qual)
    body = fninfo.body
    stmts = body["stmts"]
    for st in stmts:
        e = st.get("expr") if st["k"] == "ExprStmt" else None
        if e is not None and e["k"] == "If" and any(r.get("expr") is not None and S.norm_ws(run.facts.text(fninfo.file, r["expr"]["sp"])) == "false"
                                                      for r in S.find(e["then"], "Return")):
            tags |= facts(run, model, fninfo.file, e["cond"], fninfo.impl, depth, seen)[1]
    if stmts and stmts[-1]["k"] == "ExprStmt" and not stmts[-1].get("semi"):
        tags |= facts(run, model, fninfo.file, stmts[-1]["expr"], fninfo.impl, depth, seen)[0]
    return tags


def facts_in_expr(run, model, rel, expr, self_ty, depth, seen):
    """facts established when a *rejecting* condition is false (the path that continues)"""
    return facts(run, model, rel, expr, self_ty, depth, seen)[1]


def r15_3(run, model, mir, need=None, core_header=True):
    run.rule("R15.3", "every deserialised InterfaceUnit/CoreUnit passes, before it can be returned, a rejecting test that establishes "
                      "interface_hash == compute_hash(), format_version == FORMAT_VERSION and compiler_abi == COMPILER_ABI")
    sites = []
    for c in mir.calls:
        if not c["file"].startswith("crates/compiler/src/") or "/tests/" in c["file"]:
            continue
        # serde_json::from_*  or an explicit `<T as Deserialize>::deserialize(&mut serde_json::Deserializer)`
        explicit = re.search(r"Deserialize<'de> for artifact::(InterfaceUnit|CoreUnit)>::deserialize", c["callee"]) is not None
        if not explicit and not re.search(r"serde_json::(de::)?from_(str|slice|reader|value)", c["callee"]):
            continue
        m = re.search(r"artifact::(InterfaceUnit|CoreUnit)", c["ret"])
        if not m:
            continue
        sites.append((c, m.group(1)))
    run.floor("artifact deserialisation sites", len(sites), 2)
    need_all = need or {"interface_hash==compute_hash()", "format_version==FORMAT_VERSION", "compiler_abi==COMPILER_ABI"}
    for c, ty in sites:
        rel = c["file"]
        fn_ = None
        for f in model.fns(rel):
            sp = f.node["sp"]
            if sp[0] <= c["line"] <= sp[2]:
                fn_ = f
        if fn_ is None:
            continue
        # the local that receives the value
        var = None
        loc_stmt = None
        for loc in S.find(fn_.body, "Local"):
            if loc.get("init") and loc["sp"][0] <= c["line"] <= loc["sp"][2] and loc["pat"]["k"] == "PIdent":
                var, loc_stmt = loc["pat"]["name"], loc
        key = f"{fn_.qual}|{ty}"
        if var is None:
            run.ob("R15.3", key + "|bound", False, site(rel, [c["line"]]), "deserialised value is not bound to a local that could be validated")
            continue
        # rejecting tests on var after the binding: `if <cond> { return Err }` / `if !cond {..}` / `cond.then(..)`…
        tags = set()
        rejecting = 0
        for iff in S.find(fn_.body, "If"):
            if (iff["sp"][0], iff["sp"][1]) < (loc_stmt["sp"][2], loc_stmt["sp"][3]):
                continue
            if var not in S.idents(iff["cond"]):
                continue
            diverges = any(r for r in S.find(iff["then"], "Return")) or any(m for m in S.find(iff["then"], "Macro") if m["name"] in ("bail", "panic"))
            if not diverges:
                continue
            cond_txt = S.norm_ws(run.facts.text(rel, iff["cond"]["sp"]))
            # `if let Some(reason) = explain(&unit) { return Err(..) }`: the facts that hold when the explaining helper returns None
            if iff["cond"]["k"] == "Let" and re.match(r"Some\(", S.norm_ws(run.facts.text(rel, iff["cond"]["pat"]["sp"]))):
                init = iff["cond"].get("expr") or iff["cond"].get("init")
                if init is not None and init["k"] == "Call":
                    g = model.opt_fn(S.callee_name(init) or "", rel)
                    if g is not None and g.body is not None:
                        sub_none = set()
                        for st in g.body["stmts"]:
                            e = st.get("expr") if st["k"] == "ExprStmt" else None
                            if e is not None and e["k"] == "If" and any(r.get("expr") is not None and S.callee_name(r["expr"]) == "Some" for r in S.find(e["then"], "Return")):
                                sub_none |= facts(run, model, g.file, e["cond"], ty, 1, set())[1]
                        if sub_none:
                            rejecting += 1
                            tags |= sub_none
                        continue
            # the condition must be a *negated* validation or an inequality against the constants
            sub = facts_in_expr(run, model, rel, iff["cond"], ty, 0, set())
            # polarity: `!x.validate()` or `a != CONST`; a positive `x.validate()` guarding a return Err would be inverted logic
            if sub:
                rejecting += 1
                tags |= sub
        missing = sorted(need_all - tags)
        run.ob("R15.3", key + "|validated before use", not missing, site(rel, [c["line"]]),
               f"`{var}` ({ty}) from serde_json; rejecting tests establish {sorted(tags) or 'nothing'}" + (f"; missing: {missing}" if missing else ""),
               witness="an artifact written by another format version / ABI (or with an inconsistent hash) is accepted and linked")
        if ty == "CoreUnit" and core_header:
            # the core file has a header of its own (format_version, compiler_abi) beside the one of the interface embedded in it: a test
            # that only looks at the embedded copy lets a core stamped by another compiler through
            own = {"format_version@CoreUnit", "compiler_abi@CoreUnit"}
            miss0 = sorted(own - tags)
            run.ob("R15.3", key + "|the core's own header versions are tested", not miss0, site(rel, [c["line"]]),
                   "format_version and compiler_abi of the CoreUnit itself are compared with the compiler's" if not miss0 else
                   f"only the embedded interface's header is compared; missing: {miss0}",
                   witness="Lib.core with its outer \"format_version\" edited to 2 (the embedded interface intact) is accepted by read_core and linked")
            extra = {"package==interface.package", "deps==interface.deps"}
            miss2 = sorted(extra - tags)
            run.ob("R15.3", key + "|core header agrees with its hashed interface", not miss2, site(rel, [c["line"]]),
                   f"cross-checks established: {sorted(tags & extra)}" + (f"; missing: {miss2}" if miss2 else ""),
                   witness="a core whose pinned deps were edited (not covered by any hash) links against interfaces it was not built with")


def r15_4(run, model):
    run.rule("R15.4", "link_cores compares, for every (package, pinned dependency) pair, the pinned hash with the linked dependency's "
                      "interface_hash and returns Err on absence or mismatch, before any environment merge or back-end stage")
    f = model.fn("link_cores", SEP)
    par = S.Parents(f.body)
    # taint: variables bound by iterating `<unit>.deps` where <unit> is itself bound by iterating the set of linked units
    cmp_sites = []
    for n in S.walk(f.body):
        if n["k"] == "Binary" and n["op"] in ("!=", "=="):
            txt = S.norm_ws(run.facts.text(f.file, n["sp"]))
            if "interface_hash" in txt:
                cmp_sites.append(n)
    ok_any = False
    detail = "no comparison with interface_hash found in link_cores"
    for n in cmp_sites:
        ids = S.idents(n)
        # enclosing loops / iterator closures, innermost first
        binders = []
        for a in par.ancestors(n):
            if a["k"] == "For":
                binders.append((set(S.pat_bindings(a["pat"])), S.norm_ws(run.facts.text(f.file, a["iter"]["sp"])), a))
            elif a["k"] == "Closure":
                pp = par.parent(a)
                if pp is not None and pp["k"] == "MethodCall":
                    chain = S.norm_ws(run.facts.text(f.file, pp["recv"]["sp"]))
                    names = set()
                    for p in a["inputs"]:
                        names |= set(S.pat_bindings(p))
                    binders.append((names, chain, a))
        dep_level = None
        for i, (names, it, node) in enumerate(binders):
            if re.search(r"\.deps(\.iter\(\)|\.into_iter\(\)|$|\))", it) or it.endswith(".deps") or ".deps." in it:
                if names & ids:
                    dep_level = i
                    dep_iter = it
                    break
        if dep_level is None:
            detail = "the hash comparison does not use a variable bound by iterating a unit's `deps` map (one pinned hash per (package, dependency) pair)"
            continue
        unit_var = re.match(r"^&?(?:mut)?([A-Za-z_][A-Za-z0-9_]*)\.deps", dep_iter)
        outer_ok = False
        for names, it, node in binders[dep_level + 1:]:
            if unit_var and unit_var.group(1) in names:
                outer_ok = True
        # the deps owner may also be obtained by indexing with the outer loop variable: `let unit = &by_name[pkg]`
        if not outer_ok and unit_var:
            for loc in S.find(f.body, "Local"):
                if loc["pat"]["k"] == "PIdent" and loc["pat"]["name"] == unit_var.group(1) and loc.get("init"):
                    init_ids = S.idents(loc["init"])
                    for names, it, node in binders[dep_level + 1:]:
                        if names & init_ids and S.span_contains(node["sp"], loc["sp"]):
                            outer_ok = True
        if not outer_ok:
            detail = f"`{dep_iter}` is not iterated for every linked unit"
            continue
        # ... and that outer loop ranges over *all* linked units: its iterable (a named list is followed to its initialiser) walks the
        # collection of units (keys / values / iter of the map built from the cores, or the cores themselves), it is not a hand-picked list
        whole = False
        for names, it, node in binders[dep_level + 1:]:
            src = node["iter"] if node["k"] == "For" else None
            hops = 0
            while src is not None and src["k"] == "Path" and len(src["segs"]) == 1 and hops < 3:
                inits = [l["init"] for l in S.find(f.body, "Local") if src["segs"][0] in S.pat_bindings(l["pat"]) and l.get("init") is not None]
                if len(inits) != 1:
                    break
                src = inits[0]
                hops += 1
            if src is None:
                whole = True      # an iterator chain over the units (closure form): the chain text was matched above
                continue
            picked = any(x["k"] in ("Array", "Tuple") or (x["k"] == "Macro" and x.get("name") == "vec") for x in S.walk(src))
            walks = any(c["k"] == "MethodCall" and c["method"] in ("keys", "values", "iter", "into_iter", "values_mut", "iter_mut", "into_values", "into_keys")
                        for c in S.walk(src)) or (src["k"] in ("Path", "Ref") and not picked)
            if walks and not picked:
                whole = True
        if not whole:
            detail = "the loop around the pins ranges over a hand-picked list of units, not over every linked unit: the pins of the others are never compared"
            continue
        # the failing branch returns Err
        iff = next((a for a in par.ancestors(n) if a["k"] == "If"), None)
        rejects = iff is not None and any(True for _ in S.find(iff["then"], "Return")) and n["op"] == "!="
        if not rejects and iff is not None and n["op"] == "==" and iff.get("else") is not None:
            rejects = any(True for _ in S.find(iff["else"], "Return"))
        if not rejects:
            detail = "hash mismatch does not return Err"
            continue
        # absence of the dependency is an error too
        loop_node = binders[dep_level][2]
        absent = False
        for loc in S.find(loop_node, "Local"):
            if loc.get("else") is not None and any(True for _ in S.find(loc["else"], "Return")):
                absent = True
        for m in S.find(loop_node, "Match"):
            for arm in m["arms"]:
                if S.pat_head(arm["pat"])[0] == "variant" and S.pat_head(arm["pat"])[1][-1] == "None" and any(True for _ in S.find(arm["body"], "Return")):
                    absent = True
        if not absent:
            detail = "a pinned dependency that is not among the linked units is not rejected"
            continue
        # no pin is exempted: nothing in the loop over the pins skips an iteration before the comparison
        skips = [x for x in S.walk_no_closures(loop_node["body"] if loop_node["k"] == "For" else loop_node)
                 if x["k"] in ("Continue", "Break") and (x["sp"][0], x["sp"][1]) < (n["sp"][0], n["sp"][1])]
        if skips:
            detail = f"a `{skips[0]['k'].lower()}` at line {skips[0]['sp'][0]} lets some pins pass without being compared"
            continue
        # dominance: the loop statement precedes every apply_to / topo_sort / mono call in the function body
        top = loop_node
        while par.parent(top) is not None and par.parent(top) is not f.body:
            top = par.parent(top)
        later = [c for c in S.calls(f.body, "apply_to", "mono", "link_packages", "lambda_lift", "go_file", "anf_file")]
        before = [c for c in later if (c["sp"][0], c["sp"][1]) < (top["sp"][0], top["sp"][1])]
        if before:
            detail = f"{S.callee_name(before[0])} runs before the staleness check"
            continue
        ok_any = True
        detail = f"pairwise comparison inside loops over units and `{dep_iter}`; absence and mismatch return Err; check precedes {len(later)} merge/back-end calls"
    run.ob("R15.4", "link_cores|every pinned hash compared", ok_any, site(f.file, f.node["sp"]), detail,
           witness="two packages depend on one library; the stale one's pin is never compared and it links against an interface it was not built with")


def r15_5(run, model):
    run.rule("R15.5", "the hash pinned for a dependency is the interface_hash of the very unit whose exports and HIR interface were "
                      "used for type-checking (same local, bound from the interface loader)")
    n = 0
    for name in ("check_package", "build_package"):
        f = model.fn(name, SEP)
        for loop in S.find(model.inlined_body(f), "For"):
            ins = [c for c in S.calls(loop["body"], "insert") if c["k"] == "MethodCall"]
            pinned = [c for c in ins if len(c["args"]) == 2 and "interface_hash" in S.norm_ws(run.facts.text(f.file, c["args"][1]["sp"]))]
            if not pinned:
                continue
            n += 1
            loaders = {}
            for loc in S.find(loop["body"], "Local"):
                if loc["pat"]["k"] == "PIdent" and loc.get("init") and any(True for _ in S.calls(loc["init"], "load_interface_from_paths")):
                    loaders[loc["pat"]["name"]] = loc
            src_vars = set()
            used_vars = set()
            for c in ins:
                t = S.norm_ws(run.facts.text(f.file, c["args"][1]["sp"])) if len(c["args"]) == 2 else ""
                m = re.match(r"^([A-Za-z_][A-Za-z0-9_]*)\.(interface_hash|exports|hir_interface)", t)
                if m:
                    (src_vars if m.group(2) == "interface_hash" else used_vars).add(m.group(1))
            # nothing else writes the pin table in this loop (extend/append from another unit's recorded pins would overwrite it)
            pin_tables = set()
            for c in pinned:
                r = c["recv"]
                if S.is_path(r):
                    pin_tables.add(r["segs"][0])
            other_writes = [c["method"] for c in S.walk(loop["body"]) if c["k"] == "MethodCall" and c["method"] in ("extend", "append", "entry", "insert")
                            and S.is_path(c["recv"]) and c["recv"]["segs"][0] in pin_tables and c not in pinned]
            ok = len(src_vars) == 1 and src_vars <= set(loaders) and used_vars <= src_vars and bool(used_vars) and not other_writes
            run.ob("R15.5", f"{f.qual}|pinned hash source", ok, site(f.file, loop["sp"]),
                   f"hash taken from {sorted(src_vars)}, exports/HIR taken from {sorted(used_vars)}, loaded units {sorted(loaders)}; other writes to the pin table: {other_writes or 'none'}",
                   witness="the recorded pin describes a different interface than the one the package was checked against")
    run.floor("dependency pinning loops", n, 2)


def r15_6(run, model, mir):
    run.rule("R15.6", "every CoreUnit field the linker reads is covered by the validated interface hash or cross-checked against a "
                      "field that is (header fields), so an altered core file is rejected")
    core_f, core_s = struct_fields(model, "CoreUnit")
    val = model.fn("validate", core_s["file"], impl="CoreUnit")
    txt = S.norm_ws(run.facts.text(val.file, val.body["sp"]))
    link = model.fn("link_cores", SEP)
    read = set()
    for n in S.walk(link.body):
        if n["k"] == "Field" and n["member"] in core_f:
            read.add(n["member"])
    run.anchor("CoreUnit fields read by link_cores", sorted(read))
    if len(read) < 3:
        raise AnalysisIncomplete("link_cores reads fewer CoreUnit fields than expected")
    for fld in core_f:
        if fld not in read:
            continue
        covered = re.search(r"self\." + re.escape(fld) + r"\b", txt) is not None
        run.ob("R15.6", f"CoreUnit.{fld}|validated", covered, site(core_s["file"], core_s["node"]["sp"]),
               f"CoreUnit::validate {'mentions' if covered else 'does not mention'} self.{fld}",
               witness=f"edit `{fld}` inside a .core file: read_core accepts it and link uses the altered value")


def r15_9(run, model):
    run.rule("R15.9", "a build leaves a matching pair of artifacts: execute_build writes the interface file and the core file on every path "
                      "that ends in Ok, and execute_check writes the interface it computed - no write is conditional on what is already on "
                      "disk (a dependant reads the .interface, link reads the .core: an interface file left over from a diverging `check` "
                      "next to a new core can never be linked against, however often the dependant is rebuilt)")
    MAIN = "crates/compiler/src/main.rs"
    for name, want in (("execute_build", 2), ("execute_check", 1)):
        f = model.fn(name, MAIN)
        par = S.Parents(f.body)
        writes = [c for c in S.walk(f.body) if c["k"] == "Call" and (S.callee_segs(c) or [])[-2:] == ["fs", "write"]]
        cond = [w for w in writes if any(a["k"] in ("If", "Match", "While", "For", "Closure", "Loop") for a in par.ancestors(w))]
        paths = {S.norm_ws(run.facts.text(MAIN, w["args"][0]["sp"])) for w in writes if w["args"]}
        run.ob("R15.9", f"{name}|writes {want} artifact file(s)", len(paths) >= want, site(MAIN, f.node["sp"]), f"fs::write targets: {sorted(paths)}")
        last = max(((w["sp"][0], w["sp"][1]) for w in writes), default=(0, 0))
        early = [r for r in S.walk_no_closures(f.body) if r["k"] == "Return" and r.get("expr") is not None and S.callee_name(r["expr"]) == "Ok" and
                 (r["sp"][0], r["sp"][1]) < last]
        run.ob("R15.9", f"{name}|no successful exit before the artifacts are written", not early, site(MAIN, (early or [f.node])[0]["sp"]),
               f"{len(early)} `return Ok(..)` before the last write",
               witness="a make-style freshness test that returns early when the outputs are newer than the package's own sources ignores the "
                       "interfaces of its dependencies: after an interface-changing edit of Lib, `build Main` keeps the old Main.core and link "
                       "answers `rebuild Main` however often it is rebuilt")
        run.ob("R15.9", f"{name}|every artifact write is unconditional", not cond, site(MAIN, (cond or [f.node])[0]["sp"]),
               f"{len(writes)} write(s), {len(cond)} inside a conditional or loop",
               witness="build Lib v1, build Main, edit Lib, check Lib, undo the edit, build Lib, build Main, link: Lib.interface keeps the v2 hash "
                       "next to a v1 Lib.core; `expects interface_hash ... (rebuild Main)` for ever")


def r15_10(run, model):
    from rules import c13 as _c13
    cx = _c13.Ctx(run, model)
    _c13.r13_5(run, cx)
    _c13.file_identity_order(run, model, "R15.10")


def r15_8(run, model):
    from rules import c13 as _c13
    _c13.r13_4(run, _c13.Ctx(run, model))


def run(run, model):
    # the interface hash is a function of the sources: a hash-ordered iteration that reaches an ordered sink in the front end reorders the
    # exported tables, the hash differs from build to build and an up-to-date dependent is refused (or, worse, two builds of one source
    # are taken for two interfaces) - shared with C13 R13.1
    from rules import c13 as _c13h
    run.try_rule(_c13h.r13_1, _c13h.Ctx(run, model))
    mir = Mir(run.facts)
    reach = run.try_rule(r15_1, model, mir)
    run.try_rule(r15_2, model, mir, reach)
    run.try_rule(r15_3, model, mir)
    run.try_rule(r15_4, model)
    run.try_rule(r15_5, model)
    run.try_rule(r15_6, model, mir)
    # a hash-ordered container inside what is hashed makes the interface hash differ between two builds of the same sources:
    # body-only rebuilds change it and unaltered artifacts are refused (shared with C13 R13.4)
    from rules import c13 as _c13
    run.try_rule(r15_8, model)
    run.try_rule(r15_9, model)
    # the file order decides DefIds and export order, both hashed: the inputs are sorted and de-duplicated by identity (shared with C13 R13.5 / R13.7)
    run.try_rule(r15_10, model)
    run.try_rule(r15_11, model)
    from rules import c03
    run.rule("R15.7", "a changed trait bound changes the interface hash: the hashed exports are FnSchemes, so the bounds of a generic item have "
                      "to be part of FnScheme (shared with C03 R03.10) - today `fn show_all[T: Show]` and `fn show_all[T: Debug]` export the "
                      "same scheme and a dependant built against the first still links against the second")
    run.try_rule(c03.r03_10, model)
    run.assume("serde_json serialisation of the reachable types is injective on values (outside the repository)")
    run.assume("R15.4 recognises pairwise checking written as nested loops or iterator closures over `<unit>.deps`; a refactor that "
               "first copies the pairs into another collection is reported for review rather than followed")
