"""C06 Pattern matching picks the first matching arm and binds the right sub-values."""
import re
from lib import syn as S
from lib.mir import Mir, callee_tail, strip_generics
from lib.core import AnalysisIncomplete, site

EXPLANATION = (
    "Static decision of the order/fallback discipline of the match compiler. R06.1: on every Vec<Row> only order-preserving "
    "operations occur (resolved callees) and literal buckets are insertion-ordered maps. R06.2: compile_int_case_impl and "
    "compile_string_case are the same algorithm; in each, a row with a literal goes to that literal's bucket, a new bucket starts "
    "from the rows seen so far that do not constrain the column (fallback_rows.clone()), and a row that does not constrain the "
    "column is appended UNCONDITIONALLY to every existing bucket, to the fallback list and to the default rows; the two siblings "
    "agree. R06.3: an empty row set compiles to the failure call first; a literal match without default rows is a diagnostic "
    "(integers) or gets a failing default (strings). R06.4: every recursive compile_rows call inside a compile_*_case passes the "
    "match-result type it received. R06.5: the scrutinee is compiled exactly once. R06.7: positional struct-pattern elaboration "
    "(typer) is filled in declaration order inside the same loop that type-checks the sub-patterns. Correctness of the decision tree "
    "for a given matrix is not decided (that needs enumeration of matrices).")

CM = "crates/compiler/src/compile_match.rs"
CHECK = "crates/compiler/src/typer/check.rs"

ORDER_BREAKING = {"sort", "sort_by", "sort_by_key", "sort_unstable", "sort_unstable_by", "sort_unstable_by_key", "reverse", "swap",
                  "swap_remove", "rotate_left", "rotate_right", "dedup", "dedup_by", "dedup_by_key", "retain", "retain_mut", "rev",
                  "pop", "truncate", "drain", "split_off", "insert", "sort_by_cached_key", "select_nth_unstable"}


def r06_1(run, model, mir):
    run.rule("R06.1", "row order is never permuted: on values of type Vec<Row>/[Row] in the match compiler only order-preserving operations "
                      "are called, and literal buckets are IndexMap (insertion order), never a hash map")
    n = 0
    for c in mir.calls:
        if not c["file"].endswith("compile_match.rs") or not c["args"]:
            continue
        a0 = c["args"][0]
        if not re.search(r"(Vec<compile_match::Row>|\[compile_match::Row\]|IntoIter<compile_match::Row>|Iter<'_, compile_match::Row>)", a0):
            continue
        if re.search(r"IndexMap|HashMap", a0):
            continue
        n += 1
        tail = callee_tail(c["callee"])
        if tail in ORDER_BREAKING:
            ok = False
            if tail == "insert":
                ok = False
            fn_ = re.sub(r"(::\{closure#\d+\})+$", "", c["caller"])
            run.ob("R06.1", f"{fn_}|{tail} on rows", ok, site(c["file"], [c["line"]]),
                   f"{strip_generics(c['callee'])} on {a0}", witness="arms are tried in another order than written")
    run.ob("R06.1", "compile_match|operations on Vec<Row>", True, None, f"{n} resolved calls on row vectors, none order-breaking (remove(0)/first/push/extend/iter/clone only)")
    run.floor("resolved calls on Vec<Row>", n, 40)
    # literal buckets
    for name in ("compile_int_case_impl", "compile_string_case"):
        f = model.fn(name, CM)
        for l in S.find(f.body, "Local"):
            if l["pat"]["k"] == "PIdent" and l["pat"]["name"] == "value_rows":
                ty = l.get("ty") or ""
                ok = ty.startswith("IndexMap<")
                run.ob("R06.1", f"{name}|literal buckets ordered", ok, site(CM, l["sp"]), f"value_rows: {ty}",
                       witness="switch cases are emitted in hash order")


def case_table(run, f, model=None):
    """for compile_int_case_impl / compile_string_case: per case (literal, wildcard, absent) the set of sinks and how"""
    loops = [l for l in S.find(f.body, "For") if "rows" in S.idents(l["iter"])]
    if not loops:
        return None
    loop = loops[0]
    par = S.Parents(loop)
    table = {}

    helpers = {g.name: g for g in (model.scope_fns(f) if model is not None else []) if g is not f and g.body is not None}

    def sinks(block, label, par=par, ren=None, depth=0):
        """{sink: 'unconditional' | 'conditional'} for the pushes below `block`; a same-file helper that is handed the row vectors
        (`push_unconstrained_row(&mut value_rows, &mut fallback_rows, &mut default_rows, row)`) is read in place, its parameters
        standing for the caller's vectors"""
        ren = ren or {}
        out = {}
        for c in S.walk(block):
            def guarded(node):
                cond, loop_over = False, None
                for a in ([] if node is block else par.ancestors(node)):
                    if a is block:
                        break
                    if a["k"] in ("If", "Match"):
                        cond = True
                    if a["k"] == "For":
                        loop_over = S.norm_ws(run.facts.text(f.file, a["iter"]["sp"]))
                return cond, loop_over
            if c["k"] == "Call" and depth == 0 and S.callee_name(c) in helpers:
                h = helpers[S.callee_name(c)]
                ps = [p_["pat"].get("name") for p_ in h.params() if not p_["self"]]
                m = {}
                for pn, a in zip(ps, c["args"]):
                    while a["k"] in ("Ref", "Paren"):
                        a = a["expr"]
                    if pn and a["k"] == "Path" and len(a["segs"]) == 1:
                        m[pn] = a["segs"][0]
                cond, _lo = guarded(c)
                for tgt, how in sinks(h.body, label, S.Parents(h.body), m, 1).items():
                    out[tgt] = "conditional" if (cond or how == "conditional") else "unconditional"
                continue
            if c["k"] != "MethodCall" or c["method"] != "push":
                continue
            recv = c["recv"]
            tgt = None
            if S.is_path(recv):
                tgt = ren.get(recv["segs"][0], recv["segs"][0])
            cond, loop_over = guarded(c)
            if loop_over:
                for pn, an in ren.items():
                    loop_over = re.sub(r"\b" + re.escape(pn) + r"\b", an, loop_over)
            if loop_over and "value_rows" in loop_over:
                tgt = "each value_rows bucket"
            out[tgt] = "conditional" if cond else "unconditional"
        return out

    # literal / wildcard arms of `match col.pat`, absent = else branch of `if let Some(col) = row.remove_column(..)`
    for iff in S.find(loop["body"], "If"):
        ctxt = S.norm_ws(run.facts.text(f.file, iff["cond"]["sp"]))
        if "remove_column" in ctxt:
            for m in S.find(iff["then"], "Match"):
                for arm in m["arms"]:
                    h = S.pat_head(S.pat_alts(arm["pat"])[0])
                    if h[0] == "variant" and h[1][-1] == "PPrim":
                        txt = S.norm_ws(run.facts.text(f.file, arm["body"]["sp"]))
                        table["literal"] = {"txt": txt, "raw": run.facts.text(f.file, arm["body"]["sp"])}
                    elif h[0] == "variant" and h[1][-1] == "PWild":
                        table["wildcard"] = sinks(arm["body"], "wildcard")
                break
            if iff.get("else") is not None:
                table["absent"] = sinks(iff["else"], "absent")
            break
    return table


def r06_2(run, model):
    run.rule("R06.2", "fallback discipline (int and string cases are siblings): a new literal bucket starts from fallback_rows.clone(); a row "
                      "that does not constrain the column is pushed unconditionally to every existing bucket, to fallback_rows and to "
                      "default_rows; both siblings have the same table")
    tabs = {}
    for name in ("compile_int_case_impl", "compile_string_case"):
        f = model.fn(name, CM)
        t = case_table(run, f, model)
        if not t or "literal" not in t:
            run.ob("R06.2", f"{name}|case structure", False, site(CM, f.node["sp"]), "literal / wildcard / absent-column cases not found")
            continue
        tabs[name] = t
        lit = t["literal"]["txt"]
        seeded = re.search(r"\.entry\([a-z_]+\)\.or_insert_with\(\|\|fallback_rows\.clone\(\)\)", lit) is not None
        run.ob("R06.2", f"{name}|new bucket starts from fallback rows", seeded, site(CM, f.node["sp"]),
               "value_rows.entry(key).or_insert_with(|| fallback_rows.clone())" if seeded else f"literal case is `{lit[:90]}`",
               witness="match (c, f) { (1,_)=>10, (_,true)=>20, (2,_)=>30, _=>40 } on (2,true) yields 30 instead of 20")
        pushed = ".push(row)" in lit
        run.ob("R06.2", f"{name}|literal row goes to its bucket", pushed, site(CM, f.node["sp"]), f"literal case pushes the row: {pushed}")
        straight = not re.search(r"\b(if|continue|return|break|match)\b", re.sub(r'"[^"]*"', '""', t["literal"].get("raw", lit)))
        run.ob("R06.2", f"{name}|literal row is pushed unconditionally", straight, site(CM, f.node["sp"]),
               "the literal arm is straight-line code" if straight else "the literal arm contains a condition or an early exit before the push",
               witness="match (b, s) { (true,\"a\") => 1, (false,\"a\") => 2, _ => 3 }: the second row with the same literal is skipped as 'unreachable'; (false,\"a\") yields 3")
        for case in ("wildcard", "absent"):
            got = t.get(case, {})
            for sink in ("each value_rows bucket", "fallback_rows", "default_rows"):
                how = got.get(sink)
                run.ob("R06.2", f"{name}|{case} row -> {sink}", how == "unconditional", site(CM, f.node["sp"]),
                       f"{case} case: push to {sink} is {how or 'absent'}",
                       witness="an earlier arm that is wildcard in this column but tests another column is missing from a literal's case: a later arm wins")
    if len(tabs) == 2:
        a, b = tabs["compile_int_case_impl"], tabs["compile_string_case"]
        same = all(a.get(c) == b.get(c) for c in ("wildcard", "absent"))
        run.ob("R06.2", "int/string siblings agree", same, site(CM, None), "wildcard/absent push tables are identical" if same else f"int: {a}; string: {b}")
    bf = model.fn("compile_bool_case", CM)
    # a block that pushes one and the same row onto two different vectors (a clone and the row itself)
    ok = False
    for blk in S.find(bf.body, "Block"):
        ps = [st["expr"] for st in blk["stmts"] if st["k"] == "ExprStmt" and st["expr"]["k"] == "MethodCall" and st["expr"]["method"] == "push"
              and st["expr"]["recv"]["k"] == "Path" and len(st["expr"]["args"]) == 1]
        if len(ps) == 2 and ps[0]["recv"]["segs"] != ps[1]["recv"]["segs"]:
            a0, a1 = (re.sub(r"\.clone\(\)$", "", S.norm_ws(run.facts.text(CM, p_["args"][0]["sp"]))) for p_ in ps)
            if a0 == a1 and re.fullmatch(r"\w+", a0):
                ok = True
    run.ob("R06.2", "compile_bool_case|absent column -> both branches", ok, site(CM, bf.node["sp"]), "a row without a bool test is copied to the true and the false branch" if ok else "absent-column rows are not copied to both branches")


def r06_3(run, model):
    run.rule("R06.3", "no matching arm means failure, not a default: compile_rows turns an empty row set into the failure call before anything "
                      "else; an integer literal match without default rows is a compile-time error; a string literal match without default "
                      "rows gets a failing default")
    f = model.fn("compile_rows", CM)
    # the first statement that mentions `rows` at all (declarations that do not touch the rows may precede it)
    first = next((st for st in f.body["stmts"] if "rows" in S.idents(st)), None)
    ok = False
    if first is not None and first["k"] == "ExprStmt" and first["expr"]["k"] == "If":
        c = S.norm_ws(run.facts.text(CM, first["expr"]["cond"]["sp"]))
        t = S.norm_ws(run.facts.text(CM, first["expr"]["then"]["sp"]))
        ok = c == "rows.is_empty()" and "returnemissing(ty)" in t
    run.ob("R06.3", "compile_rows|empty rows -> emissing first", ok, site(CM, f.node["sp"]), "first statement: if rows.is_empty() { return emissing(ty) }" if ok else "empty row set is not turned into the failure call first",
           witness="a match with no applicable arm continues with an arbitrary value")
    i = model.fn("compile_int_case_impl", CM)
    ok = False
    for iff in S.find(i.body, "If"):
        if S.norm_ws(run.facts.text(CM, iff["cond"]["sp"])) == "default_rows.is_empty()":
            t = S.norm_ws(run.facts.text(CM, iff["then"]["sp"]))
            if S.pushes_error(model, run.facts, CM, iff["then"]) and "return" in t:
                ok = True
    run.ob("R06.3", "compile_int_case_impl|no default rows -> error diagnostic", ok, site(CM, i.node["sp"]), "non-exhaustive integer match is reported" if ok else "missing")
    s_ = model.fn("compile_string_case", CM)
    # the `default` local: when default_rows is empty it must not be None
    ok = True
    for l in S.find(s_.body, "Local"):
        if l["pat"]["k"] == "PIdent" and l["pat"]["name"] == "default" and l.get("init") and l["init"]["k"] == "If":
            iff = l["init"]
            if S.norm_ws(run.facts.text(CM, iff["cond"]["sp"])) == "default_rows.is_empty()":
                t = S.norm_ws(run.facts.text(CM, iff["then"]["sp"]))
                ok = "None" not in t or "emissing" in t
    has_diag = any(S.norm_ws(run.facts.text(CM, iff["cond"]["sp"])) == "default_rows.is_empty()" and "diagnostics.push(" in S.norm_ws(run.facts.text(CM, iff["then"]["sp"]))
                   for iff in S.find(s_.body, "If"))
    run.ob("R06.3", "compile_string_case|no default rows -> failure", ok or has_diag, site(CM, s_.node["sp"]),
           "a string match without a catch-all arm is compiled to a switch with `default: None`: no arm matching falls through silently" if not (ok or has_diag) else "string match without default rows fails or is reported",
           witness="match s { \"a\" => 1, \"b\" => 2 } on \"c\": the emitted Go switch has no default and execution continues with the zero value")


def r06_4(run, model):
    run.rule("R06.4", "the match-result type is threaded: every recursive compile_rows call inside a compile_*_case function passes the result "
                      "type the function received (its `ty: &Ty` parameter), never the scrutinee's type")
    n = 0
    for f in model.fns(CM):
        if not re.fullmatch(r"compile_[a-z_]+_cases?(_impl)?", f.name) or f.body is None:
            continue
        typarams = [p["pat"]["name"] for p in f.params() if not p["self"] and p["pat"]["k"] == "PIdent" and (p["ty"] or "").replace(" ", "") in ("&Ty", "&tast::Ty")]
        for c in S.calls(f.body, "compile_rows"):
            if c["k"] != "Call" or len(c["args"]) < 5:
                continue
            n += 1
            a = S.norm_ws(run.facts.text(CM, c["args"][4]["sp"]))
            ok = bool(typarams) and a in typarams
            run.ob("R06.4", f"{f.name}|compile_rows result type", ok, site(CM, c["sp"]),
                   f"compile_rows(…, {a}, …)" + ("" if ok else f" - the function's result-type parameters are {typarams or 'none'}"),
                   witness="match b { true => 1 } : the failure call for the missing false case is typed bool instead of int32 (ill-typed Core)")
    run.floor("recursive compile_rows calls in case functions", n, 8)


def r06_5(run, model):
    run.rule("R06.5", "the scrutinee of a match is compiled exactly once in compile_expr's EMatch arm")
    f = model.fn("compile_expr", CM)
    from lib import passes as P
    gm = P.glob_variants(model, CM)
    hit = 0
    for m in S.find(f.body, "Match"):
        names, _ = P.match_profile(m, gm)
        for en, vs in names.items():
            if "EMatch" in vs and len(vs) >= 5:
                for arm, alt in vs["EMatch"]:
                    b, _ = P.arm_field_bindings(alt)
                    ex = b.get("expr")
                    if not isinstance(ex, str):
                        continue
                    def translations(body, name, depth=0):
                        # direct translations of `name`, plus those made by a helper of the file that is handed `name`
                        got = [c for c in S.calls(body, "compile_expr") if c["args"] and name in S.idents(c["args"][0])]
                        if depth < 1:
                            for c in S.walk(body):
                                if c["k"] != "Call" or S.callee_name(c) in ("compile_expr", None):
                                    continue
                                hs = [h for h in model.fns(CM) if h.name == S.callee_name(c) and h.body is not None]
                                idx = [i for i, a in enumerate(c["args"]) if S.is_path(a, name)]
                                if len(hs) == 1 and idx:
                                    ps = [p_ for p_ in hs[0].params() if not p_["self"]]
                                    if idx[0] < len(ps) and ps[idx[0]]["pat"]["k"] == "PIdent":
                                        got += translations(hs[0].body, ps[idx[0]]["pat"]["name"], depth + 1)
                        return got
                    calls = translations(arm["body"], ex)
                    hit += 1
                    run.ob("R06.5", "compile_expr|EMatch scrutinee compiled once", len(calls) == 1, site(CM, arm["sp"]),
                           f"{len(calls)} compile_expr calls on the scrutinee `{ex}`", witness="an effectful scrutinee runs twice (or never)")
    if not hit:
        raise AnalysisIncomplete("compile_expr: EMatch arm not found")


def r06_7(run, model):
    run.rule("R06.7", "positional struct-pattern data agree with declaration order: the elaboration vector recorded for a struct pattern and the "
                      "typed sub-pattern vector are both filled inside the one loop that walks the struct definition's fields")
    f = model.fn("check_pat_constructor", CHECK, impl="Typer")
    recs = [c for c in S.calls(f.body, "record_struct_pat_elab")]
    if not recs:
        raise AnalysisIncomplete("record_struct_pat_elab call not found")
    par = S.Parents(f.body)
    for rc in recs:
        vecs = set()
        for st in S.find(rc, "Struct"):
            if st["segs"][-1] == "StructPatElab":
                for fl in st["fields"]:
                    if fl["name"] == "args":
                        vecs |= S.idents(fl["expr"])
        # the PConstr args vector in the same block
        blk = next((a for a in par.ancestors(rc) if a["k"] == "Block"), None)
        tvecs = set()
        if blk is not None:
            for st in S.find(blk, "Struct"):
                if st["segs"][-1] == "PConstr":
                    for fl in st["fields"]:
                        if fl["name"] == "args":
                            tvecs |= S.idents(fl["expr"])
        loops = {}
        for v in vecs | tvecs:
            for c in S.walk(blk or f.body):
                if c["k"] == "MethodCall" and c["method"] in ("push", "extend", "insert") and S.is_path(c["recv"], v):
                    lp = next((a for a in par.ancestors(c) if a["k"] == "For"), None)
                    loops.setdefault(v, []).append(lp)
            # built by an iterator chain instead of pushes
            for l in S.find(blk or f.body, "Local"):
                if l["pat"]["k"] == "PIdent" and l["pat"]["name"] == v and l.get("init") and any(True for _ in S.calls(l["init"], "collect")):
                    loops.setdefault(v, []).append(("chain", S.norm_ws(run.facts.text(CHECK, l["init"]["sp"]))))
        ok = bool(vecs) and bool(tvecs)
        detail = []
        the_loop = None
        for v, lps in loops.items():
            for lp in lps:
                if lp is None:
                    ok = False
                    detail.append(f"`{v}` is filled outside any loop")
                elif isinstance(lp, tuple):
                    src = lp[1]
                    good = "struct_fields" in src or "struct_def.fields" in src
                    ok = ok and good
                    detail.append(f"`{v}` is collected from `{src[:60]}`")
                else:
                    it = S.norm_ws(run.facts.text(CHECK, lp["iter"]["sp"]))
                    good = "struct_fields" in it or "struct_def.fields" in it
                    ok = ok and good
                    if the_loop is None:
                        the_loop = lp
                    elif the_loop is not lp:
                        ok = False
                        detail.append("elaboration and typed sub-patterns are filled by different loops")
                    detail.append(f"`{v}` filled in `for … in {it}`")
        for v in vecs | tvecs:
            if v not in loops:
                ok = False
                detail.append(f"`{v}`: no fill site found")
        run.ob("R06.7", "check_pat_constructor|struct pattern elaboration in declaration order", ok, site(CHECK, rc["sp"]),
               "; ".join(sorted(set(detail))),
               witness="struct Span{lo,hi}: `let Span { hi: h, lo: l } = s` binds h to s.lo (tast_builder / compile_struct_case read the record positionally)")


def r06_8(run, model):
    run.rule("R06.8", "in every case-splitting function a row that does not constrain the branch column (the else branch of "
                      "`if let Some(col) = row.remove_column(..)`) is appended to the sub-matrices unconditionally: no continue/break/return and "
                      "no condition around the pushes")
    n = 0
    for f in model.fns(CM):
        if f.body is None:
            continue
        for loop in S.find(f.body, "For"):
            for st in loop["body"]["stmts"]:
                e = st.get("expr") if st["k"] == "ExprStmt" else None
                if e and e["k"] == "If" and any(True for _ in S.calls(e["cond"], "remove_column")):
                    els = e.get("else")
                elif e and e["k"] == "Match" and any(True for _ in S.calls(e["scrut"], "remove_column")):
                    # the same test written as a match: the row without the column is the None (or catch-all) arm
                    pats = [(S.norm_ws(run.facts.text(CM, a["pat"]["sp"])), a) for a in e["arms"]]
                    none = [a for p_, a in pats if p_ == "None"] or [a for p_, a in pats if p_ == "_"]
                    els = none[0]["body"] if none else None
                else:
                    continue
                n += 1
                if els is None:
                    run.ob("R06.8", f"{f.name}|unconstrained rows are kept", False, site(CM, e["sp"]), "rows that do not mention the column are dropped (no else branch)",
                           witness="an arm that is a wildcard in this column never matches")
                    continue
                par = S.Parents(els)
                pushes = [c for c in S.walk(els) if c["k"] == "MethodCall" and c["method"] == "push"]
                # a same-file helper that is handed the sub-matrices and pushes the row onto each of them without a test of its own
                # (`push_unconstrained_row(&mut value_rows, &mut fallback_rows, &mut default_rows, row)`) is the pushes it contains
                for c in S.walk(els):
                    if c["k"] == "Call":
                        hs = [g for g in model.scope_fns(f) if g is not f and g.name == S.callee_name(c) and g.body is not None]
                        if hs:
                            hp = S.Parents(hs[0].body)
                            inner = [x for x in S.walk(hs[0].body) if x["k"] == "MethodCall" and x["method"] == "push"]
                            if inner and not any(a["k"] in ("If", "Match") for x in inner for a in hp.ancestors(x)) and \
                                    not any(x["k"] in ("Continue", "Break", "Return") for x in S.walk_no_closures(hs[0].body)):
                                pushes.append(c)
                exits = [x["k"] for x in S.walk_no_closures(els) if x["k"] in ("Continue", "Break", "Return")]
                cond = [c for c in pushes if any(a["k"] in ("If", "Match") for a in par.ancestors(c))]
                ok = bool(pushes) and not exits and not cond
                run.ob("R06.8", f"{f.name}|unconstrained rows go to every sub-matrix", ok, site(CM, els["sp"]),
                       f"{len(pushes)} pushes, conditional pushes: {len(cond)}, early exits: {exits or 'none'}",
                       witness="match on an enum where every variant already has a (refutable) row: a later catch-all arm is not copied into the variants' sub-matrices; values not covered by the earlier rows hit `missing` or fall through")
    run.floor("row-distribution loops", n, 3)


def r06_9(run, model):
    run.rule("R06.9", "a destructuring let compiles to a two-row matrix: the pattern row and a wildcard row whose body is the failure call, so a "
                      "value that does not match fails instead of continuing")
    n = 0
    fails = {g.name for g in model.fns(CM) if g.body is not None and '"missing"' in S.norm_ws(run.facts.text(CM, g.body["sp"]))}
    for f in model.fns(CM):
        if f.body is None:
            continue
        for mac in S.walk(f.body):
            if mac["k"] != "Macro" or mac.get("name") != "vec":
                continue
            rows = [a for a in (mac.get("args") or []) if a["k"] == "Struct" and a["segs"][-1] == "Row"]
            if not rows:
                continue
            # the matrix of a destructuring let: its first row tests the let's own pattern (a variable, not a literal form)
            first = S.norm_ws(run.facts.text(CM, rows[0]["sp"]))
            if not re.search(r"\bpat:\w+\.clone\(\)", first):
                continue
            n += 1
            last = S.norm_ws(run.facts.text(CM, rows[-1]["sp"]))
            failing = '"missing"' in last or any(S.callee_name(c) in fails for c in S.walk(rows[-1]) if c["k"] in ("Call", "MethodCall"))
            ok = len(rows) >= 2 and "Pat::PWild" in last and failing
            run.ob("R06.9", f"{f.name}|let-pattern matrix ends with wildcard -> failure", ok, site(CM, mac["sp"]),
                   f"{len(rows)} rows; last row {'is the wildcard/failure row' if ok else 'is not a wildcard row calling missing'}",
                   witness="let (\"ok\", n) = pair;  with a non-matching string: the emitted switch has no default and execution continues")
    run.floor("destructuring-let matrices", n, 1)


def r06_10(run, model):
    run.rule("R06.10", "whether a bare identifier pattern is a constructor or a binding is decided against the constructors of the whole package: "
                       "lowering only knows the file it lowers (LowerCtx::new(file)), so name resolution's PVar arm must consult the package's "
                       "constructor index (or lowering must be given the package's constructors)")
    LOWER = "crates/ast/src/lower.rs"
    NR = "crates/compiler/src/typer/name_resolution.rs"
    # the collector of the constructor names is recognised by what it does (inserts into a set under an `Item::Enum` arm), not by its name
    ccs = []
    for g in model.fns(LOWER):
        if g.body is None or g.test:
            continue
        for m in S.find(g.body, "Match"):
            if any(re.search(r"Item::Enum\b", S.norm_ws(run.facts.text(LOWER, a["pat"]["sp"]))) and
                   any(c["method"] in ("insert", "extend") for c in S.find(a["body"], "MethodCall")) for a in m["arms"]):
                ccs.append(g)
                break
    if not ccs:
        raise AnalysisIncomplete("ast::lower: no function collects constructor names from the enum items")
    per_file = all(len([p for p in cc.params() if not p["self"]]) == 1 and "cst::File" in ([p for p in cc.params() if not p["self"]][0]["ty"] or "") for cc in ccs)
    rp = model.fn("resolve_pat", NR)
    consults = False
    n = 0
    for m in S.find(rp.body, "Match"):
        for arm in m["arms"]:
            pt = S.norm_ws(run.facts.text(NR, arm["pat"]["sp"]))
            if not pt.startswith("ast::Pat::PVar"):
                continue
            n += 1
            g = arm.get("guard")
            txt = (S.norm_ws(run.facts.text(NR, g["sp"])) if g is not None else "") + S.norm_ws(run.facts.text(NR, arm["body"]["sp"]))
            if "constructor_index" in txt:
                consults = True
    if n == 0:
        raise AnalysisIncomplete("resolve_pat: no PVar arm")
    ok = (not per_file) or consults
    run.ob("R06.10", "bare identifier patterns are classified against the package's constructors", ok, site(NR, rp.node["sp"]),
           f"lowering collects constructors per file: {per_file}; name resolution's PVar arm consults the constructor index: {consults}",
           witness="colors.gom: enum Color { Red, Green }; main.gom: match c { Red => 1, Green => 2 } compiles to `ret = 1`: in main.gom `Red` is a variable that matches everything")


def r06_11(run, model):
    run.rule("R06.11", "a type switch that rebinds its scrutinee under its own name (`switch x := x.(type)`) never contains another type switch on "
                       "that name inside a case clause (there `x` has a struct type and `x.(type)` is not valid Go): where the back end builds "
                       "such a switch, the statements of every case pass through a function that resolves nested switches on the rebound name")
    GO = "crates/compiler/src/go/compile.rs"
    f = model.fn("compile_match_branches", GO)
    # functions that rewrite nested SwitchType statements on a given name
    resolvers = set()
    for g in model.fns(GO):
        if g.body is None or g.name == f.name:
            continue
        t = S.norm_ws(run.facts.text(GO, g.body["sp"]))
        if "SwitchType{" in t and "bind:Some(" in t and re.search(r"if\w+==\w+", t):
            resolvers.add(g.name)
    n = 0
    # the function and the per-kind helpers it hands a branch to (compile_int_match_branch and its siblings)
    sites_ = [(g, st) for g in model.scope_fns(f) if g.name not in resolvers for st in S.walk(g.body)]
    for g, st in sites_:
        if st["k"] != "Struct" or st["segs"][-1] != "SwitchType":
            continue
        bf = next((fl for fl in st["fields"] if fl["name"] == "bind"), None)
        be = bf["expr"] if bf is not None else None
        m = None
        if be is not None and be["k"] == "Call" and S.callee_name(be) == "Some" and be["args"]:
            x = be["args"][0]
            while x["k"] in ("MethodCall", "Ref") and (x["k"] == "Ref" or x["method"] in ("clone", "to_string", "to_owned", "into")):
                x = x["recv"] if x["k"] == "MethodCall" else x["expr"]
            if x["k"] == "Path" and len(x["segs"]) == 1:
                m = re.match(r"(\w+)", x["segs"][0])
        if not m:
            continue
        n += 1
        # the enclosing match arm: pushes onto `cases`
        par = S.Parents(g.body)
        arm = next((a for a in par.ancestors(st) if a["k"] == "Arm"), None)
        scope = arm["body"] if arm is not None else g.body
        pushes = [c for c in S.walk(scope) if c["k"] == "MethodCall" and c["method"] == "push" and S.is_path(c["recv"], "cases")]
        lets = {l["pat"]["name"]: l["init"] for l in S.find(scope, "Local") if l["pat"]["k"] == "PIdent" and l.get("init") is not None}
        good = bool(pushes)
        for pc in pushes:
            blk = S.norm_ws(run.facts.text(GO, pc["sp"]))
            used = set(S.idents(pc)) & set(lets)
            via = any(any(True for _ in S.calls(lets[v], *resolvers)) for v in used) if resolvers else False
            direct = any(True for _ in S.calls(pc, *resolvers)) if resolvers else False
            if not (via or direct):
                good = False
        run.ob("R06.11", f"compile_match_branches|type switch #{n} rebinding {m.group(1)}: case bodies resolve nested switches on it", good,
               site(GO, st["sp"]), f"resolver functions: {sorted(resolvers) or 'none'}; case blocks pushed: {len(pushes)}",
               witness="match s { Circle(r) => match s { Circle(q) => r + q, _ => 0 }, .. } emits `switch s__0 := s__0.(type)` inside `case Circle:`, "
                       "where s__0 is a struct: Go rejects it (s__0 (variable of type Circle) is not an interface)")
    run.floor("type switches that rebind their scrutinee", n, 1)


def r06_13(run, model):
    run.rule("R06.13", "a pattern is matched the way it is written whatever is in scope: whether an identifier pattern is a constructor or a "
                       "binder is decided from the constructors alone - no arm of resolve_pat is selected by looking the name up among the "
                       "local binders (a parameter named like a variant must not turn `X => ..` into a catch-all)")
    NR = "crates/compiler/src/typer/name_resolution.rs"
    f = model.fn("resolve_pat", NR)
    lookups = {"rfind"}
    for g in model.fns(NR):
        if g.body is not None and g.name != "resolve_pat" and any(c["k"] == "MethodCall" and c["method"] == "rfind" for c in S.walk(g.body)):
            if any("ResolveLocalEnv" in (p["ty"] or "") for p in g.params() if not p["self"]):
                lookups.add(g.name)
    ms = list(S.find(f.body, "Match"))
    if not ms:
        raise AnalysisIncomplete("resolve_pat: match not found")
    n = 0
    for arm in ms[0]["arms"]:
        g = arm.get("guard")
        if g is None:
            continue
        n += 1
        uses = [c for c in S.walk(g) if c["k"] in ("Call", "MethodCall") and S.callee_name(c) in lookups]
        head = re.sub(r"\{.*", "", S.norm_ws(run.facts.text(NR, arm["pat"]["sp"])))
        run.ob("R06.13", f"resolve_pat|{head} arm #{n}: selected without consulting the local binders", not uses, site(NR, arm["sp"]),
               f"guard: {S.norm_ws(run.facts.text(NR, g['sp']))[:90]}",
               witness="enum Axis { X, Y } fn weight(X: int32, a: Axis) -> int32 { match a { X => 10, Y => 20 } }: the first arm becomes a binder, "
                       "weight(1, Y) returns 10")
    run.ob("R06.13", "resolve_pat|guards examined", True, site(NR, ms[0]["sp"]), f"{n} guarded arm(s)")


def r06_16(run, model):
    run.rule("R06.16", "a form with field syntax names a struct: where the type checker resolves the constructor of `S { .. }` - the struct "
                       "literal and the struct pattern - the lookup it uses searches the structs before the enum variants (a variant "
                       "`Shape::Circle(Circle)` must not capture the pattern `Circle { r: q }` of the struct it wraps)")
    CHECK = "crates/compiler/src/typer/check.rs"
    ENV = "crates/compiler/src/env.rs"

    def order_of(name, depth=0):
        """'struct', 'enum' or None: which table the lookup `name` consults first (wrappers followed)"""
        best = None
        for g in model.find_fns(name, ENV):
            if g.body is None:
                continue
            t = S.norm_ws(run.facts.text(ENV, g.body["sp"]))
            ps, pe = t.find("lookup_struct_constructor("), t.find("lookup_enum_constructor(")
            if ps >= 0 or pe >= 0:
                r = "struct" if (ps >= 0 and (pe < 0 or ps < pe)) else "enum"
                if g.impl == "TypeEnv" or best is None:
                    best = r
                continue
            if depth < 3:
                for c in S.walk(g.body):
                    if c["k"] in ("Call", "MethodCall") and re.search(r"lookup_.*constructor", S.callee_name(c) or "") and S.callee_name(c) != name:
                        if name == "lookup_constructor_with_namespace" or True:
                            r = order_of(S.callee_name(c), depth + 1)
                            if r and best is None:
                                best = r
        return best
    sites = []
    f = model.fn("infer_struct_literal_expr", CHECK, impl="Typer")
    sites += [("infer_struct_literal_expr", c) for c in S.walk(f.body) if c["k"] == "MethodCall" and re.search(r"lookup_.*constructor", c["method"])]
    g = model.fn("check_pat_constructor", CHECK, impl="Typer")
    for m_ in S.find(g.body, "Match"):
        for arm in m_["arms"]:
            if re.search(r"Pat::PStruct\b", S.norm_ws(run.facts.text(CHECK, arm["pat"]["sp"]))):
                sites += [("check_pat_constructor/PStruct", c) for c in S.walk(arm["body"]) if c["k"] == "MethodCall" and re.search(r"lookup_.*constructor", c["method"])]
    if len(sites) < 2:
        raise AnalysisIncomplete(f"constructor lookups of the field-syntax forms: {len(sites)} found")
    for where, c in sites:
        o = order_of(c["method"])
        run.ob("R06.16", f"{where}|the constructor of a field-syntax form is sought among the structs first", o == "struct", site(CHECK, c["sp"]),
               f"{c['method']}(..) consults the {o or '?'} table first",
               witness="struct Circle { r: int32 } enum Shape { Circle(Circle), Dot }: `let Circle { r: q } = c;` is rejected (`Constructor Circle "
                       "refers to an enum, but a struct literal was used`), q would be bound to the variant's payload")


def r06_14(run, model):
    """the match compiler rejects a literal match without a catch-all by a diagnostic and goes on with `missing("")`: the rejection happens
    at the gate that follows it (shared with C03 R03.1, match-compilation stage only)"""
    from rules import c03
    c03.r03_1(run, model, stages=("matchc",))


def _feeds_no_go_syntax(run, model, mir, rel, c, tail):
    """the adaptor chain this call belongs to ends in a `collect` whose resolved result type mentions no goast type: the chain reads the
    Go syntax to answer a question (a set of strings), it does not produce the syntax that is emitted"""
    tree = run.facts.syn(rel)
    par = S.Parents(tree)
    for n in S.walk(tree):
        if n["k"] == "MethodCall" and n["method"] == tail and (n["sp"][0], n["sp"][1]) == (c["line"], c["col"]):
            top = n
            while True:
                up = par.parent(top)
                if up is not None and up["k"] == "MethodCall" and up.get("recv") is top:
                    top = up
                else:
                    break
            if top["method"] != "collect":
                return False
            rets = {r["ret"] for r in mir.at(rel, top["sp"][0], top["sp"][1], "collect")}
            return bool(rets) and all("goast::" not in r for r in rets)
    return False


def r06_17(run, model):
    run.rule("R06.17", "the Go emitter keeps every clause and statement it has built: in go/compile.rs no filtering or shortening operation "
                       "(filter, filter_map, retain, take_while, skip_while, dedup, truncate, skip, take, drain, pop, remove, clear) is applied to a "
                       "collection or iterator of goast pieces (resolved calls: the receiver type mentions `goast::`) - an empty `case 2:` is what "
                       "keeps the value 2 away from `default:`; expected count zero, the goast-typed calls seen are the control")
    from lib.mir import Mir, callee_tail
    mir = Mir(run.facts)
    GOC = "crates/compiler/src/go/compile.rs"
    FILT = {"filter", "filter_map", "retain", "retain_mut", "take_while", "skip_while", "dedup", "dedup_by", "dedup_by_key", "truncate", "skip", "take",
            "step_by", "drain", "pop", "remove", "swap_remove", "clear", "split_off"}
    n = 0
    k = 0
    for c in mir.calls:
        if c["file"] != GOC or not c["args"] or "goast::" not in c["args"][0]:
            continue
        n += 1
        t = callee_tail(c["callee"])
        if t in FILT and not re.search(r"option::Option|mem::(take|replace|swap)|collections::(Hash|BTree)|indexmap::", c["callee"]):
            # (Option::take / mem::take move a value out, maps are not sequences of clauses)
            if _feeds_no_go_syntax(run, model, mir, GOC, c, t):
                continue    # a question asked of the emitted items (`existing import paths`), not a rebuilt piece of output
            k += 1
            fn_ = re.sub(r"(::\{closure#\d+\})+$", "", c["caller"]).split("::")[-1]
            run.ob("R06.17", f"{fn_}|{t} on a collection of Go syntax", False, site(GOC, [c["line"]]),
                   f"{c['callee'][:80]} applied to {c['args'][0][:100]}",
                   witness="while go { match n { 2 => (), _ => string_println(\"other\") } }: the arm `2 => ()` lowers to an empty block, its `case 2:` is "
                           "filtered out and 2 runs the `_` arm")
    if k == 0:
        run.ob("R06.17", "go::compile|nothing it built is filtered away", True, site(GOC, None), f"{n} resolved calls on goast-typed collections / iterators, {k} of them filtering")
    run.floor("resolved calls on goast-typed values in go/compile.rs", n, 172)


def run(run, model):
    mir = Mir(run.facts)
    run.try_rule(r06_1, model, mir)
    run.try_rule(r06_2, model)
    run.try_rule(r06_17, model)
    # rows, columns and cases of the match compiler are not reordered in a new place (G-SEQ restricted to compile_match.rs)
    from rules import gseq
    run.try_rule(gseq.r_seq, model, "R06.18", ("compile_match.rs",))
    run.try_rule(r06_3, model)
    run.try_rule(r06_4, model)
    run.try_rule(r06_5, model)
    run.try_rule(r06_7, model)
    run.try_rule(r06_8, model)
    run.try_rule(r06_9, model)
    run.try_rule(r06_10, model)
    run.try_rule(r06_11, model)
    run.try_rule(r06_13, model)
    # the rewriter that resolves nested type switches reaches every nested statement form (shared with C02 R02.22)
    from rules import c02 as _c02n
    run.try_rule(_c02n.r02_22, model)
    from rules import c05 as _c05
    run.try_rule(_c05.r05_15, model)
    from rules import c08
    run.rule("R06.12", "the i-th sub-pattern of a constructor meets the i-th field: positional indices come from enumerate() over the whole "
                       "collection, reversal after enumeration (shared with C08 R08.2, which also audits compile_match.rs)")
    run.try_rule(c08.r08_2, model)
    from rules import c01
    # a case clause dropped by the Go dead-code pass makes the default arm run for that value: no clause is skipped in a rebuilt switch
    run.try_rule(c01.r01_5, model, ("crates/compiler/src/compile_match.rs", "crates/compiler/src/go/dce.rs"))
    run.try_rule(r06_14, model)
    run.try_rule(r06_16, model)
    # a pattern variable named like a struct must be bound to its component (shared with C05 R05.14)
    from rules import c05 as _c05
    run.try_rule(_c05.r05_14, model)
    # a literal pattern whose range check is skipped is compiled as the pattern `0`: another arm is selected (shared with C10 R10.6)
    from rules import c10
    run.try_rule(c10.r10_6, model)
    # a string pattern compares against the characters between the quotes, exactly (shared with C11 R11.5)
    from rules import c11 as _c11b
    run.try_rule(_c11b.r11_5, model)
    run.assume("tast_builder::build_pat and compile_struct_case read struct-pattern arguments positionally in declaration order (read and confirmed)")
