"""C03 Acceptance is type-sound: every stage output is well-typed and closed (structural clauses)."""
import re
from lib import syn as S, tytrav as T
from lib.core import AnalysisIncomplete, site
from rules import c07

EXPLANATION = (
    "Static decision of the gates and of the unifier discipline. R03.1: in every entry point, after a stage that produces "
    "diagnostics no later stage (and no Ok return) is reached without a has_errors() gate on those diagnostics that returns Err. "
    "R03.2: Typer::unify tests occurs before binding a variable, has a diagonal arm for every Ty variant, compares arities before "
    "zipping, tests the result of every recursive unification, and its catch-all reports an error and returns false; occurs and the "
    "other typer-side Ty traversals handle every type former. R03.3: unresolved inference variables are reported by subst_ty. "
    "R03.4: the array-length wildcard occurs only in parameter positions of builtin schemes. R03.5: every pattern form constrains "
    "the scrutinee type (the expected type reaches every check_pat_* handler and is used in a constraint or recursive check); tuple "
    "patterns always constrain the scrutinee to the tuple of their sub-pattern types. R03.6 (shared with C07): monomorphisation "
    "substitutions use argument and result types; R03.7 (shared with C07 R07.2 / C08 R08.1): every structural traversal of types handles and uses every child of every type former, and the capture walk of closure conversion visits every sub-term (no variable use is left without a binder). Completeness of constraint generation (the typing rules themselves) is not decided.")

PL = "crates/compiler/src/pipeline/pipeline.rs"
SEP = "crates/compiler/src/pipeline/separate.rs"
UNI = "crates/compiler/src/typer/unify.rs"
CHECK = "crates/compiler/src/typer/check.rs"

TYPECHECK = {"typecheck_packages", "typecheck_single_package", "typecheck_package", "check_file_with_env"}
MATCHC = {"compile_file", "build_package"}
BACKEND = {"mono", "lambda_lift", "anf_file", "go_file", "link_packages_backend"}


def events_of(run, f):
    """ordered stage events of a function body: (kind, line, text, diag vars)"""
    ev = []

    spliced = set()

    def visit_block(blk, depth):
        for st in blk["stmts"]:
            # a phase that was carved out into a private helper and is read in place (second reading of an orchestrator): its statements
            # are statements of this block
            for sub in S.walk(st):
                if sub["k"] == "Block" and sub.get("inlined") and id(sub) not in spliced:
                    for x in S.walk(sub):
                        if x["k"] == "Block" and x.get("inlined"):
                            spliced.add(id(x))
                    visit_block(sub, depth + 1)
            # gates
            if st["k"] == "ExprStmt" and st["expr"]["k"] == "If":
                iff = st["expr"]
                c = S.norm_ws(run.facts.text(f.file, iff["cond"]["sp"]))
                m = re.fullmatch(r"([a-z_]+)\.has_errors\(\)", c)
                rets = [r for r in S.find(iff["then"], "Return") if r.get("expr") and S.callee_name(r["expr"]) == "Err"] if m else []
                if m and rets:
                    ev.append(("gate", st["sp"][0], m.group(1), S.norm_ws(run.facts.text(f.file, rets[0]["sp"]))[:60]))
                    continue
            calls_here = []
            for c in S.walk_no_closures(st):
                if c["k"] in ("Call", "MethodCall"):
                    cn = S.callee_name(c)
                    segs = S.callee_segs(c) or []
                    if cn in TYPECHECK:
                        calls_here.append(("typecheck", c))
                    elif cn in MATCHC and not (cn == "build_package" and f.name == "build_package"):
                        calls_here.append(("matchc", c))
                    elif cn in BACKEND and (cn != "mono" or (len(segs) >= 2 and segs[-2] == "mono") or len(segs) == 1):
                        calls_here.append(("backend", c))
            for kind, c in calls_here:
                ids = set()
                for a in c["args"]:
                    ids |= S.idents(a)
                diag_args = {i for i in ids if "diagnostics" in i}
                # result binding
                bound = set()
                if st["k"] == "Local":
                    bound = set(S.pat_bindings(st["pat"]))
                ev.append((kind, c["sp"][0], S.callee_name(c), diag_args | {b for b in bound if "diagnostics" in b}, bound))
            if st["k"] == "Local" and st.get("init") is not None and not calls_here:
                # destructuring of a typecheck result: `let X { mut diagnostics, .. } = typecheck;`
                pass
            # final Ok
            if st["k"] == "ExprStmt" and not st["semi"] and st["expr"]["k"] == "Call" and S.callee_name(st["expr"]) == "Ok" and depth == 0:
                ev.append(("ok", st["sp"][0], "Ok", set()))
            for sub in ("body",):
                pass
            # loops at top level: visit their body as part of the sequence
            if st["k"] == "ExprStmt" and st["expr"]["k"] == "For":
                pass

    visit_block(f.body, 0)
    ev.sort(key=lambda e: e[1])
    return ev


def r03_1(run, model, stages=("typecheck", "matchc")):
    run.rule("R03.1", "stage gating: after a stage that produces diagnostics (type check; match compilation) no later stage and no Ok result is "
                      "reached without an `if <diagnostics>.has_errors() { return Err(..) }` gate in between")
    entries = [("compile", PL), ("check_package", SEP), ("build_package", SEP), ("link_cores", SEP)]
    n = 0
    for name, rel in entries:
        f = model.fn(name, rel)
        ev = events_of(run, f)
        kinds = [e[0] for e in ev]
        run.anchor(f"{name} stage events", " ".join(f"{e[0]}:{e[2]}" for e in ev))
        last_prod = None  # (kind, name) of the latest diagnostics producer not yet gated
        for e in ev:
            k = e[0]
            if k == "gate":
                # the gate has to test the Diagnostics value the pending stage wrote to (when that is known)
                if last_prod is not None and last_prod[2] and e[2] not in last_prod[2]:
                    n += 1
                    run.ob("R03.1", f"{name}|gate after {last_prod[1]} tests that stage's diagnostics", False, site(rel, [e[1]]),
                           f"`{e[2]}.has_errors()` is tested, but {last_prod[1]} reports into {sorted(last_prod[2])}",
                           witness="build of a package with a non-exhaustive integer match succeeds (the gate looks at the type checker's diagnostics); whole-program compilation rejects it")
                    continue
                last_prod = None
                continue
            if k in ("matchc", "backend", "ok") and last_prod is not None and not (k == "matchc" and last_prod[0] == "matchc"):
                n += 1
                run.ob("R03.1", f"{name}|{last_prod[1]} -> {e[2]}", False, site(rel, [e[1]]),
                       f"{e[2]} is reached after {last_prod[1]} without a has_errors() gate",
                       witness="an ill-typed program (or a non-exhaustive integer match) is passed on to later stages / reported as success")
            elif k in ("matchc", "backend", "ok") and last_prod is None and any(x[0] in stages for x in ev if x[1] < e[1]):
                n += 1
                prev = [x for x in ev if x[1] < e[1] and x[0] in stages][-1]
                run.ob("R03.1", f"{name}|{prev[2]} -> {e[2]}", True, site(rel, [e[1]]), f"gate between {prev[2]} and {e[2]}")
            if k in stages:
                last_prod = (k, e[2], set(e[3]) if len(e) > 3 else set())
        if name == "link_cores" and "typecheck" in stages:
            # duplicate-impl diagnostics are gated before the back end
            g = [e for e in ev if e[0] == "gate"]
            b = [e for e in ev if e[0] == "backend"]
            ok = bool(g) and bool(b) and g[0][1] < b[0][1]
            n += 1
            run.ob("R03.1", "link_cores|merge diagnostics gated before the back end", ok, site(rel, f.node["sp"]),
                   "a has_errors() gate precedes mono" if ok else "no gate before the back end")
        if not any(k in kinds for k in ("typecheck", "backend", "matchc")):
            raise AnalysisIncomplete(f"{name}: no stage calls recognised")
    run.floor("gate obligations", n, 6 if "typecheck" in stages else 2)
    if "typecheck" not in stages:
        return
    # parse / lower gates
    # name-resolution diagnostics join the typer diagnostics wherever a package is type-checked
    m = 0
    for rel in (PL, SEP):
        for g in model.fns(rel):
            if g.body is None or not any(True for _ in S.calls(g.body, "check_file_with_env", "check_file_with_env_and_results")):
                continue
            for l in S.find(g.body, "Local"):
                if l.get("init") is None or not any(True for _ in S.calls(l["init"], "lower_to_hir_files_with_env", "lower_to_project_hir_files_with_env")):
                    continue
                m += 1
                p_ = l["pat"]
                third = p_["elems"][2] if p_["k"] == "PTuple" and len(p_["elems"]) == 3 else None
                name_ = third["name"] if third is not None and third["k"] == "PIdent" else None
                merged = name_ is not None and not name_.startswith("_") and any(
                    c["k"] == "MethodCall" and c["method"] in ("append", "extend") and name_ in S.idents(c) for c in S.walk(g.body))
                run.ob("R03.1", f"{g.qual}|resolver diagnostics merged", merged, site(rel, l["sp"]),
                       f"HIR-lowering diagnostics `{name_}` are {'appended to' if merged else 'NOT merged into'} the gated diagnostics",
                       witness="`package X not imported` in a type position is reported by the resolver only: check/build accept what whole-program compile rejects")
    run.floor("package type-check functions lowering HIR", m, 2)
    f = model.fn("parse_ast_from_source", PL) if model.find_fns("parse_ast_from_source", PL) else None
    if f is not None:
        txt = S.norm_ws(run.facts.text(PL, f.body["sp"]))
        ok = "has_errors()" in txt and "CompilationError::Parser" in txt and "CompilationError::Lower" in txt
        run.ob("R03.1", "parse_ast_from_source|parser and lowering errors stop compilation", ok, site(PL, f.node["sp"]),
               "parse errors -> Err(Parser), lowering errors -> Err(Lower)" if ok else "missing parser/lower gate")


def r03_2(run, model):
    run.rule("R03.2", "unifier discipline: occurs test before binding a variable; a diagonal arm for every Ty variant; arity compared before "
                      "zipping components; every recursive unification result is tested; the catch-all reports an error and returns false")
    trs = [t for t in T.discover(model) if t.fn.name == "unify" and t.fn.file == UNI and t.kind == "pair"]
    if not trs:
        raise AnalysisIncomplete("Typer::unify not found as a pair match over Ty")
    t = trs[0]
    f = t.fn
    for v in T.all_variants(model):
        if v == "TVar":
            continue
        run.ob("R03.2", f"Typer::unify|diagonal {v}", v in t.covered, site(UNI, t.match["sp"]), f"({v}, {v}) arm {'present' if v in t.covered else 'MISSING'}",
               witness=f"two equal {v} types fail to unify (or, with a permissive catch-all, unequal ones unify)")
    # var-binding arm
    ok = False
    for arm in t.match["arms"]:
        ptxt = S.norm_ws(run.facts.text(UNI, arm["pat"]["sp"]))
        if "TVar(a),t" in ptxt or "t,tast::Ty::TVar(a)" in ptxt:
            b = S.norm_ws(run.facts.text(UNI, arm["body"]["sp"]))
            i, j = b.find("occurs("), b.find("unify_var_value(")
            neg = re.search(r"if!occurs\([^)]*\)\{returnfalse;\}", b) is not None
            ok = 0 <= i < j and neg
    run.ob("R03.2", "Typer::unify|occurs before binding", ok, site(UNI, t.match["sp"]),
           "`if !occurs(..) { return false }` precedes unify_var_value" if ok else "binding a type variable is not dominated by the occurs test",
           witness="`let v = vec_new(); vec_push(v, v)` binds t := Vec[t]; norm() then recurses until the stack overflows")
    cv = T.child_variants(model)
    for v in sorted(cv):
        for arm, alt in t.covered.get(v, []):
            b = S.norm_ws(run.facts.text(UNI, arm["body"]["sp"]))
            if ".zip(" in b:
                i, j = b.find(".len()!="), b.find(".zip(")
                ok = 0 <= i < j and "returnfalse" in b[i:j]
                run.ob("R03.2", f"Typer::unify|{v} arity before zip", ok, site(UNI, arm["sp"]), "length comparison with `return false` precedes the zip" if ok else "components are zipped without an arity check",
                       witness="(int32, int32) unifies with (int32, int32, string): zip stops at the shorter list")
            rec = [c for c in S.calls(arm["body"], "unify") if c["k"] == "MethodCall"]
            par = S.Parents(arm["body"])
            for c in rec:
                p = par.parent(c)
                tested = p is not None and p["k"] == "Unary" and p["op"] == "!" and par.parent(p) is not None and par.parent(p)["k"] == "If"
                tail = False
                run.ob("R03.2", f"Typer::unify|{v} component result tested", tested or tail, site(UNI, c["sp"]),
                       "recursive unify result is tested with `if !… { return false }`" if tested else "recursive unify result is ignored",
                       witness=f"a mismatch inside a {v} is reported nowhere / unify returns true")
    # the occurs test compares union-find keys, so it is only as good as the normalisation of what it is handed: the two types unify takes
    # apart come out of a traversal that resolves variables under every type former (a head-only resolution leaves bound variables inside)
    struct_trav = set()
    cvs0 = T.child_variants(model)
    for tt in T.discover(model):
        if tt.fn.file == UNI and tt.kind == "single" and not tt.catch:
            rec_vars = {v for v, lst in tt.covered.items() if v in cvs0 and any(any(True for _ in S.calls(a["body"], tt.fn.name)) for a, _ in lst)}
            if rec_vars >= set(cvs0):
                struct_trav.add(tt.fn.name)
    lets = {}
    for l in S.find(f.body, "Local"):
        if l.get("init") is not None:
            for b_ in S.pat_bindings(l["pat"]):
                lets.setdefault(b_, []).append(l["init"])
    scr = t.match["scrut"]
    for i, el in enumerate(scr["elems"]):
        seen, work, fnames = set(), [el], set()
        while work:
            x = work.pop()
            for c in S.walk(x):
                if c["k"] in ("Call", "MethodCall"):
                    fnames.add(S.callee_name(c) if c["k"] == "Call" else c["method"])
            for nm in S.idents(x):
                if nm in lets and nm not in seen:
                    seen.add(nm)
                    work.extend(lets[nm])
        ok = bool(fnames & struct_trav)
        run.ob("R03.2", f"Typer::unify|operand {i + 1} is normalised under every type former", ok, site(UNI, el["sp"]),
               f"the operand is produced by {sorted(fnames) or 'no call'}; traversals of unify.rs that recurse under every former: {sorted(struct_trav)}",
               witness="|f, g| { let h = if true { f } else { g }; f(g) }: with a head-only resolution the variable bound through the alias is not seen "
                       "by occurs, t := (t) -> r is built and norm recurses until the stack overflows")
    if t.catch:
        b = S.norm_ws(run.facts.text(UNI, t.catch[0]["body"]["sp"]))
        ok = S.pushes_error(model, run.facts, UNI, t.catch[0]["body"]) and "returnfalse" in b
        run.ob("R03.2", "Typer::unify|catch-all rejects", ok, site(UNI, t.catch[0]["sp"]), "mismatched constructors push an Error diagnostic and return false" if ok else f"catch-all: {b[:80]}",
               witness="int32 unifies with string")
    # typer-side structural traversals handle every former
    cvs = T.child_variants(model)
    n = 0
    for tt in T.discover(model):
        if not tt.fn.file.startswith("crates/compiler/src/typer/") or tt.kind != "single":
            continue
        rec_vars = {v for v, lst in tt.covered.items() if v in cvs and any(any(True for _ in S.calls(a["body"], tt.fn.name)) for a, _ in lst)}
        if len([v for v in rec_vars if v != "TApp"]) < 2:
            continue
        n += 1
        for v in sorted(cvs):
            ok = v in tt.covered or not tt.catch
            run.ob("R03.2", f"{tt.fn.qual}|{v} handled", ok, site(tt.fn.file, tt.match["sp"]), f"{v} {'has an explicit arm' if v in tt.covered else 'falls to the catch-all'}",
                   witness=f"{tt.fn.name} does not look inside {v}[…]: occurs check / normalisation / substitution skips it")
    run.floor("typer-side structural Ty traversals", n, 8)
    names = {tt.fn.name for tt in T.discover(model) if tt.fn.file == UNI}
    for need in ("occurs", "norm", "subst_ty"):
        if need not in names:
            run.ob("R03.2", f"{need}|is a traversal over Ty", False, site(UNI, None), f"{need} no longer matches on Ty variants explicitly")


def r03_3(run, model):
    run.rule("R03.3", "unresolved inference variables are reported: subst_ty's TVar arm recurses on the probed value or pushes an Error diagnostic")
    f = model.fn("subst_ty", UNI, impl="Typer")
    ok = False
    for m in S.find(f.body, "Match"):
        for arm in m["arms"]:
            if "TVar" in S.norm_ws(run.facts.text(UNI, arm["pat"]["sp"])):
                b = S.norm_ws(run.facts.text(UNI, arm["body"]["sp"]))
                ok = "probe_value" in b and "self.subst_ty(" in b and S.pushes_error(model, run.facts, UNI, arm["body"])
    run.ob("R03.3", "subst_ty|TVar reported", ok, site(UNI, f.node["sp"]), "TVar arm: probe, recurse, else Error diagnostic" if ok else "an unresolved type variable passes silently",
           witness="`let v = vec_new();` with no use: a TVar reaches Core/mono")


def r03_4(run, model):
    run.rule("R03.4", "the array-length wildcard is confined to parameter positions of builtin schemes: no builtin returns a wildcard-length array")
    rel = "crates/compiler/src/builtins.rs"
    f = model.fn("add_array_builtins", rel)
    wild = set()
    for l in S.find(f.body, "Local"):
        if l["pat"]["k"] == "PIdent" and l.get("init") and "ARRAY_WILDCARD_LEN" in S.norm_ws(run.facts.text(rel, l["init"]["sp"])):
            wild.add(l["pat"]["name"])
    n = 0
    mk = model.fn("make_fn_scheme", rel)
    mps = [p for p in mk.params() if not p["self"]]
    ret_i = next((i for i, p in enumerate(mps) if re.fullmatch(r"(tast::)?Ty", (p["ty"] or "").replace(" ", ""))), None)
    if ret_i is None:
        raise AnalysisIncomplete("make_fn_scheme: result-type parameter not found")
    for c in S.calls(f.body, "make_fn_scheme"):
        if len(c["args"]) != len(mps):
            continue
        n += 1
        ret_ids = S.idents(c["args"][ret_i])
        par = S.Parents(f.body)
        ins = next((a for a in par.ancestors(c) if a["k"] == "MethodCall" and a["method"] == "insert"), None)
        nm = ins["args"][0]["recv"]["value"] if ins and ins["args"] and ins["args"][0]["k"] == "MethodCall" and ins["args"][0]["recv"]["k"] == "Lit" else "?"
        ok = not (ret_ids & wild)
        run.ob("R03.4", f"builtin {nm}|result type", ok, site(rel, c["sp"]), f"{nm} returns {'a wildcard-length array' if not ok else 'a type without wildcard length'}",
               witness="let a: [int32; 3] = [1,2,3]; let b: [int32; 5] = array_set(a, 0, 9);  is accepted (Go: var b [18446744073709551615]int32)")
    run.floor("array builtin schemes", n, 2)


def r03_5(run, model):
    run.rule("R03.5", "every pattern form constrains the scrutinee type: check_pat hands the expected type to every handler, each handler uses "
                      "it in a TypeEqual constraint / recursive check / binding, and check_pat_tuple pushes its constraint unconditionally")
    f = model.fn("check_pat", CHECK, impl="Typer")
    typ = [p["pat"]["name"] for p in f.params() if not p["self"] and (p["ty"] or "").replace(" ", "") == "&tast::Ty"]
    if not typ:
        raise AnalysisIncomplete("check_pat: expected-type parameter not found")
    ty = typ[0]
    m = max(S.find(f.body, "Match"), key=lambda x: len(x["arms"]))
    handlers = set()
    for arm in m["arms"]:
        h = S.pat_head(S.pat_alts(arm["pat"])[0])
        if h[0] != "variant":
            continue
        uses = ty in S.idents(arm["body"])
        run.ob("R03.5", f"check_pat|{h[1][-1]} receives the expected type", uses, site(CHECK, arm["sp"]), f"arm for {h[1][-1]} {'passes' if uses else 'IGNORES'} `{ty}`",
               witness="match n { true => 1, false => 0 } with n: int32 passes the typer; the Go back end panics")
        for c in S.calls(arm["body"]):
            if S.callee_name(c) and S.callee_name(c).startswith("check_pat_"):
                handlers.add(S.callee_name(c))
    for hn in sorted(handlers):
        g = model.fn(hn, CHECK, impl="Typer")
        tps = [p["pat"]["name"] for p in g.params() if not p["self"] and (p["ty"] or "").replace(" ", "") == "&tast::Ty"]
        exp = tps[-1] if tps else None
        if exp is None:
            run.ob("R03.5", f"{hn}|uses the expected type", False, site(CHECK, g.node["sp"]), "handler has no expected-type parameter")
            continue
        used = False
        cond_only = True
        par = S.Parents(g.body)
        for n in S.walk(g.body):
            if n["k"] == "Path" and n["segs"] == [exp]:
                # meaningful uses: inside push_constraint / unify / insert_var / check_pat / record / struct field ty
                for a in par.ancestors(n):
                    if a["k"] in ("Call", "MethodCall") and S.callee_name(a) in ("push_constraint", "check_pat", "insert_var", "unify", "check_pat_wild", "check_pat_constructor", "TypeEqual"):
                        used = True
                        conds = [x for x in par.ancestors(a) if x["k"] in ("If", "Match") and not S.span_contains(x.get("cond", x.get("scrut"))["sp"], a["sp"])]
                        if not conds:
                            cond_only = False
                        break
        if hn == "check_pat_wild":
            used, cond_only = True, False
        run.ob("R03.5", f"{hn}|uses the expected type", used, site(CHECK, g.node["sp"]), f"`{exp}` {'reaches' if used else 'never reaches'} a constraint / binding / recursive check")
    # a handler that relates the pattern to the scrutinee by one constraint of its own pushes it on every path: a constraint left out
    # while the scrutinee's type is still a variable is never made up for
    for hn in sorted(handlers | {"check_pat_wild"}):
        g = model.opt_fn(hn, CHECK, impl="Typer")
        if g is None or g.body is None:
            continue
        par = S.Parents(g.body)
        pcs = [c for c in S.calls(g.body, "push_constraint")]
        if len(pcs) != 1:
            continue      # several constraints chosen by case analysis (constructor patterns): R03.5's use test above
        conds = [x for x in par.ancestors(pcs[0]) if x["k"] in ("If", "Match", "For", "While", "Closure")]
        run.ob("R03.5", f"{hn}|its constraint is pushed on every path", not conds, site(CHECK, pcs[0]["sp"]),
               "unconditional" if not conds else f"only under `{S.norm_ws(run.facts.text(CHECK, (conds[0].get('cond') or conds[0].get('scrut') or conds[0])['sp']))[:60]}`",
               witness="let f = |x| match x { 5 => 1, _ => 0 }; f(\"five\"): the literal pattern is not related to the scrutinee while its type is a "
                       "variable; the ill-typed pattern reaches the match compiler, which panics (`expected string primitive pattern`)")
    g = model.fn("check_pat_tuple", CHECK, impl="Typer")
    par = S.Parents(g.body)
    pcs = [c for c in S.calls(g.body, "push_constraint")]
    ok = False
    for c in pcs:
        conds = [x for x in par.ancestors(c) if x["k"] in ("If", "Match")]
        if not conds:
            ok = True
    run.ob("R03.5", "check_pat_tuple|constraint pushed unconditionally", ok, site(CHECK, g.node["sp"]),
           "TypeEqual(tuple of sub-pattern types, scrutinee) is pushed on every path" if ok else "the tuple constraint is only pushed under a condition",
           witness="match t { (true, x) => .. } on t: (int32, int32) is accepted")


DIAG_LEDGER = {
    ("compile", "_hir_diagnostics"): "second, project-wide HIR lowering that only feeds the --dump-hir output; the same files were already resolved package by package in typecheck_packages, whose diagnostics are gated",
}


def r03_8(run, model):
    from lib.mir import Mir
    run.rule("R03.8", "no diagnostics are discarded on the compile/check/build path: wherever a callee returns a Diagnostics value (alone or in a "
                      "tuple; resolved return types) the pipeline binds it to a name that is used afterwards (merged, tested or returned)")
    mir = Mir(run.facts)
    n = 0
    seen = set()
    for c in mir.calls:
        rel = c["file"]
        if not rel.startswith("crates/compiler/src/pipeline/") or "Diagnostics" not in c["ret"]:
            continue
        for f in model.fns(rel):
            if f.body is None or not (f.node["sp"][0] <= c["line"] <= f.node["sp"][2]):
                continue
            for l in S.find(f.body, "Local"):
                init = l.get("init")
                if init is None:
                    continue
                pos = (init["sp"][0], init["sp"][1])
                if init["k"] == "Try":
                    pos = (init["expr"]["sp"][0], init["expr"]["sp"][1])
                if pos != (c["line"], c["col"]) or (rel, l["sp"][0]) in seen:
                    continue
                seen.add((rel, l["sp"][0]))
                # which component is the Diagnostics?
                m = re.match(r"^(?:std::result::Result<)?\((.*)\)", c["ret"])
                pat = l["pat"]
                names = []
                if m and pat["k"] == "PTuple":
                    comps = S.type_args("T<" + m.group(1) + ">")[1]
                    for comp, p_ in zip(comps, pat["elems"]):
                        if "Diagnostics" in comp:
                            names.append(p_)
                elif pat["k"] == "PIdent" and re.search(r"(^|<)parser::Diagnostics(,|>|$)", c["ret"].replace("std::result::Result<", "<")) and "(" not in c["ret"]:
                    names.append(pat)
                for p_ in names:
                    n += 1
                    nm = p_["name"] if p_["k"] == "PIdent" else None
                    discarded = p_["k"] == "PWild" or (nm is not None and nm.startswith("_"))
                    used = False
                    if nm and not discarded:
                        used = any(x["k"] == "Path" and x["segs"] == [nm] and (x["sp"][0], x["sp"][1]) > (l["sp"][2], l["sp"][3]) for x in S.walk(f.body))
                    led = DIAG_LEDGER.get((f.name, nm or "_"))
                    ok = (not discarded and used) or led is not None
                    run.ob("R03.8", f"{f.qual}|{strip_callee(c['callee'])} -> {nm or '_'}", ok, site(rel, l["sp"]),
                           f"Diagnostics returned by {strip_callee(c['callee'])} is bound to `{nm or '_'}`" + (" and used" if used else " and never used") + (f"; ledger: {led}" if led else ""),
                           witness="errors found by that stage (e.g. `package X not imported` from name resolution) never reach the has_errors() gate: an ill-formed program is accepted")
    run.floor("diagnostics-returning calls bound in the pipeline", n, 12)


def r03_9(run, model, only=None, exclude=()):
    run.rule("R03.9", "substitution resolves completely: every function over Ty whose TVar arm reads the union-find (probe_value) applies "
                      "itself again to the value it finds (a variable bound to Vec[?1] is not left half-resolved)")
    UNI = "crates/compiler/src/typer/unify.rs"
    n = 0
    for f in model.fns(UNI):
        if f.body is None or f.name in exclude or (only is not None and f.name not in only):
            continue
        for m in S.find(f.body, "Match"):
            for arm in m["arms"]:
                pt = S.norm_ws(run.facts.text(UNI, arm["pat"]["sp"]))
                if not re.search(r"Ty::TVar\(", pt):
                    continue
                pv = [c for c in S.walk(arm["body"]) if c["k"] == "MethodCall" and c["method"] == "probe_value"]
                if not pv:
                    continue
                n += 1
                rec = any(True for _ in S.calls(arm["body"], f.name))
                run.ob("R03.9", f"{f.qual}|bound variables are resolved recursively", rec, site(UNI, arm["sp"]),
                       f"the TVar arm of {f.name} {'re-applies ' + f.name + ' to' if rec else 'returns'} the probed value" + ("" if rec else " as it is"),
                       witness="let v = vec_new(); let w = vec_push(v, \"a\"): the type recorded for v stays Vec[TypeVar(0)] (hover shows it) although inference solved it to Vec[string]")
    run.floor("TVar arms that read the union-find", n, 1 if only is not None else 2)


def r03_10(run, model):
    run.rule("R03.10", "declared trait bounds are part of a generic function's signature at its call sites: the type scheme a call site "
                       "instantiates carries the bounds (FnScheme has a field for them that is not the unit type), so an instantiation can "
                       "be checked against them")
    ENV = "crates/compiler/src/env.rs"
    st = model.struct("FnScheme")
    ENV = st["file"]
    fields = {f["name"]: S.norm_ws(f["ty"]) for f in st["fields"]}
    carriers = {n: t for n, t in fields.items() if re.search(r"constraint|bound", n, re.I)}
    ok = any(t not in ("()",) for t in carriers.values())
    run.ob("R03.10", "FnScheme|carries the declared trait bounds", ok, site(ENV, st["node"]["sp"]),
           f"FnScheme fields: {fields}; bound-carrying fields: {carriers or 'none'}",
           witness="trait Show {..} struct P {..} fn render[T: Show](v: T) -> string { Show::show(v) } fn main() { render(P { x: 1 }) } with no impl Show for P is accepted; "
                   "the emitted Go calls the undefined _goml_trait_impl_Show_P_show")


def r03_11(run, model):
    run.rule("R03.11", "a sub-expression is type-checked once per visit of its parent: within one typer function the elements of one child "
                       "list are not handed to infer_expr/check_expr by two loops that can both run (the second pass repeats constraints, "
                       "diagnostics and recorded coercions, and nesting makes the work exponential)")
    CHECK = "crates/compiler/src/typer/check.rs"
    n = 0
    for f in model.fns(CHECK):
        if f.body is None:
            continue
        loops = []
        for loop in S.find(f.body, "For"):
            vars_ = set(S.pat_bindings(loop["pat"]))
            visits = [c for c in S.walk_no_closures(loop["body"]) if c["k"] == "MethodCall" and c["method"] in ("infer_expr", "check_expr") and
                      any(a["k"] == "Unary" and S.idents(a) & vars_ or (a["k"] == "Path" and a["segs"][0] in vars_) for a in c["args"])]
            if not visits:
                continue
            coll = sorted(S.idents(loop["iter"]) - {"iter", "zip", "enumerate", "into_iter"})
            loops.append((loop, coll[0] if coll else "?", visits))
        if len(loops) < 2:
            n += len(loops)
            continue
        par = S.Parents(f.body)
        seen_pairs = {}
        for i, (l1, c1, v1) in enumerate(loops):
            n += 1
            for l2, c2, v2 in loops[i + 1:]:
                if c1 != c2 or S.span_contains(l1["sp"], l2["sp"]) or S.span_contains(l2["sp"], l1["sp"]):
                    continue
                # exclusive when they sit in different branches of one if / different arms of one match, or when the block holding
                # the first loop returns before the second can be reached
                excl = False
                for a in par.ancestors(l1):
                    if a["k"] == "Block" and not S.span_contains(a["sp"], l2["sp"]):
                        later = [st for st in a["stmts"] if (st["sp"][0], st["sp"][1]) > (l1["sp"][2], l1["sp"][3])]
                        if any(st["k"] == "ExprStmt" and st["expr"]["k"] == "Return" for st in later):
                            excl = True
                for a in par.ancestors(l1):
                    if a["k"] == "If" and a.get("else") is not None:
                        in_t1, in_e1 = S.span_contains(a["then"]["sp"], l1["sp"]), S.span_contains(a["else"]["sp"], l1["sp"])
                        in_t2, in_e2 = S.span_contains(a["then"]["sp"], l2["sp"]), S.span_contains(a["else"]["sp"], l2["sp"])
                        if (in_t1 and in_e2) or (in_e1 and in_t2):
                            excl = True
                    if a["k"] == "Match":
                        a1 = [arm for arm in a["arms"] if S.span_contains(arm["sp"], l1["sp"])]
                        a2 = [arm for arm in a["arms"] if S.span_contains(arm["sp"], l2["sp"])]
                        if a1 and a2 and a1[0] is not a2[0]:
                            excl = True
                kind = f"{v1[0]['method']} loop then {v2[0]['method']} loop over `{c1}`"
                seen_pairs[kind] = seen_pairs.get(kind, 0) + 1
                run.ob("R03.11", f"{f.qual}|{kind} #{seen_pairs[kind]}", excl, site(CHECK, l2["sp"]),
                       f"loops over `{c1}` at lines {l1['sp'][0]} and {l2['sp'][0]} " + ("are in exclusive branches" if excl else "can both run: every argument is inferred and then checked again"),
                       witness="id(id(id(…id(1)…))) nested 22 deep takes 20 s and 1.8 GB (doubling per level); string_println(pr(7)) with pr(d: dyn Show) wraps 7 in dyn Show twice")
        # a single element of a child list visited outside any loop (`args.first()`, `args[0]`) and the whole list visited by a loop that can run afterwards
        lets = {}
        for l in S.walk(f.body):
            if l["k"] == "Local" and l.get("init") is not None:
                for b in S.pat_bindings(l["pat"]):
                    lets.setdefault(b, l["init"])
        for c in S.walk_no_closures(f.body):
            if c["k"] != "MethodCall" or c["method"] not in ("infer_expr", "check_expr") or not c["args"]:
                continue
            if any(S.span_contains(l["sp"], c["sp"]) for l, _, _ in loops):
                continue
            src = None
            for a in c["args"]:
                for idn in S.idents(a):
                    init = lets.get(idn)
                    if init is None:
                        continue
                    it = S.norm_ws(run.facts.text(CHECK, init["sp"]))
                    m = re.match(r"(\w+)\.(first|last)\(\)|(\w+)\[0\]|(\w+)\.get\(0\)", it)
                    if m:
                        src = next(g for g in m.groups() if g and g not in ("first", "last"))
            if src is None:
                continue
            for l2, c2, v2 in loops:
                if c2 != src or (l2["sp"][0], l2["sp"][1]) < (c["sp"][0], c["sp"][1]):
                    continue
                it2 = S.norm_ws(run.facts.text(CHECK, l2["iter"]["sp"]))
                skips = ".skip(1)" in it2
                # exclusive if a return sits between the single visit and the loop on every path from the visit's block
                excl = False
                for blk in (a for a in par_all(f).ancestors(c) if a["k"] == "Block"):
                    if S.span_contains(blk["sp"], l2["sp"]):
                        break
                    tail = [st for st in blk["stmts"] if (st["sp"][0], st["sp"][1]) > (c["sp"][0], c["sp"][1])]
                    if tail and (tail[-1].get("expr") or tail[-1])["k"] == "Return":
                        excl = True
                        break
                # the result of the single visit is re-used by the loop instead of visiting the element again
                reused = False
                for l in S.walk(l2["body"]):
                    if l["k"] in ("If", "Match") and re.search(r"idx==0|\.take\(\)", S.norm_ws(run.facts.text(CHECK, l["sp"]))[:200]):
                        reused = True
                ok = skips or excl or reused
                n += 1
                run.ob("R03.11", f"{f.qual}|first element of `{src}` visited once", ok, site(CHECK, l2["sp"]),
                       f"`{src}.first()` is visited at line {c['sp'][0]} and the loop at line {l2['sp'][0]} walks `{it2[:40]}`" +
                       ("" if ok else ": the first element is inferred twice"),
                       witness="Inc::inc(describe(p)) with describe(d: dyn Show): the receiver is inferred twice, the coercion is recorded twice - "
                               "describe(to_dyn(to_dyn(p))), the wrapper's self.(P) panics; 22 nested UFCS calls take 28 s")
    run.floor("typer loops that visit child expressions", n, 8)


def par_all(f, _cache={}):
    k = (f.file, f.qual)
    if k not in _cache:
        _cache[k] = S.Parents(f.body)
    return _cache[k]


def r03_12(run, model):
    run.rule("R03.12", "a struct literal's positional elaboration follows the declaration: the expression recorded for declared position idx "
                       "is read from a vector that was filled at the position looked up by field name (a local sized by the definition), "
                       "never from the literal's own field list indexed by idx (source order)")
    CHECK = "crates/compiler/src/typer/check.rs"
    f = model.fn("infer_struct_literal_expr", CHECK, impl="Typer")
    params = {p["pat"].get("name") for p in f.params() if not p["self"]}
    sized = set()
    for l in S.find(f.body, "Local"):
        if l["pat"]["k"] == "PIdent" and l.get("init") is not None and l["init"]["k"] == "Macro" and l["init"]["name"] == "vec" and \
                re.search(r"\.len\(\)", l["init"].get("tokens", "")):
            sized.add(l["pat"]["name"])
    pushes = [c for c in S.walk(f.body) if c["k"] == "MethodCall" and c["method"] == "push" and
              any(x["k"] == "Call" and (S.callee_name(x) == "Expr") and "StructLitArgElab" in (x["func"].get("segs") or []) for x in S.walk(c))]
    if not pushes:
        raise AnalysisIncomplete("infer_struct_literal_expr: StructLitArgElab::Expr push not found")
    par = S.Parents(f.body)
    for c in pushes:
        # the pushed id: bound by an enclosing `if let Some(v) = <recv>.get(idx)…`
        src = None
        for a in par.ancestors(c):
            if a["k"] == "If" and a["cond"]["k"] == "Let" and S.span_contains(a["then"]["sp"], c["sp"]):
                gets = [g for g in S.walk(a["cond"]) if g["k"] == "MethodCall" and g["method"] in ("get", "get_mut") and g["recv"]["k"] == "Path"]
                idxs = [g for g in S.walk(a["cond"]) if g["k"] == "Index" and g.get("base", g.get("expr", {})).get("k") == "Path"]
                if gets:
                    src = gets[0]["recv"]["segs"][0]
                break
        ok = src in sized and src not in params
        run.ob("R03.12", "infer_struct_literal_expr|elaborated arguments come from the declaration-ordered vector", ok, site(CHECK, c["sp"]),
               f"StructLitArgElab::Expr is read from `{src}`" + (" (a vector sized by the definition and filled by field name)" if ok else " (not a declaration-ordered vector)") + f"; declaration-sized locals: {sorted(sized)}",
               witness="struct Account { id: int32, owner: string, active: bool }: Account { owner: \"ann\", active: true, id: 7 } becomes Account(\"ann\", true, 7) in every IR")


# arity evidence for zips whose guard is written on an alias of an operand (confirmed by reading; the regex must occur in the function)
ZIP_GUARDS = {
    ("check_expr", "items", "expected_elem_tys"): r"typs\.len\(\)==items\.len\(\)",
    ("infer_constructor_expr", "args", "param_tys"): r"expected_arity!=args\.len\(\)",
    ("check_pat_tuple", "pats", "expected_elem_tys"): r"typs\.len\(\)==pats\.len\(\)",
    ("instantiate_struct_field_ty", "struct_def", "type_args"): r"struct_def\.generics\.len\(\)!=type_args\.len\(\)",
}


_LEN_KEEPING = {"iter", "iter_mut", "into_iter", "clone", "cloned", "copied", "to_vec", "as_slice", "as_ref", "to_owned", "borrow", "as_mut"}


def _len_aliases(body):
    """names of one function that denote a list of the same length: `let x = y.iter()..`, `let x = &y`, and position by position through
    `let (x, ..) = match/if .. { .. => (y, ..) }`.  Returns name -> set of names (the name itself included)."""
    parent = {}

    def find(x):
        while parent.get(x, x) != x:
            x = parent[x]
        return x

    def union(x, y):
        rx, ry = find(x), find(y)
        if rx != ry:
            parent[rx] = ry

    def src(e):
        while True:
            if e["k"] in ("Ref", "Paren"):
                e = e["expr"]
            elif e["k"] == "MethodCall" and e["method"] in _LEN_KEEPING and not e["args"]:
                e = e["recv"]
            else:
                break
        return e["segs"][0] if e["k"] == "Path" and len(e["segs"]) == 1 else None

    def tails(e):
        if e["k"] == "Match":
            out = []
            for a_ in e["arms"]:
                out += tails(a_["body"])
            return out
        if e["k"] == "If" and e.get("else") is not None:
            return tails(e["then"]) + tails(e["else"])
        if e["k"] == "Block":
            if e["stmts"] and e["stmts"][-1]["k"] == "ExprStmt" and not e["stmts"][-1].get("semi"):
                return tails(e["stmts"][-1]["expr"])
            return []
        if e["k"] == "Paren":
            return tails(e["expr"])
        return [e]

    for l in S.find(body, "Local"):
        if l.get("init") is None:
            continue
        pat = S.strip_refs(l["pat"])
        if pat["k"] == "PType" and isinstance(pat.get("pat"), dict):
            pat = pat["pat"]
        if pat["k"] == "PIdent":
            for t_ in tails(l["init"]):
                y = src(t_)
                if y:
                    union(pat["name"], y)
        elif pat["k"] == "PTuple":
            for t_ in tails(l["init"]):
                if t_["k"] == "Tuple" and len(t_["elems"]) == len(pat["elems"]):
                    for pe, te in zip(pat["elems"], t_["elems"]):
                        pe = S.strip_refs(pe)
                        y = src(te)
                        if pe["k"] == "PIdent" and y:
                            union(pe["name"], y)
    names = set(parent) | set(parent.values())

    def cls(x):
        r = find(x)
        return {n_ for n_ in names if find(n_) == r} | {x}
    return cls


def r03_27(run, model, rid="R03.27"):
    run.rule(rid, "a recursive yes/no question about a type or a term is asked of the children with one connective: in every self-recursive "
                  "function of the compiler that returns bool and matches on its argument, the arms that ask the question of sub-terms combine "
                  "the answers either conjunctively throughout (`&&`, `.all(..)`, `if !q(child) { return false }`: occurs, is_concrete, unify) "
                  "or disjunctively throughout (`||`, `.any(..)`, `if q(child) { return true }`: has_tparam, ty_contains_*); an arm that mixes "
                  "the two, or uses the other one than its siblings, answers for one child only")
    n = 0
    for f in model.fns():
        if f.body is None or f.test or not f.file.startswith("crates/compiler/src") or "/tests/" in f.file or "/pprint/" in f.file:
            continue
        if (f.node.get("ret") or "").replace(" ", "") != "bool" or not any(True for _ in S.calls(f.body, f.name)):
            continue
        ms = list(S.find(f.body, "Match"))
        if not ms:
            continue
        per = []
        for arm in ms[0]["arms"]:
            if not any(True for _ in S.calls(arm["body"], f.name)):
                continue
            t = S.norm_ws(run.facts.text(f.file, arm["body"]["sp"])).replace(" ", "")
            conj = ("&&" in t) or (".all(" in t) or re.search(r"if!(?:self\.)?" + f.name + r"\([^{}]*\)\{returnfalse", t) is not None
            disj = ("||" in t) or (".any(" in t) or re.search(r"if(?:self\.)?" + f.name + r"\([^{}]*\)\{returntrue", t) is not None
            per.append((arm, conj, disj))
        if not per:
            continue
        n += 1
        major_conj = sum(1 for _, c, d in per if c and not d) >= sum(1 for _, c, d in per if d and not c)
        for arm, conj, disj in per:
            pat = S.norm_ws(run.facts.text(f.file, arm["pat"]["sp"]))
            former = re.sub(r"[^A-Za-z:|]+.*", "", pat.split("{")[0].split("(")[0])[:40]
            ok = not (conj and disj) and not ((conj and not major_conj) or (disj and major_conj))
            run.ob(rid, f"{f.name}|{former} combines its children like the other arms", ok, site(f.file, arm["sp"]),
                   ("conjunctive" if conj else "disjunctive" if disj else "single child") if ok else
                   f"this arm is {'mixed' if conj and disj else ('conjunctive' if conj else 'disjunctive')}, the predicate is {'conjunctive' if major_conj else 'disjunctive'}",
                   witness="occurs: `params.iter().all(..) || occurs(ret)` ignores a hit in a parameter and skips the result: `|x| x(x)` binds 'a := ('a) -> 'b, "
                           "the next substitution recurses until the stack overflows instead of `occurs check failed`")
    run.floor(f"{rid}: recursive boolean predicates examined", n, 10)


def r03_26(run, model):
    run.rule("R03.26", "a node is stamped with the expected type only where its type *is* a child's type: every arm of check_expr that builds "
                       "a node with `ty: expected.clone()` hands `expected` itself to the check of a value-producing child (operands of a numeric "
                       "operator, branches of if / match); a composite form (tuple, array, closure, struct literal) is typed from its parts and "
                       "meets the expectation in the trailing TypeEqual - stamping it skips the comparison of length / arity / components")
    CHECK = "crates/compiler/src/typer/check.rs"
    f = model.fn("check_expr", CHECK)
    g = model.inlined_fn(f)
    n = 0
    for m in S.find(g.body, "Match"):
        for arm in m["arms"]:
            stamps = [st for st in S.find(arm["body"], "Struct")
                      if any(fl.get("name") == "ty" and S.norm_ws(run.facts.text(CHECK, fl["expr"]["sp"])).replace(" ", "") in ("expected.clone()", "expected.to_owned()")
                             for fl in st.get("fields", []))]
            if not stamps:
                continue
            n += 1
            hands = [c for c in S.walk(arm["body"]) if c["k"] in ("MethodCall", "Call") and S.callee_name(c) in ("check_expr", "check_block_expr", "check_expr_with_expectation")
                     and c["args"] and any(S.is_path(S.strip_refs_expr(a) if hasattr(S, "strip_refs_expr") else (a["expr"] if a["k"] == "Ref" else a), "expected") for a in c["args"])]
            form = stamps[0]["segs"][-1]
            run.ob("R03.26", f"check_expr|{form} stamped with the expected type takes it from a child checked against it", bool(hands), site(CHECK, stamps[0]["sp"]),
                   f"{len(hands)} child check(s) against `expected` in the arm" if hands else "no child of this form is checked against `expected`: the stamp replaces the comparison",
                   witness="let a: [int32; 2] = [1, 2, 3]; - an array literal checked against [int32; 2] is stamped [int32; 2] without its item count "
                           "being compared: accepted, Go `[2]int32{1, 2, 3}`")
    run.floor("arms of check_expr that stamp the expected type", n, 4)


def r03_25(run, model):
    run.rule("R03.25", "a position found by searching one list indexes that list only: where the compiler obtains an index from "
                       "`.position(..)` / `.rposition(..)` on a list, every `.get(i)` / `[i]` with that index is applied to the same list - "
                       "the written order of a struct pattern or literal and the declared order of the definition are two different lists, and "
                       "the parameter types follow the declaration")
    n_src, n_use = 0, 0
    for rel in model.src_files():
        if not rel.startswith("crates/compiler/src"):
            continue

        def root(e):
            while True:
                if e["k"] == "MethodCall":
                    e = e["recv"]
                elif e["k"] in ("Ref", "Paren", "Unary"):
                    e = e["expr"]
                elif e["k"] == "Index":
                    e = e.get("base") or e.get("expr")
                elif e["k"] == "Field":
                    return S.norm_ws(run.facts.text(rel, e["sp"]))
                else:
                    break
            return e["segs"][-1] if e["k"] == "Path" else None
        for f in model.fns(rel):
            if f.body is None:
                continue
            idx = {}
            for x in S.walk(f.body):
                init = pat = None
                if x["k"] == "Local" and x.get("init") is not None:
                    init, pat = x["init"], x["pat"]
                elif x["k"] == "Let":
                    init, pat = x["expr"], x["pat"]
                if x["k"] == "MethodCall" and x["method"] == "enumerate":
                    n_src += 1
                if init is None:
                    continue
                pc = [c for c in S.walk(init) if c["k"] == "MethodCall" and c["method"] in ("position", "rposition")]
                if len(pc) != 1:
                    continue
                n_src += 1
                for b in S.pat_bindings(pat):
                    idx[b] = root(pc[0]["recv"])
            for x in S.walk(f.body):
                v = base = None
                if x["k"] == "MethodCall" and x["method"] in ("get", "get_mut", "remove", "swap_remove", "insert") and x["args"] and \
                        x["args"][0]["k"] == "Path" and len(x["args"][0]["segs"]) == 1 and x["args"][0]["segs"][0] in idx:
                    v, base = x["args"][0]["segs"][0], root(x["recv"])
                elif x["k"] == "Index" and x["index"]["k"] == "Path" and len(x["index"]["segs"]) == 1 and x["index"]["segs"][0] in idx:
                    v, base = x["index"]["segs"][0], root(x.get("base") or x.get("expr"))
                if v is None:
                    continue
                n_use += 1
                ok = base == idx[v]
                run.ob("R03.25", f"{f.name}|index found in `{idx[v]}` is applied to `{base}`", ok, site(rel, x["sp"]),
                       f"`{v}` comes from a search of `{idx[v]}` and indexes `{base}`",
                       witness="struct Acct { id: int32, owner: string }: `match a { Acct { owner: o, id: n } => n + 1 }` checks `o` against int32 and `n` "
                               "against string - `n + 1` on a string is accepted")
    # expected count zero today; the control shows that positional sources are recognised at all in this build
    run.ob("R03.25", "control|positional index sources are recognised (enumerate / position)", n_src >= 20, None, f"{n_src} enumerate()/position() sources seen, {n_use} searched indices in use")


def r03_13(run, model):
    run.rule("R03.13", "two lists are only zipped after their lengths were compared: every `.zip(` in the typer that pairs expressions/patterns/"
                       "parameters with types is covered by an arity test on the same operands (same condition, an earlier rejecting test, "
                       "or the recorded alias guard) - zip silently drops the surplus of the longer list")
    n = 0
    for rel in ("crates/compiler/src/typer/check.rs", "crates/compiler/src/typer/unify.rs", "crates/compiler/src/typer/toplevel.rs", "crates/compiler/src/typer/util.rs"):
        for f in model.fns(rel):
            if f.body is None:
                continue
            ft = None
            for c in S.walk(f.body):
                if c["k"] != "MethodCall" or c["method"] != "zip" or not c["args"]:
                    continue

                def root_node(e):
                    while e["k"] in ("MethodCall", "Ref", "Paren"):
                        e = e["recv"] if e["k"] == "MethodCall" else e["expr"]
                    while e["k"] == "Field":
                        e = e["base"]
                    return e

                def root(e):
                    return S.norm_ws(run.facts.text(rel, root_node(e)["sp"]))
                a, b = root(c["recv"]), root(c["args"][0])
                if ft is None:
                    ft = S.norm_ws(run.facts.text(rel, f.body["sp"]))
                n += 1
                p1, p2 = re.escape(a) + r"(\.\w+)*\.len\(\)", re.escape(b) + r"(\.\w+)*\.len\(\)"
                auto = re.search(r"[^;{}]*" + p1 + r"[^;{}]*" + p2 + r"[^;{}]*|[^;{}]*" + p2 + r"[^;{}]*" + p1 + r"[^;{}]*", ft)
                tab = ZIP_GUARDS.get((f.name, a, b))
                ok = auto is not None or (tab is not None and re.search(tab, ft) is not None)
                if not ok:
                    # the operands under other names: `let (expected, ret) = match t { TFunc { params: tys, .. } if tys.len() == params.len() => (tys, ..) }`
                    cls = _len_aliases(f.body)
                    ca, cb = cls(a), cls(b)
                    for cmp_ in S.walk(f.body):
                        if cmp_["k"] == "Binary" and cmp_["op"] in ("==", "!=", "<", ">", "<=", ">="):
                            sides = []
                            for sd in (cmp_.get("left", cmp_.get("lhs")), cmp_.get("right", cmp_.get("rhs"))):
                                if sd["k"] == "MethodCall" and sd["method"] == "len" and not sd["args"]:
                                    r_ = root_node(sd["recv"])
                                    sides.append(r_["segs"][0] if r_["k"] == "Path" and len(r_["segs"]) == 1 else None)
                            if len(sides) == 2 and None not in sides and ((sides[0] in ca and sides[1] in cb) or (sides[0] in cb and sides[1] in ca)):
                                ok = True
                                auto = re.search(".+", S.norm_ws(run.facts.text(rel, cmp_["sp"])))
                run.ob("R03.13", f"{f.name}|zip({a}, {b}) after an arity test", ok, site(rel, c["sp"]),
                       ("arity test `" + auto.group(0)[-60:] + "`") if auto else (f"recorded alias guard /{tab}/ " + ("present" if ok else "MISSING") if tab else "no arity test on these operands found"),
                       witness="let t: (int32, int32) = (1, 2, true) is accepted: the third component is never checked, Core carries a 3-component ETuple typed as a 2-tuple")
    run.floor("zips in the typer", n, 10)


INFER_LEDGER = {("infer_block_exprs", "tast_expr"): "statements of a block: only the last one determines the block's type (read through the vector)"}


def r03_14(run, model, only=None):
    run.rule("R03.14", "the type of every child inferred in inference mode is consulted: a local bound from `self.infer_expr(..)` has its "
                       "`get_ty()` read at least once (a constraint, a result type, an argument) - a child whose type is never read is "
                       "never related to anything (copy/paste slip: then_tast constrained twice, else_tast never)")
    CHECK = "crates/compiler/src/typer/check.rs"
    n = 0
    for f in model.fns(CHECK):
        if f.body is None or (only is not None and f.name not in only):
            continue
        for l in S.find(f.body, "Local"):
            if l["pat"]["k"] != "PIdent" or l.get("init") is None:
                continue
            init = l["init"]
            if not (init["k"] == "MethodCall" and init["method"] == "infer_expr"):
                continue
            name = l["pat"]["name"]
            n += 1
            uses = [x for x in S.walk(f.body) if x["k"] == "MethodCall" and x["method"] == "get_ty" and S.is_path(x["recv"], name)]
            led = INFER_LEDGER.get((f.name, name))
            if not uses and led is None:
                # the child is collected into a vector whose elements' types are read (the statements of a block: the last one's type
                # is the block's) - the read goes through the vector
                ftxt = S.norm_ws(run.facts.text(CHECK, f.body["sp"]))
                for pc in S.walk(f.body):
                    if pc["k"] == "MethodCall" and pc["method"] == "push" and pc["recv"]["k"] == "Path" and any(S.is_path(a, name) for a in pc["args"]):
                        vec = pc["recv"]["segs"][-1]
                        if re.search(re.escape(vec) + r"\.(last|iter|first)\(\)[^;]*get_ty\(\)", ftxt):
                            led = f"collected into `{vec}`, whose elements' types are read"
            run.ob("R03.14", f"{f.name}|type of `{name}` is consulted", bool(uses) or led is not None, site(CHECK, l["sp"]),
                   f"{len(uses)} reads of {name}.get_ty()" + (f"; ledger: {led}" if led and not uses else ""),
                   witness="let v = if c { 1 } else { \"one\" }; is accepted: Core has EIf{ty:int32, then:int32, else:string}")
    run.floor("children inferred in inference mode", n, 20 if only is None else 2)


def r03_15(run, model):
    run.rule("R03.15", "builtin operators restrict their operands: for arithmetic, comparison and negation the typer generates more than "
                       "equalities among operand and result types (a numeric/overload constraint or a check of the resolved type); a "
                       "constraint whose two sides are the same expression constrains nothing")
    CHECK = "crates/compiler/src/typer/check.rs"
    n = 0
    for fname, ops in (("infer_unary_expr", ("Neg",)), ("infer_binary_expr", ("Add", "Sub", "Mul", "Div", "Less", "Greater", "LessEq", "GreaterEq"))):
        f = model.fn(fname, CHECK, impl="Typer")
        # tautologies
        for c in S.walk(f.body):
            if c["k"] == "Call" and S.callee_name(c) == "TypeEqual" and len(c["args"]) == 2:
                a, b = (S.norm_ws(run.facts.text(CHECK, x["sp"])) for x in c["args"])
                if a == b:
                    n += 1
                    run.ob("R03.15", f"{fname}|a TypeEqual constraint relates two things", False, site(CHECK, c["sp"]),
                           "both sides are the same expression: the operand type is unconstrained",
                           witness="let q = -p; with p: P (a struct) is accepted; the Go has `var q P = -p`")
        for m in S.find(f.body, "Match"):
            for arm in m["arms"]:
                pt = S.norm_ws(run.facts.text(CHECK, arm["pat"]["sp"]))
                hit = [o for o in ops if re.search(r"(Unary|Binary)Op::" + o + r"\b", pt)]
                if not hit:
                    continue
                kinds = sorted({S.callee_name(c) for c in S.walk(arm["body"]) if c["k"] == "Call" and "Constraint" in (c["func"].get("segs") or [])})
                if not kinds and not any(True for _ in S.calls(arm["body"], "push_constraint")):
                    continue  # e.g. the match that only picks the result type
                n += 1
                ok = any(k not in ("TypeEqual",) for k in kinds) or any(re.search(r"numeric|is_integer|is_float|arith", S.callee_name(c) or "", re.I) for c in S.calls(arm["body"]))
                for op_ in hit:   # one obligation per operator: merging or splitting arms changes no key
                    run.ob("R03.15", f"{fname}|{op_} restricts the operand type", ok, site(CHECK, arm["sp"]),
                           f"constraints generated: {kinds or 'none'}",
                           witness="let q = p * p; (p: struct), true + false, p < p are accepted; the emitted Go is rejected by the Go compiler")
    run.floor("operator arms of the typer", n, 3)


RECONVERSION_LEDGER = {
    "typecheck_fn": "converts the signature of a function again to check its body; the same signature was validated by define_function",
    "typecheck_impl_block": "converts the signatures of impl methods again to check their bodies; validated by define_trait_impl / define_inherent_impl",
}


def r03_16(run, model):
    run.rule("R03.16", "every type the user writes inside a body is validated like the types of a signature: wherever the expression checker "
                       "converts an annotation (`Ty::from_hir` in typer/check.rs) the same function hands the result to validate_ty (unknown "
                       "type names, wrong number of type arguments, unknown traits behind dyn)")
    CHECK = "crates/compiler/src/typer/check.rs"
    n = 0
    for f in model.fns(CHECK):
        if f.body is None:
            continue
        convs = [c for c in S.walk(f.body) if c["k"] == "Call" and (c["func"].get("segs") or [])[-2:] == ["Ty", "from_hir"]]
        if not convs:
            continue
        validates = any(True for _ in S.calls(f.body, "validate_ty"))
        for c in convs:
            n += 1
            run.ob("R03.16", f"{f.name}|annotation #{n} is validated", validates, site(CHECK, c["sp"]),
                   "validate_ty is applied in the converting function" if validates else "the converted annotation is never validated",
                   witness="let v: Vec[Nope] = vec_new(); is accepted and emits []Nope; let m: Maybe[Maybe[int32, int32]] = None; panics in mono")
    run.floor("annotation conversions in the expression checker", n, 1)
    # the declaration layer: every function of typer/toplevel.rs that converts a written type validates it too
    TOP = "crates/compiler/src/typer/toplevel.rs"
    m = 0
    for f in model.fns(TOP):
        if f.body is None:
            continue
        convs = [c for c in S.walk(f.body) if c["k"] == "Call" and (c["func"].get("segs") or [])[-2:] == ["Ty", "from_hir"]]
        if not convs:
            continue
        m += 1
        validates = any(True for _ in S.calls(f.body, "validate_ty"))
        led = RECONVERSION_LEDGER.get(f.name)
        if led and not validates:
            run.ob("R03.16", f"{f.name}|types written in the declaration are validated", True, site(TOP, convs[0]["sp"]), f"ledger: {led}")
            continue
        run.ob("R03.16", f"{f.name}|types written in the declaration are validated", validates, site(TOP, convs[0]["sp"]),
               f"{len(convs)} conversion(s) with Ty::from_hir; validate_ty in the same function: {validates}",
               witness="trait Codec { fn encode(Self) -> Bytes; fn decode(Self, Vec[Chunk], dyn Reader) -> int32; } with none of the three names "
                       "declared is accepted by run, check and build; the dangling names are exported in the interface")
    run.floor("declaration functions that convert written types", m, 5)


def strip_callee(c):
    return re.sub(r"<[^<>]*>", "", c).split("::")[-1]


def r03_17(run, model):
    run.rule("R03.17", "no type parameter survives monomorphisation because it could never be inferred: goml has no explicit instantiation "
                       "syntax, so where a generic function or method enters the environment (define_function, define_inherent_impl) each "
                       "declared type parameter is required to occur in the parameter or result types, and a diagnostic is pushed otherwise")
    TOP = "crates/compiler/src/typer/toplevel.rs"
    # predicates `does this Ty mention the parameter called p`: a match on Ty with an arm TParam { name } => name == p
    preds = set()
    for g in model.fns():
        if not g.file.startswith("crates/compiler/src/typer/") or g.body is None:
            continue
        for m in S.find(g.body, "Match"):
            for arm in m["arms"]:
                pt = S.norm_ws(run.facts.text(g.file, arm["pat"]["sp"]))
                bt = S.norm_ws(run.facts.text(g.file, arm["body"]["sp"]))
                if "TParam{name}" in pt and re.fullmatch(r"name==\*?\w+|\*?\w+==name", bt):
                    preds.add(g.name)
    checkers = set()
    for g in model.fns(TOP):
        if g.body is None:
            continue
        if preds and any(True for _ in S.calls(g.body, *preds)) and any(c["k"] == "MethodCall" and c["method"] == "push" for c in S.walk(g.body)):
            checkers.add(g.name)
    for name in ("define_function", "define_inherent_impl", "define_trait_impl"):
        f = model.fn(name, TOP)
        ok = name in checkers or (bool(checkers) and any(True for _ in S.calls(f.body, *checkers)))
        run.ob("R03.17", f"{name}|every declared type parameter must occur in the signature", ok, site(TOP, f.node["sp"]),
               f"type-mention predicates: {sorted(preds) or 'none'}; functions reporting an undetermined parameter: {sorted(checkers) or 'none'}",
               witness="fn f[T](x: int32) -> int32 { let v: Vec[T] = vec_new(); vec_len(v) + x } is accepted; Mono keeps `Vec[T]` and the Go "
                       "output declares `var v []T` with T undefined")


def r03_17b(run, model):
    """the impl's own type parameters are checked too: the generics handed to the checker in define_inherent_impl include impl_block.generics"""
    from rules import c07
    TOP = "crates/compiler/src/typer/toplevel.rs"
    f = model.fn("define_inherent_impl", TOP)
    calls = [c for c in S.walk(f.body) if c["k"] == "Call" and re.search(r"undetermined|unused_type_param|type_params", S.callee_name(c) or "") and len(c["args"]) >= 2]
    if not calls:
        raise AnalysisIncomplete("define_inherent_impl: call of the type-parameter checker not found")
    ok = False
    detail = ""
    for c in calls:
        for a in c["args"]:
            chain = [S.norm_ws(run.facts.text(TOP, a["sp"]))]
            for i in S.idents(a):
                chain += c07._origin_chain(run, f, TOP, c, i, depth=2)
            t = " <- ".join(chain)
            if "impl_block.generics" in t:
                ok = True
                detail = t[:100]
    run.ob("R03.17", "define_inherent_impl|the impl's own type parameters are checked as well", ok, site(TOP, calls[0]["sp"]),
           detail or "the checker is given the method's generics only",
           witness="impl[T] Box[T] { fn mk() -> int32 { let x: Option[T] = None; .. } }: Box::mk() can never fix T; Mono keeps Option__T")


def r03_18(run, model):
    run.rule("R03.18", "dyn-safety looks inside types: in validate_dyn_trait the tests that keep `Self` out of the result type and out of the "
                       "non-receiver parameters use a structural predicate (one that recurses through the type), not a test of the outermost "
                       "constructor - `(Self, int32)` mentions Self too, and its placeholder would reach the IR through a dyn call")
    UTIL = "crates/compiler/src/typer/util.rs"
    f = model.fn("validate_dyn_trait", UTIL)
    fns = {g.name: g for g in model.fns(UTIL) if g.body is not None}
    def structural(name):
        g = fns.get(name)
        return g is not None and any(True for _ in S.calls(g.body, name))
    n = 0
    firsts = {b for l in S.find(f.body, "Local") if l.get("init") is not None and ".first()" in S.norm_ws(run.facts.text(UTIL, l["init"]["sp"]))
              for b in S.pat_bindings(l["pat"])}
    for iff in S.find(f.body, "If"):
        cond = iff["cond"]
        # the predicate is called, or handed to any/all as a function value
        names = [S.callee_name(c) for c in S.walk(cond) if c["k"] == "Call" and re.search(r"self", S.callee_name(c) or "", re.I)]
        names += [a["segs"][-1] for c in S.walk(cond) if c["k"] == "MethodCall" and c["method"] in ("any", "all") for a in c["args"]
                  if a["k"] == "Path" and re.search(r"self", a["segs"][-1], re.I)]
        if not names:
            continue
        ct = S.norm_ws(run.facts.text(UTIL, cond["sp"]))
        msg = S.norm_ws(run.facts.text(UTIL, iff["then"]["sp"]))
        receiver = "first()" in ct or "receivermustbe" in msg or bool(S.idents(cond) & firsts)
        if receiver:
            continue  # the receiver itself has to *be* Self
        n += 1
        name = names[0]
        what = "return type" if "ret" in ct else "non-receiver parameter"
        run.ob("R03.18", f"validate_dyn_trait|Self is searched for inside the {what}", structural(name), site(UTIL, iff["sp"]),
               f"test: {ct[:70]}; `{name}` recurses through the type: {structural(name)}",
               witness="trait Dup { fn both(Self) -> (Self, int32); } used as dyn: the call is typed (Self, int32), the Go declares "
                       "`type Tuple2_Self_int32 struct { _0 Self … }`")
    run.floor("dyn-safety tests on types other than the receiver", n, 2)


def r03_19(run, model):
    run.rule("R03.19", "a closure checked against a function type agrees with it parameter by parameter: in check_closure_expr every written "
                       "parameter annotation is related to the expected parameter type by a constraint (or unification), and the closure's "
                       "recorded type is built from the types its parameters were given")
    f = model.fn("check_closure_expr", CHECK, impl="Typer")
    n = 0
    for loop in S.find(f.body, "For"):
        it = S.norm_ws(run.facts.text(CHECK, loop["iter"]["sp"]))
        if "zip(" not in it or "expected" not in it:
            continue
        binds = S.pat_bindings(loop["pat"])
        exp = [b for b in binds if "expected" in b]
        if not exp:
            continue
        n += 1
        rel = [c for c in S.walk(loop["body"]) if c["k"] in ("Call", "MethodCall") and (S.callee_name(c) or "") in ("push_constraint", "unify")
               and set(exp) & S.idents(c)]
        run.ob("R03.19", "check_closure_expr|an annotated parameter is equated with the expected parameter type", bool(rel), site(CHECK, loop["sp"]),
               f"constraints mentioning {exp} in the parameter loop: {len(rel)}",
               witness="fn apply(f: (int32) -> int32, x: int32) .. apply(|s: string| string_len(s), 3) is accepted: Core has |s: string| at type (int32) -> int32")
    if n == 0:
        raise AnalysisIncomplete("check_closure_expr: loop over params.zip(expected_params) not found")
    clos = [st for st in S.walk(f.body) if st["k"] == "Struct" and st["segs"][-1] == "EClosure"]
    for st in clos:
        ty = next((fl["expr"] for fl in st["fields"] if fl["name"] == "ty"), None)
        if ty is None:
            continue
        t = S.norm_ws(run.facts.text(CHECK, ty["sp"]))
        copied = re.fullmatch(r"expected(\.clone\(\))?", t) is not None
        run.ob("R03.19", "check_closure_expr|the closure's type is built from its parameters and body", not copied, site(CHECK, st["sp"]), f"ty: {t[:60]}",
               witness="with `ty: expected.clone()` the trailing equation of check_expr compares expected with itself")


def r03_20(run, model):
    run.rule("R03.20", "a Core `let` has the type of its body: every `core::Expr::ELet` the match compiler builds takes its `ty` from the "
                       "expression it stands for (the threaded result type, or the body's own type), never from the bound variable, the "
                       "pattern or the bound value - later stages read that field as the type of the whole expression (the impl of a UFCS "
                       "call and the instance of a generic call are chosen from the type of the argument)")
    CM = "crates/compiler/src/compile_match.rs"
    n = 0
    for f in model.fns(CM):
        if f.body is None:
            continue
        k = 0
        for st in S.walk(f.body):
            if st["k"] != "Struct" or st["segs"][-1] != "ELet" or st["segs"][0] not in ("core", "Expr") or (st["segs"][0] == "Expr"):
                continue
            fields = {fl["name"]: fl["expr"] for fl in st["fields"]}
            if "ty" not in fields or "value" not in fields or "body" not in fields:
                continue
            n += 1
            k += 1
            t = fields["ty"]
            tt = S.norm_ws(run.facts.text(CM, t["sp"]))
            value_ids = S.idents(fields["value"]) - S.idents(fields["body"])
            name_ids = S.idents(fields.get("name", {"k": "Lit"})) if "name" in fields else set()
            bad = (S.idents(t) & value_ids) or re.search(r"\bpat(_ty)?\b|\bfirst\b|\bvar\.ty\b", tt)
            run.ob("R03.20", f"{f.name}|let #{k} is typed by its body", not bad, site(CM, st["sp"]), f"ty: {tt[:60]}",
                   witness="Show::show(match m { _ => { string_println(\"building\"); Empty {} } }): the block's let node is typed `unit` (its first statement), "
                           "so the call is lowered to trait_impl#Show#unit#show and prints `unit` instead of `Empty`")
    run.floor("core lets built by the match compiler", n, 8)


def r03_22(run, model):
    run.rule("R03.22", "a call is related to its callee as a whole function type: in every typer function that elaborates a call "
                       "(record_call_elab), each list of argument types - the second component of an argument-checking helper's result, or a "
                       "vector filled with `.get_ty()` of the arguments - becomes `params` of a `TFunc` that is an operand of a pushed "
                       "constraint. Relating only the result types leaves the number of arguments unchecked")
    CHECK = "crates/compiler/src/typer/check.rs"
    helpers = {g.name for g in model.fns(CHECK) if re.search(r"^\(.*Vec<(tast::)?Ty>.*\)$", (g.node.get("ret") or "").replace(" ", ""))}
    n = 0
    for f in model.fns(CHECK):
        if f.body is None or not any(True for _ in S.calls(f.body, "record_call_elab")):
            continue
        lists = []   # (name or None, node, how)
        for l in S.find(f.body, "Local"):
            init = l.get("init")
            if init is None:
                continue
            if l["pat"]["k"] == "PTuple" and init["k"] in ("Call", "MethodCall") and S.callee_name(init) in helpers:
                g = model.fn(S.callee_name(init), CHECK)
                comps = re.sub(r"^\(|\)$", "", (g.node.get("ret") or "").replace(" ", "")).split(",")
                for i, cty in enumerate(c for c in comps if c):
                    if re.search(r"Vec<(tast::)?Ty>", cty) and i < len(l["pat"]["elems"]):
                        e = l["pat"]["elems"][i]
                        lists.append((e["name"] if e["k"] == "PIdent" else None, l, f"component {i} of {S.callee_name(init)}(..)"))
            elif l["pat"]["k"] == "PIdent":
                nm = l["pat"]["name"]
                if any(c["k"] == "MethodCall" and c["method"] == "push" and S.is_path(c["recv"], nm) and
                       any(x["k"] == "MethodCall" and x["method"] == "get_ty" for x in S.walk(c)) for c in S.walk(f.body)):
                    # only the accumulator of this scope (the same name is reused arm by arm)
                    lists.append((nm, l, "vector of .get_ty()"))
        par = S.Parents(f.body)

        def reaches(fn_, fpar, scope, nm, after, depth=0):
            """a TFunc { params: nm } built in `scope` after `after` is an operand of push_constraint - directly, through a local, or
            in a helper of the same file that is handed the list"""
            for st in S.find(scope, "Struct"):
                if st["segs"][-1] != "TFunc":
                    continue
                pf = next((fl for fl in st["fields"] if fl["name"] == "params"), None)
                if pf is None or nm not in S.idents(pf["expr"]) or (st["sp"][0], st["sp"][1]) < after:
                    continue
                holder = next((a for a in fpar.ancestors(st) if a["k"] == "Local"), None)
                direct = any(a["k"] == "MethodCall" and a["method"] == "push_constraint" for a in fpar.ancestors(st))
                via = False
                if holder is not None and holder["pat"]["k"] == "PIdent":
                    hn = holder["pat"]["name"]
                    via = any(c["k"] == "MethodCall" and c["method"] == "push_constraint" and hn in S.idents(c) for c in S.walk(scope))
                if direct or via:
                    # the equation holds on every way through the scope that owns the list: each branch beside it (an `else`, a sibling arm)
                    # states the same kind of equation, diverges or reports - an equation that is only stated while the callee's type is
                    # still unknown leaves the arity of a call through a function-typed local unchecked
                    if depth == 0:
                        from rules.c01 import is_divergent

                        def states(b):
                            if b is None:
                                return False
                            for st2 in S.find(b, "Struct"):
                                if st2["segs"][-1] == "TFunc":
                                    pf2 = next((fl for fl in st2["fields"] if fl["name"] == "params"), None)
                                    if pf2 is not None and pf2["expr"] is not None and nm in S.idents(pf2["expr"]):
                                        return True
                            return any(c["k"] in ("Call", "MethodCall") and any(S.is_path(a, nm) for a in c["args"]) for c in S.walk(b)) or \
                                is_divergent(b) or S.pushes_error(model, run.facts, CHECK, b)
                        partial = None
                        for a in fpar.ancestors(st):
                            if a is scope or not S.span_contains(scope["sp"], a["sp"]):
                                break
                            if a["k"] == "If" and not states(a["then"] if not S.span_contains(a["then"]["sp"], st["sp"]) else a.get("else")):
                                if S.span_contains(a["then"]["sp"], st["sp"]) and a.get("else") is None and a["cond"]["k"] != "Let":
                                    partial = a
                                elif a.get("else") is not None:
                                    partial = a
                            elif a["k"] == "Match":
                                for arm in a["arms"]:
                                    if not S.span_contains(arm["sp"], st["sp"]) and not states(arm["body"]):
                                        partial = a
                        if partial is not None:
                            continue
                    return f"params of the call-site function type at line {st['sp'][0]}, which is an operand of push_constraint"
            if depth < 1:
                for c in S.walk(scope):
                    if c["k"] not in ("Call", "MethodCall") or (c["sp"][0], c["sp"][1]) < after:
                        continue
                    idx = [i for i, a in enumerate(c["args"]) if S.is_path(a, nm)]
                    hs = [h for h in model.fns(CHECK) if h.name == S.callee_name(c) and h.body is not None and h.name != fn_.name]
                    if not idx or len(hs) != 1:
                        continue
                    ps = [p for p in hs[0].params() if not p["self"]]
                    if idx[0] < len(ps) and ps[idx[0]]["pat"]["k"] == "PIdent":
                        got = reaches(hs[0], S.Parents(hs[0].body), hs[0].body, ps[idx[0]]["pat"]["name"], (0, 0), depth + 1)
                        if got:
                            return f"handed to {hs[0].name}: " + got
            return None

        for nm, l, how in lists:
            n += 1
            scope = next((a for a in par.ancestors(l) if a["k"] == "Block"), f.body)
            ok, why = False, "the list is discarded (`_`)"
            if nm is not None:
                why = "no TFunc { params: .. } built from it reaches a pushed constraint"
                got = reaches(f, par, scope, nm, (l["sp"][0], l["sp"][1]))
                if got:
                    ok, why = True, got
            key = f"{f.name}|argument types ({how}) #{sum(1 for x in lists[:lists.index((nm, l, how))] if x[2] == how) + 1} reach a constraint as a function type"
            run.ob("R03.22", key, ok, site(CHECK, l["sp"]), why,
                   witness="fn scale(x: int32) -> int32 { x * 2 } .. scale(3, \"unused\"), scale(): accepted; Core carries calls whose argument "
                           "lists disagree with the signature, the Go is rejected")
    run.floor("argument-type lists in call elaboration", n, 6)


def r03_23(run, model):
    run.rule("R03.23", "the checker and the TAST builder give a literal the same type: for every literal form whose build_expr arm states a "
                       "fixed type (it does not read the recorded results), check_expr has no arm of its own for that form (it is typed by "
                       "inference, whatever type is expected) and infer_expr's arm names that same type and no other")
    CHECK = "crates/compiler/src/typer/check.rs"
    BUILD = "crates/compiler/src/typer/tast_builder.rs"
    b = model.fn("build_expr", BUILD)

    def head(arm, rel):
        m_ = re.match(r"hir::Expr::(\w+)", S.norm_ws(run.facts.text(rel, arm["pat"]["sp"])))
        return m_.group(1) if m_ and "|" not in S.norm_ws(run.facts.text(rel, arm["pat"]["sp"])) else None

    def const_tys(node):
        return {x["segs"][-1] for x in S.walk(node) if x["k"] == "Path" and len(x["segs"]) >= 2 and x["segs"][-2] == "Ty" and re.match(r"T[A-Z]", x["segs"][-1])}

    fixed = {}
    for m_ in S.find(b.body, "Match"):
        for arm in m_["arms"]:
            h = head(arm, BUILD)
            if h is None or "results" in S.idents(arm["body"]) or any(c["k"] in ("Call", "MethodCall") and S.callee_name(c) in ("build_expr", "build_pat") for c in S.walk(arm["body"])):
                continue
            tys = const_tys(arm["body"])
            if len(tys) == 1:
                fixed[h] = (next(iter(tys)), arm)
        break
    if len(fixed) < 10:
        raise AnalysisIncomplete(f"build_expr: only {len(fixed)} literal arms with a fixed type found")

    def arms_of(fname):
        f = model.fn(fname, CHECK, impl="Typer")
        out = {}
        for m_ in S.find(f.body, "Match"):
            for arm in m_["arms"]:
                txt = S.norm_ws(run.facts.text(CHECK, arm["pat"]["sp"]))
                for v in re.findall(r"hir::Expr::(\w+)", txt):
                    out.setdefault(v, []).append(arm)
            break
        return out
    chk, inf = arms_of("check_expr"), arms_of("infer_expr")
    for v, (ty, barm) in sorted(fixed.items()):
        own = chk.get(v, [])
        run.ob("R03.23", f"check_expr|{v} has no checking rule of its own (the builder types it {ty})", not own, site(CHECK, (own or [barm])[0]["sp"]) if own else site(BUILD, barm["sp"]),
               f"check_expr arms for {v}: {len(own)}",
               witness="let big: int64 = 5000000000 is accepted by a checking rule that takes the expected type; the builder rebuilds the literal "
                       "as int32 0: `big` is bound at int32 and used at int64 in every dump")
        ia = inf.get(v, [])
        tys = set().union(*[const_tys(a["body"]) for a in ia]) if ia else set()
        run.ob("R03.23", f"infer_expr|{v} is inferred at the builder's type {ty}", bool(ia) and tys == {ty}, site(CHECK, (ia or [barm])[0]["sp"]) if ia else site(BUILD, barm["sp"]),
               f"types named in the inference arm: {sorted(tys) or 'none'}",
               witness="a literal recorded at one type and rebuilt at another: binder and use disagree in TAST, Core, Mono, Lift and ANF")
    run.floor("literal forms with a fixed type in build_expr", len(fixed), 15)


def r03_24(run, model):
    run.rule("R03.24", "checking mode ends in an equation: check_expr relates the type of what it checked - after the dyn coercion - to the "
                       "expected type on every path; the coercion passes an existing trait object through without comparing traits, so "
                       "this constraint is the only thing that keeps `dyn Shape` out of a `dyn Label` position")
    f = model.fn("check_expr", CHECK, impl="Typer")
    co = [c for c in S.walk(f.body) if c["k"] == "MethodCall" and c["method"] == "coerce_to_expected_dyn"]
    if not co:
        raise AnalysisIncomplete("check_expr: the dyn coercion was not found")
    pos = max((c["sp"][2], c["sp"][3]) for c in co)
    par = S.Parents(f.body)
    pcs = [c for c in S.walk(f.body) if c["k"] == "MethodCall" and c["method"] == "push_constraint" and (c["sp"][0], c["sp"][1]) > pos and
           "expected" in S.idents(c)]
    un = [c for c in pcs if not [a for a in par.ancestors(c) if a["k"] in ("If", "Match", "While", "For", "Closure")]]
    run.ob("R03.24", "check_expr|the checked expression's type is equated with the expected type unconditionally", bool(un), site(CHECK, (pcs or co)[0]["sp"]),
           f"constraints on `expected` after the coercion: {len(pcs)}, unconditional: {len(un)}",
           witness="let l: dyn Label = s; with s: dyn Shape is accepted; the binder has another type than its value and the Go reads "
                   "`var l dyn__Shape = s; l.vtable.label(..)`")


def r03_21(run, model):
    run.rule("R03.21", "an unknown field is an error in every pipeline: the function that gives a struct field access its type answers from "
                       "the struct's declared fields only - no field name is special-cased (a name the editor inserts for completion is an "
                       "ordinary identifier a user can write too, and the back end has no such field)")
    UNI_ = "crates/compiler/src/typer/unify.rs"
    target = None
    for f in model.fns(UNI_):
        if f.body is not None and "has no field" in "".join(x.get("value", "") for x in S.walk(f.body) if x["k"] == "Lit" and isinstance(x.get("value"), str)):
            target = f
    if target is None:
        # the message is built by format!: look at macro tokens
        for f in model.fns(UNI_):
            if f.body is not None and "has no field" in S.norm_ws(run.facts.text(UNI_, f.body["sp"])).replace(" ", ""):
                target = f
        if target is None:
            for f in model.fns(UNI_):
                if f.body is not None and "hasnofield" in S.norm_ws(run.facts.text(UNI_, f.body["sp"])):
                    target = f
    if target is None:
        raise AnalysisIncomplete("typer/unify.rs: the function that reports `has no field` was not found")
    special = []
    for iff in S.find(target.body, "If"):
        for b in S.walk(iff["cond"]):
            if b["k"] == "Binary" and b["op"] == "==":
                l, r = S.norm_ws(run.facts.text(UNI_, b["left"]["sp"])), S.norm_ws(run.facts.text(UNI_, b["right"]["sp"]))
                for a, o in ((l, r), (r, l)):
                    if re.fullmatch(r"field(\.0)?", a) and (re.fullmatch(r"[A-Z][A-Z0-9_]+", o) or o.startswith('"')):
                        special.append(f"{a} == {o}")
    run.ob("R03.21", f"{target.name}|no field name is accepted without a declaration", not special, site(UNI_, target.node["sp"]),
           f"field names compared with a constant: {special or 'none'}",
           witness="struct P { a: int32 } .. let u = p.completion_placeholder; passes the type checker (typed unit), `check` writes an interface, "
                   "`run`/`build` panic in compile_match: Struct P has no field completion_placeholder")


def run(run, model):
    run.try_rule(r03_1, model)
    run.try_rule(r03_2, model)
    run.try_rule(r03_3, model)
    run.try_rule(r03_4, model)
    run.try_rule(r03_5, model)
    run.try_rule(r03_8, model)
    run.try_rule(r03_9, model, None, ("subst_ty_silent",))
    run.try_rule(r03_10, model)
    run.try_rule(r03_11, model)
    run.try_rule(r03_12, model)
    run.try_rule(r03_13, model)
    run.try_rule(r03_14, model)
    run.try_rule(r03_15, model)
    run.try_rule(r03_16, model)
    run.try_rule(r03_17, model)
    run.try_rule(r03_17b, model)
    run.try_rule(r03_18, model)
    run.try_rule(r03_19, model)
    run.try_rule(r03_20, model)
    run.try_rule(r03_21, model)
    run.try_rule(r03_22, model)
    run.try_rule(r03_23, model)
    run.try_rule(r03_24, model)
    # a trait call accepted without finding the implementation it runs leaves an ill-typed call in every dump (shared with C17 R17.3 / R17.4)
    from rules import c17 as _c17
    run.try_rule(_c17.r17_3, model)
    run.try_rule(_c17.r17_4, model)
    from rules import c17
    run.try_rule(c17.r17_9, model)
    run.try_rule(c07.r07_4, model)
    run.try_rule(c07.r07_2, model, None, "C03")
    # a field read through a sequentially instantiated definition gets another parameter's type: the typer accepts `p.fst + 1` on a string
    run.try_rule(c07.r07_17, model)
    run.try_rule(r03_25, model)
    run.try_rule(r03_26, model)
    run.try_rule(r03_27, model)
    from rules import c08
    run.try_rule(c08.r08_1, model)
    run.try_rule(c08.r08_2, model)
    run.try_rule(c08.r08_3, model)
    from rules import c06
    for fn_ in (c06.r06_4,):
        run.try_rule(fn_, model)
    # a generic function used as a value must name an instance that exists: a reference that keeps the generic name dangles in every
    # later stage (shared with C07 R07.20)
    from rules import c07 as _c07b
    run.try_rule(_c07b.r07_20, model)
    run.assume("constraint generation in check.rs is taken as given; only the gates, the unifier and the pattern/expected-type plumbing are decided")
