"""C10 Numbers mean what they say (table / width-tag clauses)."""
import re
from lib import syn as S, tables as TB
from lib.width import tags
from lib.core import AnalysisIncomplete, site

EXPLANATION = (
    "Go supplies wrap-around, truncation and float rounding; those are outside this repository and not decided. Decided: R10.1 "
    "width consistency - in every match arm (all crates) whose pattern carries exactly one numeric width tag (Int8, TUint16, "
    "\"i8\", as_int64, f32, …) every width tag in the arm body is the same (signedness, width), casts `as T` excepted; the "
    "floor is the number of such arms confirmed by hand. R10.2 signedness and genericity - signed types go through the signed "
    "parser, unsigned through the unsigned one, and the width-generic parse helpers contain no fixed-width intermediate. R10.3 "
    "operators map to themselves: token -> syntax kind -> BinaryOp/UnaryOp -> Go operator -> printed text composes to the "
    "identity for every operator. R10.4 the printf verb of each *_to_string helper fits its Go type (integer verb only for integer "
    "types). R10.5 the suffix regexes of the lexer form a bijection with the ten integer and two float widths.")

CHECK = "crates/compiler/src/typer/check.rs"
TB_RS = "crates/compiler/src/typer/tast_builder.rs"
RUNTIME = "crates/compiler/src/go/runtime.rs"


def r10_1(run, model):
    run.rule("R10.1", "width consistency: in a match arm whose pattern carries exactly one numeric width tag, every width tag of the arm "
                      "body (variant names, method names, type parameters, string literals) carries the same signedness and width "
                      "(plain `as T` casts are outside the rule)")
    n = 0
    per_file = {}
    for rel in model.src_files():
        if "/pprint/" in rel and not rel.endswith("go_pprint.rs") and not rel.endswith("ast_pprint.rs"):
            continue
        for fn in model.fns(rel):
            if fn.body is None:
                continue
            for mt in S.find(fn.body, "Match"):
                for arm in mt["arms"]:
                    pt = tags(run.facts.text(rel, arm["pat"]["sp"]))
                    if len(pt) != 1:
                        continue
                    body = run.facts.text(rel, arm["body"]["sp"])
                    body_nocast = re.sub(r"\bas\s+[iuf](8|16|32|64)\b", "", body)
                    bt = tags(body_nocast)
                    n += 1
                    per_file[rel] = per_file.get(rel, 0) + 1
                    extra = sorted(bt - pt)
                    w = next(iter(pt))
                    if extra:
                        run.ob("R10.1", f"{fn.qual}|arm {w}", False, site(rel, arm["sp"]),
                               f"arm for {w} mentions other widths {extra}",
                               witness=f"a {w} literal/value is parsed, stored, compared or printed at width {extra[0]} (e.g. 16777217.000000001f32 rounds through f64)")
    run.ob("R10.1", "all crates|single-width arms consistent", True, None, f"{n} single-width arms in {len(per_file)} files examined")
    run.floor("single-width match arms", n, 380)


def r10_2(run, model):
    run.rule("R10.2", "signedness and genericity of literal parsing: TInt*/EInt* arms call the signed parser and TUint*/EUInt* arms the "
                      "unsigned one; the generic helpers (parse_signed*/parse_unsigned*) contain no fixed-width intermediate type and the "
                      "unsigned helper does not go through the signed one; Prim payloads have the Rust type of their width")
    n = 0
    for rel in (CHECK, TB_RS):
        for fn in model.fns(rel):
            if fn.body is None:
                continue
            if re.fullmatch(r"parse_(un)?signed(_integer)?", fn.name):
                n += 1
                # the helper and the same-file helpers it hands the text to (`parse_literal`): the bound of a generic parameter is part of it
                # (`T: TryFrom<i64>` says the value passes through i64)
                body = " ".join(run.facts.text(rel, g_.body["sp"]) + " " + " ".join(str(b_) for b_ in (g_.node.get("generics_text"), g_.node.get("where")) if b_)
                                for g_ in model.scope_fns(fn, depth=2) if g_.body is not None)
                sig = run.facts.text(rel, [fn.node["sp"][0], fn.node["sp"][1], fn.body["sp"][0], fn.body["sp"][1]])
                t = tags(body) | tags(sig)
                run.ob("R10.2", f"{fn.qual}|no fixed-width intermediate", not t, site(rel, fn.node["sp"]),
                       f"width tags inside the generic helper: {sorted(t) or 'none'}",
                       witness="18446744073709551615u64 is parsed through i64, fails, and silently becomes 0")
                if "unsigned" in fn.name:
                    calls_signed = any(S.callee_name(c) and "parse_signed" in S.callee_name(c) for c in S.calls(fn.body))
                    run.ob("R10.2", f"{fn.qual}|does not call the signed parser", not calls_signed, site(rel, fn.node["sp"]), "unsigned helper parses directly" if not calls_signed else "unsigned helper delegates to the signed parser")
            for mt in S.find(fn.body, "Match"):
                for arm in mt["arms"]:
                    pt = tags(run.facts.text(rel, arm["pat"]["sp"]))
                    if len(pt) != 1:
                        continue
                    w = next(iter(pt))
                    if w[0] == "f":
                        continue
                    calls = [S.callee_name(c) for c in S.calls(arm["body"]) if S.callee_name(c) and re.match(r"parse_(un)?signed", S.callee_name(c))]
                    for cn in calls:
                        n += 1
                        ok = (w[0] == "u") == ("unsigned" in cn)
                        run.ob("R10.2", f"{fn.qual}|{w} uses {cn}", ok, site(rel, arm["sp"]), f"{w} literal parsed by {cn}",
                               witness="-1 accepted for an unsigned type / range of the wrong signedness")
    run.floor("signedness obligations", n, 24)
    prim = model.enum("Prim", "crates/compiler/src/common.rs")
    for v in prim["variants"]:
        t = tags(v["name"])
        if len(t) == 1:
            w = next(iter(t))
            fts = [f["ty"] for f in v["fields"]]
            ok = fts == [w]
            run.ob("R10.2", f"Prim::{v['name']}|payload type", ok, site(prim["file"], v["sp"]), f"payload {fts} for width {w}",
                   witness="an out-of-range literal is representable in the IR")


def r10_3(run, model):
    run.rule("R10.3", "operators map to themselves: for every binary/unary operator, lexeme -> TokenKind -> MySyntaxKind -> BinaryOp/UnaryOp "
                      "(lowering) -> GoBinaryOp/GoUnaryOp (back end) -> printed Go text is the identity")
    tk = {v: (k, t) for v, k, t in TB.token_kinds(model)}
    tm = TB.t_macro(model)
    syms = TB.binop_symbols(run, model)
    low = model.fn("lower_expr_with_args", TB.LOWER)
    lower_bin = {}
    lower_un = {}
    for kind, op, arm in TB.arms_mapping(run, model, low, r"MySyntaxKind::([A-Za-z]+)", r"common_defs::BinaryOp::([A-Za-z]+)"):
        lower_bin.setdefault(kind, op)
    for kind, op, arm in TB.arms_mapping(run, model, low, r"MySyntaxKind::([A-Za-z]+)", r"common_defs::UnaryOp::([A-Za-z]+)"):
        lower_un.setdefault(kind, op)
    # arms_mapping looks at whole arm bodies: nested matches make the outer arm see inner ops; restrict to arms whose pattern is a single kind
    gof = model.fn("compile_cexpr", TB.GOC)
    go_bin = {l: r for l, r, _ in TB.arms_mapping(run, model, gof, r"common_defs::BinaryOp::([A-Za-z]+)", r"goast::GoBinaryOp::([A-Za-z]+)")}
    go_un = {l: r for l, r, _ in TB.arms_mapping(run, model, gof, r"common_defs::UnaryOp::([A-Za-z]+)", r"goast::GoUnaryOp::([A-Za-z]+)")}
    pp_bin, pp_un = {}, {}
    for fn in model.fns(TB.GOPP):
        if fn.impl == "GoBinaryOp" and fn.body is not None:
            pp_bin.update({l: r for l, r, _ in TB.arms_mapping(run, model, fn, r"GoBinaryOp::([A-Za-z]+)", r'RcDoc::text\("([^"]+)"\)')})
        if fn.impl == "GoUnaryOp" and fn.body is not None:
            pp_un.update({l: r for l, r, _ in TB.arms_mapping(run, model, fn, r"GoUnaryOp::([A-Za-z]+)", r'RcDoc::text\("([^"]+)"\)')})
    run.floor("binary operators in the lowering table", len(lower_bin), 12)
    run.floor("binary operators in the Go table", len(go_bin), 12)
    for op, sym in sorted(syms["BinaryOp"].items()):
        tkv = tm.get(sym)
        lex = tk.get(tkv, (None, None))[1] if tkv else None
        low_op = lower_bin.get(tkv)
        goop = go_bin.get(op)
        printed = pp_bin.get(goop)
        ok = lex == sym and low_op == op and printed == sym
        run.ob("R10.3", f"binary {op}", ok, site(TB.DEFS, None),
               f"'{sym}' -> TokenKind::{tkv} (lexeme {lex!r}) -> lowering {low_op} -> Go {goop} -> prints {printed!r}",
               witness=f"`a {sym} b` is compiled as another operator")
    for op, sym in sorted(syms["UnaryOp"].items()):
        tkv = tm.get(sym)
        low_op = lower_un.get(tkv)
        goop = go_un.get(op)
        printed = pp_un.get(goop)
        ok = low_op == op and printed == sym
        run.ob("R10.3", f"unary {op}", ok, site(TB.DEFS, None), f"'{sym}' -> TokenKind::{tkv} -> lowering {low_op} -> Go {goop} -> prints {printed!r}")


def r10_4(run, model):
    run.rule("R10.4", "each numeric *_to_string runtime helper renders its own argument at its own width: the function that builds the helper "
                      "uses a printf verb that fits the Go type (an integer verb only for integer types) and never converts the argument to "
                      "a fixed-width Go type on the way (`int64(x)` turns a uint64 above 2^63 into a negative number)")
    GO_NUM = re.compile(r"^(u?int(8|16|32|64)?|float(32|64)|uintptr)$")
    n = 0
    for fn in model.fns(RUNTIME):
        if fn.body is None:
            continue
        for c in S.walk(fn.body):
            if c["k"] != "Call" or len(c["args"]) < 2 or c["args"][0]["k"] != "Lit" or not str(c["args"][0].get("value", "")).endswith("_to_string"):
                continue
            name = c["args"][0]["value"]
            if not re.match(r"^(u?int\d+|float\d+)_to_string$", name):
                continue
            builders = model.find_fns(S.callee_name(c), RUNTIME)
            if len(builders) != 1 or builders[0].body is None:
                raise AnalysisIncomplete(f"the function building {name} was not found")
            b = builders[0]
            n += 1
            gty = S.norm_ws(run.facts.text(RUNTIME, c["args"][1]["sp"]))
            lits = [x["value"] for x in S.walk(b.body) if x["k"] == "Lit" and x.get("lit") == "Str"]
            verbs = [v for v in lits if v.startswith("%")]
            extra = [a["value"] for a in c["args"][2:] if a["k"] == "Lit"]
            # a verb handed over as a named constant of the runtime module
            for a in c["args"][2:]:
                if a["k"] == "Path" and len(a["segs"]) == 1:
                    for it, _m in model.all_items(RUNTIME):
                        if it["k"] == "Const" and it.get("name") == a["segs"][0] and (it.get("expr") or {}).get("k") == "Lit":
                            extra.append(it["expr"]["value"])
            # a verb handed down as a run-time value (a parameter fed from an options struct whose Default names it): when the builder
            # is given a non-literal verb and the module names exactly one verb in a struct-literal field, that is the verb
            if not extra and not verbs and any(a["k"] == "Path" for a in c["args"][2:]):
                named = set()
                for g in model.fns(RUNTIME):
                    if g.body is None:
                        continue
                    for st in S.find(g.body, "Struct"):
                        if st["segs"][0] in ("goast", "goty"):
                            continue     # a Go syntax node is output, not a setting
                        for fl in st.get("fields", []):
                            for x in S.walk(fl["expr"]):
                                if x["k"] == "Lit" and x.get("lit") == "Str" and str(x["value"]).startswith("%"):
                                    named.add(x["value"])
                if len(named) == 1:
                    extra.append(next(iter(named)))
            verb = extra[0] if extra else (verbs[0] if len(set(verbs)) == 1 else None)
            is_float = "Float" in gty
            ok = verb is not None and ((verb in ("%d",)) != is_float)
            run.ob("R10.4", f"{name}|verb fits {gty.split('::')[-1]}", ok, site(RUNTIME, c["sp"]), f"{name} formats {gty} with {verb!r}",
                   witness="float32_to_string(3.5) prints %!d(float32=3.5)")
            conv = sorted({v for v in lits if GO_NUM.match(v)})
            run.ob("R10.4", f"{name}|argument is rendered at its own width", not conv, site(RUNTIME, b.node["sp"]),
                   f"{b.name} names the Go type(s) {conv} in the helper's body" if conv else f"{b.name} passes the parameter on unconverted",
                   witness="uint64_to_string(18446744073709551615) prints -1: the helper widens every integer to int64 before formatting")
    run.floor("numeric to_string helpers", n, 10)


def r10_5(run, model):
    run.rule("R10.5", "the lexer's suffix regexes are a bijection with the ten integer and two float widths, each token named after its width")
    seen = {}
    for v, k, t in TB.token_kinds(model):
        if k == "regex" and t and re.search(r"\](\+|\*)\\?\.?.*[iuf](8|16|32|64)$", t.replace("\\\\", "\\")) or (k == "regex" and t and re.search(r"[iuf](8|16|32|64)$", t)):
            suf = re.search(r"([iuf])(8|16|32|64)$", t)
            w = suf.group(1) + suf.group(2)
            vt = tags(v)
            ok = vt == {w}
            seen[w] = v
            run.ob("R10.5", f"TokenKind::{v}|suffix {w}", ok, site(TB.LEXER, None), f"regex {t!r} -> {v} (tags {sorted(vt)})")
    need = {f"{s}{w}" for s in "iu" for w in (8, 16, 32, 64)} | {"f32", "f64"}
    run.ob("R10.5", "lexer|all ten suffixes", need <= set(seen), site(TB.LEXER, None), f"suffix tokens: {sorted(seen)}", witness="a suffixed literal of a missing width lexes as Int followed by an identifier")


GOPP = "crates/compiler/src/pprint/go_pprint.rs"
GOC = "crates/compiler/src/go/compile.rs"


def r10_7(run, model):
    run.rule("R10.7", "a float literal reaches Go as a float constant: the Go printer's arm for Expr::Float does not print the bare f64 "
                      "(`7.0` would print as `7`, and `7 / 2` is an untyped *integer* constant expression in Go)")
    n = 0
    for f in model.fns(GOPP):
        if f.body is None:
            continue
        for m in S.find(f.body, "Match"):
            for arm in m["arms"]:
                pt = S.norm_ws(run.facts.text(GOPP, arm["pat"]["sp"]))
                if not re.search(r"Expr::Float\{", pt):
                    continue
                n += 1
                bt = S.norm_ws(run.facts.text(GOPP, arm["body"]["sp"]))
                bare = re.fullmatch(r"RcDoc::as_string\(\*?value\)|RcDoc::text\(value\.to_string\(\)\)|RcDoc::text\(format!\(\"\{\}\",value\)\)", bt) is not None
                # exactness: whatever prints the literal (the arm or a one-level helper) must not limit the precision
                texts = [bt]
                for c in S.calls(arm["body"]):
                    g = model.opt_fn(S.callee_name(c) or "", GOPP)
                    if g is not None and g.body is not None:
                        texts.append(S.norm_ws(run.facts.text(GOPP, g.body["sp"])))
                lossy = sorted({m_ for t in texts for m_ in re.findall(r"\{:?\.\d+e?\}|\{:e\}|asf32", t)})
                run.ob("R10.7", f"{f.name}|float literals are printed exactly", not lossy, site(GOPP, arm["sp"]),
                       f"precision-limiting formats in the float printer: {lossy or 'none'}",
                       witness="1.7976931348623157e308 printed with {:.15e} is 1.797693134862316e308 (overflows); other literals come out one ulp off")
                if len(texts) > 1 and not bare:
                    bare = any(re.search(r"format!\(\"\{\}\",", t) or "to_string()" in t for t in texts[1:]) and not any(re.search(r"fract|\.0|\{:\?\}|contains\('\.'\)", t) for t in texts)
                run.ob("R10.7", f"{f.name}|float literals keep a fractional form", not bare, site(GOPP, arm["sp"]),
                       f"Expr::Float is printed by `{bt[:70]}`" + (" (Display of f64 drops `.0`)" if bare else ""),
                       witness="let x: float64 = 7.0 / 2.0 is emitted as `var x float64 = 7 / 2`, which Go evaluates to 3")
    run.floor("Go printer arms for float literals", n, 1)


def r10_8(run, model):
    run.rule("R10.8", "a numeric literal stored in an interface-typed Go slot carries its goml type: the `data` field of a dyn value is not "
                      "the bare compiled operand (an untyped constant in `any` gets Go's default type int/float64 and the vtable wrapper's "
                      "type assertion fails)")
    f = model.fn("compile_cexpr", GOC)
    found = False
    for m in S.find(f.body, "Match"):
        for arm in m["arms"]:
            pt = S.norm_ws(run.facts.text(GOC, arm["pat"]["sp"]))
            if not re.search(r"CExpr::EToDyn\{", pt):
                continue
            for sl in S.find(arm["body"], "Struct"):
                if sl["segs"][-1] != "StructLiteral":
                    continue
                bt = S.norm_ws(run.facts.text(GOC, sl["sp"]))
                mm = re.search(r'\("data"\.to_string\(\),([^)]*\)?)\)', bt)
                if not mm:
                    continue
                found = True
                val = mm.group(1)
                bare = re.fullmatch(r"compile_imm\(goenv,&?expr\)", val) is not None
                # the predicate that selects literal operands for the conversion covers every numeric type
                pred = [S.callee_name(c) for c in S.calls(arm["body"]) if re.search(r"numeric|literal_ty|is_num", S.callee_name(c) or "")]
                if pred:
                    pf = model.opt_fn(pred[0], GOC)
                    if pf is not None and pf.body is not None:
                        pt_ = S.norm_ws(run.facts.text(GOC, pf.body["sp"]))
                        want = ["TInt8", "TInt16", "TInt32", "TInt64", "TUint8", "TUint16", "TUint32", "TUint64", "TFloat32", "TFloat64"]
                        missing = [w for w in want if not re.search(r"\b" + w + r"\b", pt_)]
                        run.ob("R10.8", f"{pred[0]}|every numeric literal type gets the conversion", not missing, site(GOC, pf.node["sp"]),
                               f"numeric types not covered: {missing or 'none'}",
                               witness="let d: dyn T = 3.0 emits data: 3 (the printer drops `.0`): Go types it int and self.(float64) panics")
                # the arm that gives a literal operand its type is selected by the predicate alone: an extra conjunct exempts some type
                for mm2 in S.find(arm["body"], "Match"):
                    for a2 in mm2["arms"]:
                        g = a2.get("guard")
                        if g is None or "ImmPrim" not in S.norm_ws(run.facts.text(GOC, a2["pat"]["sp"])):
                            continue
                        gt = S.norm_ws(run.facts.text(GOC, g["sp"]))
                        narrowed = re.search(r"&&|!=|==|matches!", gt) is not None
                        run.ob("R10.8", "compile_cexpr|EToDyn literal conversion is selected by the numeric-literal predicate alone", not narrowed,
                               site(GOC, a2["sp"]), f"guard: {gt[:80]}",
                               witness="let d: dyn T = 2.0: with float64 exempted the data field is `2` (the printer drops `.0`), an int in Go; self.(float64) panics")
                run.ob("R10.8", "compile_cexpr|EToDyn data keeps the operand's type", not bare, site(GOC, sl["sp"]),
                       f"data: {val}" + (" (a literal operand becomes an untyped Go constant)" if bare else ""),
                       witness="fn pr(d: dyn Show) ..; pr(7) emits dyn__Show{data: 7, ..}; the wrapper does self.(int32) on a Go int: run-time panic")
    if not found:
        raise AnalysisIncomplete("EToDyn struct literal with a data field not found")


def r10_9(run, model):
    run.rule("R10.9", "typer and TAST builder agree on the width of an unsuffixed integer pattern: check_pat_int lets the literal take the "
                      "scrutinee's integer type, so build_pat must build the Prim from the recorded pattern type, not with a fixed-width constructor")
    BUILD = "crates/compiler/src/typer/tast_builder.rs"
    cp = model.fn("check_pat_int", CHECK, impl="Typer")
    dynamic = any(True for _ in S.calls(cp.body, "integer_literal_target"))
    bp = model.fn("build_pat", BUILD)
    found = False
    for m in S.find(bp.body, "Match"):
        for arm in m["arms"]:
            pt = S.norm_ws(run.facts.text(BUILD, arm["pat"]["sp"]))
            if not re.fullmatch(r"hir::Pat::PInt\{value\}", pt):
                continue
            found = True
            fixed = [st["segs"][-1] for st in S.find(arm["body"], "Struct") if len(st["segs"]) >= 2 and st["segs"][-2] == "Prim"]
            # (the recorded type under whatever name the arm gives it: `ty`, `scrutinee_int_ty`, ..)
            uses_ty = any(c["k"] in ("Call", "MethodCall") and any(re.search(r"(^|_)ty$", i_) for a in c["args"] for i_ in S.idents(a)) and
                          re.search(r"prim|literal|int", S.callee_name(c) or "", re.I) for c in S.walk(arm["body"]))
            ok = (not dynamic) or (uses_ty and not fixed)
            run.ob("R10.9", "build_pat|unsuffixed integer pattern built at the recorded type", ok, site(BUILD, arm["sp"]),
                   f"typer target is {'the scrutinee type (integer_literal_target)' if dynamic else 'fixed'}; builder uses " +
                   (f"fixed constructor Prim::{fixed[0]}" if fixed else "a constructor chosen from the type"),
                   witness="fn f(x: int64) -> int32 { match x { 1 => 10, _ => 0 } } panics in compile_match: `expected integer primitive pattern` (Prim::Int32 under type int64)")
    if not found:
        raise AnalysisIncomplete("build_pat: PInt arm not found")


def r10_10(run, model):
    run.rule("R10.10", "Go's constant-expression semantics never replace goml's fixed-width arithmetic: an operator whose operands are both "
                       "literals is not emitted as `lit op lit` (Go evaluates that exactly at compile time: overflow is a compile error, "
                       "no wrap-around) - the arm for EBinary/EUnary treats literal operands specially (folds with wrapping, or binds one to a variable)")
    f = model.fn("compile_cexpr", GOC)
    found = 0
    for m in S.find(f.body, "Match"):
        for arm in m["arms"]:
            pt = S.norm_ws(run.facts.text(GOC, arm["pat"]["sp"]))
            mm = re.search(r"CExpr::(EBinary)\{", pt)
            if not mm:
                continue
            found += 1
            special = "ImmPrim" in S.norm_ws(run.facts.text(GOC, arm["body"]["sp"])) or any(
                re.search(r"fold|const|literal", S.callee_name(c) or "", re.I) for c in S.calls(arm["body"]))
            run.ob("R10.10", f"compile_cexpr|{mm.group(1)} with two literal operands is not a Go constant expression", special, site(GOC, arm["sp"]),
                   "literal operands are treated specially" if special else "both operands go through compile_imm unchanged: `127i8 + 1i8` is emitted as `127 + 1`",
                   witness="let a: int8 = 127i8 + 1i8 emits `var a int8 = 127 + 1` (Go: constant 128 overflows int8); let c: uint8 = 0u8 - 1u8 emits `0 - 1`")
            run.ob("R10.10", "compile_cexpr|EBinary with one literal operand follows run-time semantics", special, site(GOC, arm["sp"]),
                   "literal operands are treated specially" if special else "a literal operand goes through compile_imm unchanged: `x / 0` is emitted with the constant divisor 0",
                   witness="fn f(x: int32) -> int32 { x / 0 } is emitted as `x__0 / 0`: Go rejects a constant zero divisor (invalid operation: division by zero) "
                           "where goml promises a run-time failure")
    for m in S.find(f.body, "Match"):
        for arm in m["arms"]:
            pt = S.norm_ws(run.facts.text(GOC, arm["pat"]["sp"]))
            if not re.search(r"CExpr::EUnary\{", pt):
                continue
            found += 1
            special = "ImmPrim" in S.norm_ws(run.facts.text(GOC, arm["body"]["sp"])) or any(
                re.search(r"fold|const|literal", S.callee_name(c) or "", re.I) for c in S.calls(arm["body"]))
            run.ob("R10.10", "compile_cexpr|EUnary with a literal operand is not a Go constant expression", special, site(GOC, arm["sp"]),
                   "a literal operand is treated specially" if special else "the operand goes through compile_imm unchanged: `-0.0` is emitted as the Go constant `-0`",
                   witness="let z: float64 = -0.0 emits the constant expression `-0` (Go constants have no negative zero: z is +0, 1.0 / z is +Inf instead of -Inf); "
                           "let m: uint8 = -1u8 emits `-1` (Go: constant -1 overflows uint8) where goml promises wrap-around")
    if not found:
        raise AnalysisIncomplete("compile_cexpr: EBinary arm not found")


def r10_6(run, model):
    run.rule("R10.6", "one type per literal: where a literal is range-checked/parsed by parse_*_literal_with_ty(.., X) and falls back to "
                      "Prim::zero_for_int_ty(Y) / from_float_literal(0.0, Y), X and Y are the same type expression (the literal's own type), "
                      "and X is that function's literal type, never the type expected by the context")
    n = 0
    for f in model.fns(CHECK):
        if f.body is None:
            continue
        for c in S.walk(f.body):
            if c["k"] != "MethodCall" or c["method"] != "unwrap_or_else":
                continue
            inner = c["recv"]
            if inner["k"] != "MethodCall" or inner["method"] not in ("parse_integer_literal_with_ty", "parse_float_literal_with_ty") or len(inner["args"]) < 3:
                continue
            fb = [x for x in S.walk(c["args"][0]) if x["k"] == "Call" and S.callee_name(x) in ("zero_for_int_ty", "from_float_literal")]
            if not fb:
                continue
            n += 1
            norm = lambda e: re.sub(r"^&|\.clone\(\)$", "", S.norm_ws(run.facts.text(CHECK, e["sp"])))
            x = norm(inner["args"][2])
            y = norm(fb[0]["args"][-1])
            ok = x == y and not re.search(r"expected", x)
            run.ob("R10.6", f"{f.qual}|literal parsed at its own type #{n}" if ok else f"{f.qual}|literal parsed at `{x}` but defaulted at `{y}`", ok, site(CHECK, c["sp"]),
                   f"{inner['method']}(.., {x}) with fallback at {y}",
                   witness="Some(300u8) as a pattern on Opt[uint8]: the expected type is still a type variable, the range check is skipped and the pattern becomes `case 0`")
    run.floor("literal parse sites with a typed fallback", n, 12)


def r10_12(run, model):
    run.rule("R10.12", "out-of-range float literals are rejected at every float type: in ensure_float_literal_fits nothing that depends on the "
                       "literal's type can return before the `is_finite` test (parsing an over-large decimal gives +inf, and that test is "
                       "the only range check float64 has)")
    f = model.fn("ensure_float_literal_fits", CHECK, impl="Typer")
    fin = [c for c in S.walk(f.body) if c["k"] == "MethodCall" and c["method"] in ("is_finite", "is_infinite", "is_nan")]
    if not fin:
        run.ob("R10.12", "ensure_float_literal_fits|finiteness is tested", False, site(CHECK, f.node["sp"]), "no is_finite / is_infinite test in the function",
               witness="a float64 literal with 309 integer digits is accepted and emitted as `inf`")
        return
    # the test that protects float64 looks at the parsed value itself, whatever the literal's type: its receiver is the f64 parameter (not a
    # narrowed copy) and neither its condition nor anything around it asks for the type
    fparams = {p["pat"].get("name") for p in f.params() if not p["self"] and re.search(r"\bf64\b", p["ty"] or "")}
    tparams = {p["pat"].get("name") for p in f.params() if not p["self"] and re.search(r"\bTy\b", p["ty"] or "")}
    par = S.Parents(f.body)
    plain = []
    for c in fin:
        r = c["recv"]
        if not (r["k"] == "Path" and len(r["segs"]) == 1 and r["segs"][0] in fparams):
            continue
        conds = []
        for a in par.ancestors(c):
            if a["k"] == "If":
                conds.append(a["cond"])
            elif a["k"] == "Match":
                conds.append(a["scrut"])
        # ancestors() passes through the If whose *condition* holds the test and through any If / Match the test is nested in
        if any(S.idents(x) & tparams for x in conds):
            continue
        plain.append(c)
    run.ob("R10.12", "ensure_float_literal_fits|the parsed value is tested whatever the type", bool(plain), site(CHECK, fin[0]["sp"]),
           f"finiteness tests: {len(fin)}; on the f64 parameter {sorted(fparams)} with no type condition around them: {len(plain)}",
           witness="`!(value as f32).is_finite()` under `matches!(ty, TFloat32)`: float64 has no range check left, 2e308 is emitted as `inf`")
    pos = min((c["sp"][0], c["sp"][1]) for c in fin)
    early = [r for r in S.walk(f.body) if r["k"] == "Return" and (r["sp"][0], r["sp"][1]) < pos]
    run.ob("R10.12", "ensure_float_literal_fits|no return precedes the finiteness test", not early, site(CHECK, (early or fin)[0]["sp"]),
           f"returns before the is_finite test: {len(early)}",
           witness="let big: float64 = 1 followed by 309 zeros .0 : the early return for `not float32` skips is_finite, Go gets `var big float64 = inf`")


def r10_13(run, model):
    run.rule("R10.13", "a float32 literal is emitted as exactly the value it denotes: go_literal_from_primitive widens the f32 with `as f64` (exact) - "
                       "any detour through text yields a shorter decimal that is a different real number, and Go evaluates constant "
                       "expressions exactly (0.1f32 + 0.6f32 would round once instead of per operation)")
    f = model.fn("go_literal_from_primitive", GOC)
    n = 0
    for iff in S.find(f.body, "If"):
        ct = S.norm_ws(run.facts.text(GOC, iff["cond"]["sp"]))
        m = re.search(r"Some\((\w+)\)=\w+\.as_float32\(\)", ct)
        if not m:
            continue
        v = m.group(1)
        for st in S.walk(iff["then"]):
            if st["k"] != "Struct" or st["segs"][-1] != "Float":
                continue
            val = next((fl["expr"] for fl in st["fields"] if fl["name"] == "value"), None)
            if val is None:
                continue
            n += 1
            e = val
            while e["k"] == "Paren":
                e = e["expr"]
            exact = e["k"] == "Cast" and S.norm_ws(str(e.get("ty"))) == "f64" and S.is_path(e["expr"], v)
            run.ob("R10.13", "go_literal_from_primitive|float32 literal widened exactly", exact, site(GOC, st["sp"]),
                   f"value: {S.norm_ws(run.facts.text(GOC, val['sp']))[:70]}",
                   witness="0.1f32 + 0.6f32 emitted as `0.1 + 0.6`: Go folds the constant exactly and rounds once to 0.699999988; single-precision "
                           "arithmetic gives 0.700000048")
    if n == 0:
        raise AnalysisIncomplete("go_literal_from_primitive: float32 branch not found")


def r10_14(run, model):
    run.rule("R10.14", "string_get returns the byte it names: the runtime helper does not convert the indexed byte with Go's integer-to-string "
                       "conversion `string(s[i])` (that yields the UTF-8 encoding of the code point with the byte's value: two bytes from "
                       "0x80 on), so a string rebuilt from its string_get pieces equals the original")
    RT = "crates/compiler/src/go/runtime.rs"
    f = model.fn("string_get", RT)
    t = S.norm_ws(run.facts.text(RT, f.body["sp"]))
    conv = [c for c in S.walk(f.body) if c["k"] == "Struct" and c["segs"][-1] == "Call"
            and re.search(r'name:"string"\.to_string\(\)', S.norm_ws(run.facts.text(RT, c["sp"])))]
    direct = False
    for c in conv:
        args = next((fl["expr"] for fl in c["fields"] if fl["name"] == "args"), None)
        if args is not None:
            at = S.norm_ws(run.facts.text(RT, args["sp"]))
            direct = direct or re.match(r"vec!\[goast::Expr::Index\{", at) is not None
    run.ob("R10.14", "string_get|the indexed byte is not converted as a code point", not direct, site(RT, f.node["sp"]),
           "string(s[i]) on the byte itself" if direct else "the byte is wrapped (slice / substring) before the conversion",
           witness="rebuilding \"\u00e9\" (bytes C3 A9) with the string_len / string_get loop of 068_lisp_interp gives a 4-byte string that prints as `Ã©`")


def r10_21(run, model):
    run.rule("R10.21", "the string helpers count in one unit: string_len and string_get are the two halves of every index loop over a "
                       "string (`while i < string_len(s) { string_get(s, i) }`), so what string_len measures (`len(s)`: bytes; `len([]rune(s))` "
                       "/ utf8.RuneCountInString: characters) is what string_get indexes (`s[i]` / `[]rune(s)[i]`)")
    RT = "crates/compiler/src/go/runtime.rs"

    def go_name(st):
        for fl in st["fields"]:
            if fl["name"] == "name":
                for l in S.walk(fl["expr"]):
                    if l["k"] == "Lit" and l.get("lit") == "Str":
                        return l["value"]
        return None

    def unit_of(e):
        """what a goast expression over the parameter `s` ranges over: 'bytes' for the string itself, 'chars' for a rune conversion"""
        for st in S.walk(e):
            if st["k"] == "Struct" and st["segs"][-1] == "Call":
                fn_ = next((fl["expr"] for fl in st["fields"] if fl["name"] == "func"), None)
                nm = next((go_name(x) for x in S.walk(fn_) if x["k"] == "Struct" and x["segs"][-1] == "Var"), None) if fn_ is not None else None
                if nm in ("[]rune", "utf8.RuneCountInString", "utf8.DecodeRuneInString"):
                    return "chars"
        for st in S.walk(e):
            if st["k"] == "Struct" and st["segs"][-1] == "Var" and go_name(st) == "s":
                return "bytes"
        return None
    units = {}
    for name, what in (("string_len", "len"), ("string_get", None)):
        f = model.fn(name, RT)
        u = None
        for st in S.walk(f.body):
            if st["k"] != "Struct":
                continue
            if what == "len" and st["segs"][-1] == "Call":
                fn_ = next((fl["expr"] for fl in st["fields"] if fl["name"] == "func"), None)
                nm = next((go_name(x) for x in S.walk(fn_) if x["k"] == "Struct" and x["segs"][-1] == "Var"), None) if fn_ is not None else None
                if nm in ("len", "utf8.RuneCountInString"):
                    args = next((fl["expr"] for fl in st["fields"] if fl["name"] == "args"), None)
                    u = "chars" if nm != "len" else (unit_of(args) if args is not None else None)
            if what is None and st["segs"][-1] == "Index":
                arr = next((fl["expr"] for fl in st["fields"] if fl["name"] == "array"), None)
                u = unit_of(arr) if arr is not None else None
        if u is None:
            raise AnalysisIncomplete(f"{name}: what it counts / indexes was not recognised")
        units[name] = u
    ok = units["string_len"] == units["string_get"]
    run.ob("R10.21", "string_len / string_get|one unit", ok, site(RT, model.fn("string_get", RT).node["sp"]),
           f"string_len counts {units['string_len']}, string_get indexes {units['string_get']}",
           witness="`while i < string_len(s) { string_get(s, i); i = i + 1 }` over \"h\u00e9llo\": the length is 6 bytes, the last index asks for the 6th of 5 characters - index out of range at run time")


def r10_22(run, model):
    run.rule("R10.22", "a numeric literal node holds what was written: in ast::lower every construction of an integer / float literal node "
                       "(ast::Expr::EInt .. EUInt64, EFloat ..) sits in the arm that reads the literal token of that kind (`cst::Expr::Int8Expr(it)` "
                       "..), directly or in a helper only that arm calls - the front end does not compute literals (no folding of a sign, no "
                       "wrap-around at lowering time): range checks and typing see the digits of the source")
    LOWER = "crates/ast/src/lower.rs"
    LIT = re.compile(r"^E(U?Int(8|16|32|64)?|Float(32|64)?)$")
    sites = {}
    for f in model.fns(LOWER):
        if f.body is None:
            continue
        for st in S.find(f.body, "Struct"):
            if LIT.match(st["segs"][-1]) and "Expr" in st["segs"]:
                sites[tuple(st["sp"])] = (f, st, False)
    if not sites:
        raise AnalysisIncomplete("no literal node is built in ast::lower")
    for f in model.fns(LOWER):
        if f.body is None:
            continue
        g = model.inlined_fn(f)
        par = S.Parents(g.body)
        for st in S.find(g.body, "Struct"):
            if not (LIT.match(st["segs"][-1]) and "Expr" in st["segs"]):
                continue
            key = tuple(getattr(st["sp"], "orig", None) or st["sp"])
            if key not in sites:
                continue
            kind = st["segs"][-1][1:]
            for a in par.ancestors(st):
                if a["k"] == "Arm" and re.search(r"cst::Expr::" + kind + r"Expr\b", S.norm_ws(run.facts.text(LOWER, a["pat"]["sp"]))):
                    sites[key] = (sites[key][0], sites[key][1], True)
                    break
    for key, (f, st, ok) in sorted(sites.items()):
        run.ob("R10.22", f"{f.name}|{st['segs'][-1]} is built from its token", ok, site(LOWER, st["sp"]),
               "inside the arm for the literal token of that kind" if ok else "built outside the arm that reads the token: a computed literal",
               witness="`-300u8`: the sign is folded into the literal as (-300) mod 256 = 212; the range check that rejects 300u8 never sees 300")
    run.floor("literal nodes built in ast::lower", len(sites), 12)


def r10_24(run, model):
    run.rule("R10.24", "the typed program holds the literals that were written: in typer/check.rs and typer/tast_builder.rs every construction of "
                       "a `tast::Expr::EPrim` (other than the unit value, or an EPrim arm putting its own value back) sits in the arm that reads "
                       "the literal HIR node (`hir::Expr::EInt8 { value }` ..), directly or in a helper only that arm calls - the checker and the "
                       "builder are two readers of one literal, and neither computes a literal of its own (no sign folded in one of them)")
    LITARM = re.compile(r"hir::Expr::E(U?Int(8|16|32|64)?|Float(32|64)?|Bool|String|Unit|MultilineString)\b")
    n = 0
    for rel in ("crates/compiler/src/typer/check.rs", "crates/compiler/src/typer/tast_builder.rs"):
        own = {}
        for f in model.fns(rel):
            if f.body is None:
                continue
            for st in S.find(f.body, "Struct"):
                if st["segs"][-1] == "EPrim" and "Expr" in st["segs"]:
                    own[tuple(st["sp"])] = [f, st, None]
        for f in model.fns(rel):
            if f.body is None:
                continue
            g = model.inlined_fn(f)
            par = S.Parents(g.body)
            for st in S.find(g.body, "Struct"):
                key = tuple(getattr(st["sp"], "orig", None) or st["sp"])
                if key not in own or own[key][2] is True:
                    continue
                val = next((fl["expr"] for fl in st.get("fields", []) if fl.get("name") == "value"), None)
                vtxt = S.norm_ws(run.facts.text(rel, val["sp"])) if val is not None else ""
                ok = "Prim::unit()" in vtxt.replace(" ", "")
                for a in par.ancestors(st):
                    if a["k"] == "Arm":
                        ptxt = S.norm_ws(run.facts.text(rel, a["pat"]["sp"]))
                        if LITARM.search(ptxt) or re.search(r"tast::Expr::EPrim\b", ptxt):
                            ok = True
                            break
                own[key][2] = ok if own[key][2] is None else (own[key][2] or ok)
        for key, (f, st, ok) in sorted(own.items()):
            n += 1
            run.ob("R10.24", f"{f.name}|EPrim is built from its literal", bool(ok), site(rel, st["sp"]),
                   "inside the arm for the literal HIR node (or the unit value)" if ok else "built outside the arm that reads the literal: a computed literal",
                   witness="`-128i8` accepted by a checker that folds the sign into the literal while the TAST builder still parses `128` as int8, "
                           "falls back to 0 and negates it: `var a int8 = -0`, no diagnostic")
    run.floor("EPrim constructions in the checker and the TAST builder", n, 30)


def _cast_keeps(src, tgt):
    """a value of the width tag `src` (i8..u64, f32, f64) survives `as tgt`; None when tgt is no primitive number type"""
    sk, sb = src[0], int(src[1:])
    m = re.fullmatch(r"([iuf])(8|16|32|64|128|size)", tgt)
    if not m:
        return None
    tk, tb = m.group(1), (64 if m.group(2) == "size" else int(m.group(2)))
    if sk == "f":
        return tk == "f" and tb >= sb
    if tk == "f":
        return sb <= (24 if tb == 32 else 53)
    if sk == "u":
        return (tk == "u" and tb >= sb) or (tk == "i" and tb > sb)
    return tk == "i" and tb >= sb


def r10_23(run, model):
    run.rule("R10.23", "no cast loses the value of its width: in a match arm whose pattern carries exactly one numeric width tag (the arms "
                       "R10.1 looks at) every `as T` to a primitive number type can represent every value of that width - `Prim::UInt64 { value } "
                       "=> value as i64` turns the upper half of uint64 into negative numbers (R10.1 leaves casts out; this is their rule)")
    n = 0
    for rel in model.src_files():
        for fn in model.fns(rel):
            if fn.body is None:
                continue
            for mt in S.find(fn.body, "Match"):
                for arm in mt["arms"]:
                    pt = tags(run.facts.text(rel, arm["pat"]["sp"]))
                    if len(pt) != 1:
                        continue
                    w = next(iter(pt))
                    for c in S.find(arm["body"], "Cast"):
                        t = (c["ty"] or "").replace(" ", "")
                        r = _cast_keeps(w, t)
                        if r is None:
                            continue
                        n += 1
                        run.ob("R10.23", f"{fn.qual}|arm {w}: `as {t}` keeps the value", r, site(rel, c["sp"]),
                               f"`{S.norm_ws(run.facts.text(rel, c['sp']))[:60]}` in the arm for {w}",
                               witness="let big: uint64 = 18446744073709551615u64 is emitted as `var big uint64 = -1` (Go: constant -1 overflows uint64); "
                                       "`match x { 9223372036854775808u64 => .. }` becomes `case -9223372036854775808:`")
    run.floor("casts in single-width arms", n, 5)


def r10_15(run, model):
    run.rule("R10.15", "literal text is read one way: the type checker validates a literal and the TAST builder parses it again on its own, so "
                       "every place that turns numeric literal text into a number (`.parse()` in typer/check.rs, typer/tast_builder.rs and the "
                       "float case of ast/lower.rs) prepares the text identically - a spelling the checker accepts and the builder cannot parse "
                       "becomes the builder's fallback `0`")
    LOWER = "crates/ast/src/lower.rs"
    sites = []
    for rel in (CHECK, TB_RS, LOWER):
        for f in model.fns(rel):
            if f.body is None:
                continue
            for c in S.walk(f.body):
                if c["k"] != "MethodCall" or c["method"] != "parse":
                    continue
                txt = S.norm_ws(run.facts.text(rel, c["sp"]))
                tf = re.search(r"parse::<(\w+)>", txt)
                kind = tf.group(1) if tf else "_"
                if kind in ("usize", "u32", "bool") or (rel == LOWER and kind != "f64"):
                    continue
                chain = []
                r = c["recv"]
                while r["k"] == "MethodCall":
                    chain.append(r["method"] + "(" + ",".join(S.norm_ws(run.facts.text(rel, a["sp"])) for a in r["args"]) + ")")
                    r = r["recv"]
                sites.append((rel, f, c, tuple(reversed(chain)), kind))
    if len(sites) < 3:
        raise AnalysisIncomplete(f"only {len(sites)} literal parse sites found")
    from collections import Counter
    common = Counter(s_[3] for s_ in sites).most_common(1)[0][0]
    seq = {}
    for rel, f, c, chain, kind in sites:
        seq[(f.name, kind)] = seq.get((f.name, kind), 0) + 1
        run.ob("R10.15", f"{f.name}|parse::<{kind}> #{seq[(f.name, kind)]} prepares the text like the other literal parsers", chain == common, site(rel, c["sp"]),
               f"text preparation here: {list(chain) or 'none'}; elsewhere: {list(common) or 'none'}",
               witness="with `_` accepted between digits everywhere but in the builder's float32 case, `12_345.5f32` is accepted and emitted as `float32 = 0`")
    run.floor("numeric literal parse sites", len(sites), 8)


def r10_17(run, model):
    run.rule("R10.17", "checker and builder read a literal expression at one type: the later stages consume the TAST that tast_builder.rs builds "
                       "from the hir again, with a fixed type per literal form (`1` is an int32, `1i64` an int64, ..); every place of the checker "
                       "that takes such a literal form apart and range-checks it does so at that very type - a literal the checker validates at "
                       "another type is accepted there and built as the builder's type, an out-of-range one as the fallback 0")
    bx = model.fn("build_expr", TB_RS)
    btype = {}
    for m in S.find(bx.body, "Match"):
        for arm in m["arms"]:
            pt = S.norm_ws(run.facts.text(TB_RS, arm["pat"]["sp"]))
            mm = re.fullmatch(r"hir::Expr::(E(?:U?Int|Float)\d*)\{value\}", pt)
            if not mm:
                continue
            tys = set(re.findall(r"\bty:tast::Ty::(T\w+)", S.norm_ws(run.facts.text(TB_RS, arm["body"]["sp"]))))
            if len(tys) == 1:
                btype[mm.group(1)] = next(iter(tys))
    if len(btype) < 10:
        raise AnalysisIncomplete(f"build_expr: fixed types found for {sorted(btype)} only")
    n = 0
    occurrences = 0
    for f in model.fns(CHECK):
        if f.body is None:
            continue
        occurrences += len(re.findall(r"hir::Expr::E(?:U?Int|Float)\d*\{", S.norm_ws(run.facts.text(CHECK, f.body["sp"]))))
        regions = []
        for m in S.find(f.body, "Match"):
            for arm in m["arms"]:
                for v in re.findall(r"hir::Expr::(E(?:U?Int|Float)\d*)\{", S.norm_ws(run.facts.text(CHECK, arm["pat"]["sp"]))):
                    regions.append((v, arm["body"]))
        for l in S.find(f.body, "Local"):
            for v in re.findall(r"hir::Expr::(E(?:U?Int|Float)\d*)\{", S.norm_ws(run.facts.text(CHECK, l["pat"]["sp"]))):
                regions.append((v, f.body))
        for l in S.find(f.body, "Let"):
            for v in re.findall(r"hir::Expr::(E(?:U?Int|Float)\d*)\{", S.norm_ws(run.facts.text(CHECK, l["pat"]["sp"]))):
                regions.append((v, f.body))
        for c in S.walk(f.body):
            if c["k"] == "Macro" and "hir::Expr::E" in S.norm_ws(run.facts.text(CHECK, c["sp"])):
                for v in re.findall(r"hir::Expr::(E(?:U?Int|Float)\d*)\{", S.norm_ws(run.facts.text(CHECK, c["sp"]))):
                    regions.append((v, f.body))
        for v, region in regions:
            n += 1
            if v not in btype:
                continue
            lets = {}
            for l in S.find(region, "Local"):
                if l.get("init") is not None:
                    for b in S.pat_bindings(l["pat"]):
                        lets.setdefault(b, []).append(S.norm_ws(run.facts.text(CHECK, l["init"]["sp"])))
            for c in S.walk(region):
                if c["k"] != "MethodCall" or c["method"] not in ("parse_integer_literal_with_ty", "parse_float_literal_with_ty") or len(c["args"]) < 3:
                    continue
                t = re.sub(r"^&|\.clone\(\)$", "", S.norm_ws(run.facts.text(CHECK, c["args"][2]["sp"])))
                srcs = lets.get(t, [t]) if re.fullmatch(r"\w+", t) else [t]
                ok = all(x == "tast::Ty::" + btype[v] for x in srcs)
                run.ob("R10.17", f"{f.name}|{v} is range-checked at the type it is built at", ok, site(CHECK, c["sp"]),
                       f"checked at `{'`, `'.join(srcs)}`; tast_builder builds {v} as {btype[v]}",
                       witness="n > 5000000000 with n: int64: the checker accepts the literal at int64, the builder parses it as an i32, fails and "
                               "emits `n > 0`")
    if n < occurrences:
        raise AnalysisIncomplete(f"check.rs takes literal forms apart at {occurrences} places, {n} were understood")
    run.floor("places of the checker that take a literal expression apart", n, 12)


def r10_18(run, model):
    run.rule("R10.18", "an operator is carried through the passes as itself: in every arm of the term-to-term passes that takes the operator of a "
                       "unary or binary node, the builtin case rebuilds a node of the same kind with that operator - negation is not rewritten "
                       "into a subtraction from zero (-0.0 and 0 - 0.0 differ in sign, and float32 rounding is per operation), nor any operator "
                       "into another")
    from rules import c01 as _c01
    n = 0
    for file in _c01.FILTER_FREE_FILES:
        for f in model.fns(file):
            if f.body is None:
                continue
            for m in S.find(f.body, "Match"):
                for arm in m["arms"]:
                    pt = S.norm_ws(run.facts.text(file, arm["pat"]["sp"]))
                    mm = re.search(r"\b(EUnary|EBinary)\{", pt)
                    if not mm or "op" not in S.pat_bindings(arm["pat"]):
                        continue
                    kind = mm.group(1)
                    other = "EBinary" if kind == "EUnary" else "EUnary"
                    n += 1
                    derived = {"op"}
                    for l in S.find(arm["body"], "Local"):
                        if l.get("init") is not None and S.idents(l["init"]) <= derived | {"clone"} and S.idents(l["init"]):
                            derived |= set(S.pat_bindings(l["pat"]))
                    same = [st for st in S.find(arm["body"], "Struct") if st["segs"][-1] == kind]
                    cross = [st for st in S.find(arm["body"], "Struct") if st["segs"][-1] == other]
                    okop = bool(same) and all(any(fl["name"] == "op" and S.idents(fl["expr"]) and S.idents(fl["expr"]) <= derived for fl in st["fields"]) for st in same)
                    ok = okop and not cross
                    run.ob("R10.18", f"{f.name}|{kind} is rebuilt with its own operator", ok, site(file, (cross[0] if cross else arm)["sp"]),
                           (f"the arm builds a {other} node" if cross else "the operator field is not the matched operator" if not okop else f"{len(same)} {kind} node(s) carrying `op`"),
                           witness="let z = 0.0; float64_to_string(-z) prints -0 ; lowered as 0 - z it prints 0")
    run.floor("operator arms in the term-to-term passes", n, 10)


def r10_16(run, model):
    """a loop body is unit: effect position (where the back end keeps calls only) never holds a value-producing operation such as a division
    (shared with C03 R03.14, the loop's children only)"""
    from rules import c03
    c03.r03_14(run, model, only=("infer_while_expr",))


def r10_20(run, model):
    run.rule("R10.20", "a float literal is rounded once, to its own type: where the TAST builder turns the text of a float32 literal into its "
                       "payload, the text is parsed at f32 (resolved `str::parse::<f32>`) - parsed at f64 and narrowed afterwards it is rounded "
                       "twice, and a decimal just beside a float32 rounding midpoint comes out one ulp off (float64 literals: parsed at f64)")
    from lib.mir import Mir
    mir = Mir(run.facts)
    f = model.fn("build_expr", TB_RS)
    helpers = {g.name: g for g in model.scope_fns(f) if g is not f and g.body is not None}
    n = 0
    for m in S.find(f.body, "Match"):
        for arm in m["arms"]:
            for alt in S.pat_alts(arm["pat"]):
                h = S.pat_head(S.strip_refs(alt))
                if h[0] != "variant" or h[1][-1] not in ("EFloat32", "EFloat64"):
                    continue
                want = "f32" if h[1][-1] == "EFloat32" else "f64"
                spans = [arm["body"]["sp"]] + [helpers[S.callee_name(c)].body["sp"] for c in S.walk(arm["body"]) if c["k"] == "Call" and S.callee_name(c) in helpers]
                seen = set()
                for sp in spans:
                    for c in mir.in_span(TB_RS, sp):
                        if c["callee"].endswith("::parse") and "str" in c["callee"] and re.fullmatch(r"\[f(32|64)\]", c.get("substs") or ""):
                            seen.add(c["substs"].strip("[]"))
                n += 1
                ok = seen == {want}
                run.ob("R10.20", f"build_expr|{h[1][-1]} text parsed at {want}", ok, site(TB_RS, arm["sp"]),
                       f"the literal text is parsed at {sorted(seen) or 'no float type'} on its way into the payload",
                       witness="16777217.000000001f32 denotes 16777218 (round to nearest float32); parsed at f64 it becomes 16777217 exactly, and "
                               "`as f32` rounds that tie to even: 16777216")
        break
    run.floor("float literal arms of build_expr with a text payload", n, 2)


def run(run, model):
    run.try_rule(r10_12, model)
    run.try_rule(r10_20, model)
    run.try_rule(r10_13, model)
    run.try_rule(r10_14, model)
    run.try_rule(r10_21, model)
    run.try_rule(r10_22, model)
    run.try_rule(r10_24, model)
    run.try_rule(r10_23, model)
    run.try_rule(r10_6, model)
    run.try_rule(r10_7, model)
    run.try_rule(r10_8, model)
    run.try_rule(r10_9, model)
    run.try_rule(r10_10, model)
    from rules import c09
    run.rule("R10.11", "a division that can fail is never removed as dead code, for every integer width (shared with C09 R09.4)")
    run.try_rule(c09.r09_4, model)
    run.try_rule(r10_1, model)
    run.try_rule(r10_2, model)
    run.try_rule(r10_3, model)
    run.try_rule(r10_4, model)
    run.try_rule(r10_5, model)
    run.try_rule(r10_15, model)
    run.try_rule(r10_16, model)
    run.try_rule(r10_17, model)
    run.try_rule(r10_18, model)
    # the value of `a / b / c` and `a * b / c` depends on the associativity the parser gives * and / (shared with C11 R11.1)
    from rules import c11 as _c11
    run.try_rule(_c11.r11_1, model)
    # an arithmetic node that returns one operand in place of the operation (shared with C09 R09.14)
    from rules import c09 as _c09
    run.try_rule(_c09.r09_14, model)
    run.assume("Go's sized integer/float types implement wrap-around, truncating division and IEEE rounding (outside the repository)")
