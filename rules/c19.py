"""C19 Generated names are unique and never capture Go or runtime names."""
import re
from lib import syn as S, tables as TB
from lib.core import AnalysisIncomplete, site

EXPLANATION = (
    "Static decision of the naming tables. R19.1: go_ident escapes exactly Go's 25 keywords and the lookup does not depend on the order "
    "of the table. R19.2: every Go-level name the back end emits on its own (runtime helper functions, main/main0, predeclared "
    "identifiers the emitted code calls by name) must be unreachable for user definitions - rewritten by go_ident or rejected by the "
    "front end; the reserved set is extracted from the runtime's goast::Fn names and the string constants of the back end. R19.3: "
    "compiler temporaries live in their own name space: every gensym prefix lies outside the user identifier grammar (lexer Ident "
    "regex) or user top-level names are renamed away from it; prefixes are pairwise non-confusable (none extends another by digits) "
    "and contain no `__` (the separator of renamed user locals). R19.4: type-name encoders encode the element count of variadic "
    "formers (tuple arity, array length) so that nested shapes with equal flattened element lists stay distinct. Injectivity of the "
    "encoders over all types is not decided.")

MANGLE = "crates/compiler/src/go/mangle.rs"
GOAST = "crates/compiler/src/go/goast.rs"
RUNTIME = "crates/compiler/src/go/runtime.rs"
GOC = "crates/compiler/src/go/compile.rs"

GO_KEYWORDS = {"break", "default", "func", "interface", "select", "case", "defer", "go", "map", "struct", "chan", "else", "goto", "package",
               "switch", "const", "fallthrough", "if", "range", "type", "continue", "for", "import", "return", "var"}
GO_PREDECLARED_USED = {"println", "panic", "len", "append", "string", "int32", "nil", "true", "false", "fmt"}


def str_lits(node):
    return [n["value"] for n in S.walk(node) if n["k"] == "Lit" and n.get("lit") == "Str"]


def r19_14(run, model):
    run.rule("R19.14", "structs, enums and extern types share one name space: each becomes a top-level Go type under its goml name, so the "
                       "function that rejects a second definition of a name treats the three kinds alike (one seen-set, not one per kind) - "
                       "`struct Shape` next to `enum Shape` is an error, not two Go declarations `type Shape`")
    TOP = "crates/compiler/src/typer/toplevel.rs"
    n = 0
    for g in model.fns(TOP):
        if g.body is None:
            continue
        for m in S.find(g.body, "Match"):
            arms = {}
            for arm in m["arms"]:
                for kind in re.findall(r"Def::(EnumDef|StructDef|ExternType)\b", S.norm_ws(run.facts.text(TOP, arm["pat"]["sp"]))):
                    arms[kind] = arm
            if len(arms) < 2 or not any(re.search(r"!\w+\.insert\(", S.norm_ws(run.facts.text(TOP, i_["cond"]["sp"]))) for i_ in S.find(g.body, "If")):
                continue
            n += 1
            shape = {}
            for k, a in arms.items():
                t = S.norm_ws(run.facts.text(TOP, a["body"]["sp"]))
                for b in S.pat_bindings(a["pat"]):
                    t = re.sub(r"\b" + re.escape(b) + r"\.\w+", "DEF.NAME", t)
                shape[k] = t
            ok = len(arms) == 3 and len(set(shape.values())) == 1
            run.ob("R19.14", f"{g.name}|enum, struct and extern type names are tested against one another", ok, site(TOP, m["sp"]),
                   f"kinds handled: {sorted(arms)}; per-kind treatment: {sorted(set(shape.values()))}",
                   witness="struct Shape { side: int32 } enum Shape { Circle, Square }: accepted; the Go file declares `type Shape struct` and "
                           "`type Shape interface`")
    run.floor("duplicate tests over the kinds of type definitions", n, 1)


def r19_1(run, model):
    run.rule("R19.1", "go_ident escapes exactly Go's 25 keywords; the keyword lookup is order-independent (pattern match / contains / set) or "
                      "its table is sorted when searched by bisection")
    f = model.fn("is_go_keyword", MANGLE)
    lits = []
    for n in S.walk(f.body):
        if n["k"] == "Macro" and n["name"] == "matches":
            lits += re.findall(r'"([a-z]+)"', n.get("tokens", ""))
        elif n["k"] == "Lit" and n.get("lit") == "Str":
            lits.append(n["value"])
    # tables declared outside the function
    table_order = None
    for it, _ in model.all_items(MANGLE):
        if it["k"] == "Const" and re.search(r"&?\[&(?:'static )?str", it.get("ty") or ""):
            vals = str_lits(it["expr"])
            if it["name"] in S.idents(f.body):
                lits += vals
                table_order = vals
    got = set(lits)
    missing = sorted(GO_KEYWORDS - got)
    extra = sorted(got - GO_KEYWORDS)
    run.ob("R19.1", "is_go_keyword|all 25 keywords", not missing, site(MANGLE, f.node["sp"]), f"missing: {missing or 'none'}",
           witness=f"a user function named `{missing[0] if missing else '?'}` is emitted verbatim: illegal Go")
    run.ob("R19.1", "is_go_keyword|only keywords", not extra, site(MANGLE, f.node["sp"]), f"non-keywords escaped: {extra or 'none'}")
    txt = S.norm_ws(run.facts.text(MANGLE, f.body["sp"]))
    bis = "binary_search" in txt
    ok = (not bis) or (table_order is not None and table_order == sorted(table_order))
    run.ob("R19.1", "is_go_keyword|lookup independent of table order", ok, site(MANGLE, f.node["sp"]),
           "pattern match / linear membership" if not bis else f"binary_search over a table that is {'sorted' if ok else 'NOT sorted'}",
           witness="`fn interface(x)` is emitted as `func interface(...)`: the bisection misses a keyword that is out of order")
    # a shortcut in front of the table: every test that answers `false` early is evaluated on each of the 25 keywords
    from lib import streval
    ps = [p_["pat"].get("name") for p_ in f.params() if not p_["self"]]
    for iff in S.find(f.body, "If"):
        tails = [x for x in S.walk(iff["then"]) if x["k"] == "Return" and x.get("expr") is not None and x["expr"]["k"] == "Lit" and str(x["expr"].get("value")) == "false"]
        st_ = iff["then"]["stmts"]
        if st_ and st_[-1]["k"] == "ExprStmt" and not st_[-1].get("semi") and st_[-1]["expr"]["k"] == "Lit" and str(st_[-1]["expr"].get("value")) == "false":
            tails.append(st_[-1]["expr"])
        if not tails or len(ps) != 1:
            continue
        lost = []
        for kw in sorted(GO_KEYWORDS):
            try:
                if streval.ev(iff["cond"], {ps[0]: kw}) is True:
                    lost.append(kw)
            except streval.Unknown as e_:
                raise AnalysisIncomplete(f"is_go_keyword: an early `return false` is guarded by a test this rule cannot evaluate ({e_})")
        run.ob("R19.1", "is_go_keyword|no shortcut answers `false` for a keyword", not lost, site(MANGLE, iff["sp"]),
               f"`if {S.norm_ws(run.facts.text(MANGLE, iff['cond']['sp']))[:80]}` returns false for: {lost or 'no keyword'}",
               witness=f"a user function or variable named `{lost[0] if lost else '?'}` is emitted verbatim: the Go file does not parse")
    g = model.fn("go_ident", MANGLE)
    t = S.norm_ws(run.facts.text(MANGLE, g.body["sp"]))
    ok = "is_valid_go_ident(name)&&!is_go_keyword(name)" in t
    run.ob("R19.1", "go_ident|keywords and invalid identifiers are rewritten", ok, site(MANGLE, g.node["sp"]), "names are returned unchanged only if valid and not a keyword" if ok else t[:100])


def reserved_names(run, model, exact_only=False):
    names = set()
    for f in model.fns(RUNTIME):
        if f.body is None:
            continue
        for st in S.find(f.body, "Struct"):
            if st["segs"][-1] == "Fn" and ("goast" in st["segs"] or len(st["segs"]) <= 2):
                for fl in st["fields"]:
                    if fl["name"] == "name":
                        e = fl["expr"]
                        plain = e["k"] == "Lit" or (e["k"] == "MethodCall" and e["method"] in ("to_string", "into", "to_owned") and e["recv"]["k"] == "Lit")
                        if exact_only and not plain:
                            continue
                        for v in str_lits(e):
                            names.add(v)
        # helpers of runtime.rs that build a goast::Fn named after their first &str parameter (to_string_fn and friends)
        ctor_helpers = set()
        for g in model.fns(RUNTIME):
            if g.body is None:
                continue
            ps = [p_ for p_ in g.params() if not p_["self"]]
            if ps and "str" in (ps[0]["ty"] or "") and ps[0]["pat"].get("name"):
                pn = ps[0]["pat"]["name"]
                for st in S.find(g.body, "Struct"):
                    if st["segs"][-1] == "Fn" and any(fl["name"] == "name" and pn in S.idents(fl["expr"]) for fl in st["fields"]):
                        ctor_helpers.add(g.name)
        for c in S.calls(f.body, *(ctor_helpers | {"to_string_fn"})):
            if c["k"] == "Call" and c["args"] and c["args"][0]["k"] == "Lit":
                names.add(c["args"][0]["value"])
    return {n for n in names if re.fullmatch(r"[A-Za-z_][A-Za-z0-9_]*", n)}


def r19_2(run, model):
    run.rule("R19.2", "reserved Go-level names (runtime helpers, main/main0, predeclared identifiers the output calls) are unreachable for user "
                      "definitions: go_ident rewrites them or the front end rejects a user item of that name")
    R = reserved_names(run, model) | {"main0"} | {"println", "panic", "len", "append"}
    run.floor("reserved names extracted from the runtime", len(R), 20)
    run.anchor("reserved Go-level names", sorted(R))
    # mechanism 1: go_ident consults a reserved set
    g = model.fn("go_ident", MANGLE)
    mtxt = S.norm_ws(run.facts.text(MANGLE, g.node["sp"]))
    consults = any(n in mtxt for n in ("is_reserved", "RESERVED", "reserved"))
    # mechanism 2: the typer rejects user functions whose name is a builtin / reserved name
    rejects = False
    for rel in ("crates/compiler/src/typer/toplevel.rs", "crates/compiler/src/typer/name_resolution.rs", "crates/compiler/src/hir.rs"):
        for f in model.fns(rel):
            if f.body is None:
                continue
            t = S.norm_ws(run.facts.text(rel, f.body["sp"]))
            if re.search(r"(shadows|conflicts with|reserved|redefin)[a-z ]*(builtin|runtime|reserved)", t, re.I):
                rejects = True
    ok = consults or rejects
    run.ob("R19.2", "user top-level names vs reserved Go-level names", ok, site(MANGLE, g.node["sp"]),
           f"{len(R)} reserved names ({', '.join(sorted(R)[:8])}, …); go_ident consults a reserved set: {consults}; front end rejects clashes: {rejects}",
           witness="`fn missing(x: int32) -> int32`, `fn main0()`, `fn string_println(..)`: two Go functions of the same name; `fn println(..)` / `fn len(..)` shadow the predeclared function the runtime calls")
    # the entry test must not rename other packages' main
    for f in model.fns(GOC):
        if f.body is None:
            continue
        for l in S.find(f.body, "Local"):
            if l["pat"]["k"] == "PIdent" and l["pat"]["name"] == "is_entry" and l.get("init") is not None:
                t = S.norm_ws(run.facts.text(GOC, l["init"]["sp"]))
                ok = "ends_with" not in t
                run.ob("R19.2", "entry function test is exact", ok, site(GOC, l["sp"]), f"is_entry = {t}",
                       witness="a function `main` in package Lib (Lib::main) is also renamed to main0: duplicate definition")
                # whatever the test is, it must compare whole path segments: a suffix/prefix/substring test on the bare identifier
                # also captures `domain`, `remain`, …
                partial = []
                for c in S.walk(l["init"]):
                    if c["k"] == "MethodCall" and c["method"] in ("ends_with", "starts_with", "contains") and c["args"]:
                        lit = [x["value"] for x in S.walk(c["args"][0]) if x["k"] == "Lit" and x.get("lit") == "Str"]
                        if not lit or (c["method"] == "ends_with" and not lit[0].startswith("::")) or (c["method"] == "starts_with" and not lit[0].endswith("::")) or c["method"] == "contains":
                            partial.append(f"{c['method']}({lit[0] if lit else '?'})")
                run.ob("R19.2", "entry function test compares whole names", not partial, site(GOC, l["sp"]),
                       f"is_entry = {t}; partial-name tests: {partial or 'none'}",
                       witness="fn domain() / fn remain() are emitted as func main0 while their call sites still say domain(..): undefined function, duplicate main0")


def r19_3(run, model):
    run.rule("R19.3", "temporaries live in their own name space: each gensym prefix is outside the user identifier grammar (or top-level user "
                      "names are renamed away from it); no prefix extends another by digits; none contains the `__` separator of renamed locals")
    prefixes = {}
    for rel in model.src_files():
        if not rel.startswith("crates/compiler/src/") or "/tests/" in rel:
            continue
        for f in model.fns(rel):
            if f.body is None:
                continue
            for c in S.calls(f.body, "gensym"):
                a = [x for x in c["args"] if x["k"] == "Lit" and x.get("lit") == "Str"]
                if a:
                    prefixes.setdefault(a[0]["value"], (rel, c["sp"]))
    run.floor("gensym prefixes", len(prefixes), 6)
    ident_rx = None
    for v, k, t in TB.token_kinds(model):
        if v == "Ident":
            ident_rx = t
    if ident_rx is None:
        raise AnalysisIncomplete("lexer Ident regex not found")
    rx = re.compile(ident_rx + r"\Z")
    # are user top-level function names renamed in the Go output? (locals are: hint__idx)
    renamed_fns = False
    for p, (rel, sp) in sorted(prefixes.items()):
        typeable = rx.match(p + "0") is not None
        ok = (not typeable) or renamed_fns
        run.ob("R19.3", f"gensym prefix {p!r}|outside the user name space", ok, site(rel, sp),
               f"`{p}N` {'is' if typeable else 'is not'} a legal user identifier (Ident = /{ident_rx}/); user function names are emitted unchanged",
               witness=f"`fn {p}0() -> int32 {{ 7 }}` and a call `add(add(1, 2), {p}0())`: the temporary `var {p}0` shadows the function inside main (Go: cannot call non-function)")
        run.ob("R19.3", f"gensym prefix {p!r}|no `__`", "__" not in p, site(rel, sp), "prefix free of the local-renaming separator")
    ps = sorted(prefixes)
    for a in ps:
        for b in ps:
            if a != b and re.fullmatch(re.escape(a) + r"\d+", b):
                run.ob("R19.3", f"prefixes {a!r} / {b!r}|not confusable", False, site(*prefixes[b]), f"{b} is {a} followed by digits: {a}1… can equal {b}…")
    run.ob("R19.3", "gensym prefixes|pairwise non-confusable", True, None, f"prefixes: {ps}")
    # user locals carry a separator no user identifier can contain
    hir = "crates/compiler/src/hir.rs"
    f = model.fn("local_ident_name", hir)
    t = S.norm_ws(run.facts.text(hir, f.body["sp"]))
    m = re.search(r'format!\("\{\}(.+?)\{\}"', t)
    sep = m.group(1) if m else None
    ok = sep is not None and rx.match("a" + sep + "1") is None
    run.ob("R19.3", "user locals|separator outside the identifier grammar", ok, site(hir, f.node["sp"]),
           f"locals are named hint{sep}idx; `{sep}` cannot occur in a user identifier or in a gensym name" if ok else "separator of renamed locals not found or typeable",
           witness="two user locals (or a local and a temporary) can get the same name")


def r19_15(run, model):
    run.rule("R19.15", "a renamed local stays outside the user's name space all the way to Go: the separator of `hint/idx` is outside the "
                       "identifier grammar (R19.3), so wherever a later stage respells it (`name.replace(\"/\", ..)`) the new spelling is one "
                       "no user identifier can contain either - `__` is legal in a goml identifier, `fn x__4` and the parameter `x` with id 4 "
                       "are one Go name")
    ident_rx = None
    for v, k, t in TB.token_kinds(model):
        if v == "Ident":
            ident_rx = t
    if ident_rx is None:
        raise AnalysisIncomplete("lexer Ident regex not found")
    rx = re.compile(ident_rx + r"\Z")
    hir = "crates/compiler/src/hir.rs"
    f = model.fn("local_ident_name", hir)
    m = re.search(r'format!\("\{\}(.+?)\{\}"', S.norm_ws(run.facts.text(hir, f.body["sp"])))
    if not m:
        raise AnalysisIncomplete("local_ident_name: separator not found")
    sep = m.group(1)
    n = 0
    seen = set()
    for g in model.fns():
        if g.body is None or g.test or not g.file.startswith("crates/compiler/src/") or "/tests/" in g.file:
            continue
        for c in S.find(g.body, "MethodCall"):
            if c["method"] != "replace" or len(c["args"]) != 2 or c["args"][0]["k"] != "Lit" or c["args"][0].get("value") != sep or c["args"][1]["k"] != "Lit":
                continue
            n += 1
            to = c["args"][1]["value"]
            if (g.name, to) in seen:
                continue
            seen.add((g.name, to))
            ok = rx.match("a" + to + "1") is None
            run.ob("R19.15", f"{g.name}|the local separator respelled {to!r} stays outside the identifier grammar", ok, site(g.file, c["sp"]),
                   f"`{sep}` becomes `{to}`: " + ("no user identifier contains it" if ok else f"`x{to}4` is a legal goml identifier"),
                   witness="fn x__4(n: int32) -> int32 { n + 1 }  fn twice(x: int32, f: int32) -> int32 { x__4(x) + f }: the parameter x (local id 4) is "
                           "emitted as x__4 and the call becomes `x__4(x__4)` - Go: cannot call non-function x__4")
    run.floor("respellings of the local separator", n, 2)


def r19_16(run, model):
    run.rule("R19.16", "a generated type name keeps the letter case of what it encodes: goml names are case-sensitive (`struct Foo` and `struct foo` "
                       "are two types), so no function of the Go back end that builds a name from an encoded type (it calls encode_ty / "
                       "go_ident and returns a String) folds case on the way (to_lowercase / to_uppercase / to_ascii_*case); expected count "
                       "zero, the name builders inspected are the control")
    FOLD = {"to_lowercase", "to_uppercase", "to_ascii_lowercase", "to_ascii_uppercase", "make_ascii_lowercase", "make_ascii_uppercase"}
    n = 0
    for g in model.fns():
        if g.body is None or g.test or not g.file.startswith("crates/compiler/src/go/"):
            continue
        ret = (g.node.get("ret") or "").replace(" ", "")
        if ret not in ("String", "std::string::String") or not any(True for _ in S.calls(g.body, "encode_ty", "go_ident", "ty_compact")):
            continue
        n += 1
        folds = sorted({c["method"] for c in S.find(g.body, "MethodCall") if c["method"] in FOLD})
        run.ob("R19.16", f"{g.name}|the name keeps the case of the type it encodes", not folds, site(g.file, g.node["sp"]),
               f"case folding: {folds}" if folds else "no case folding",
               witness="struct Foo { a: int32 } struct foo { b: string } with ref(Foo {..}) and ref(foo {..}): `type ref_foo_x struct` is declared twice "
                       "(once with `value Foo`, once with `value foo`)")
    run.floor("name builders of the Go back end over encoded types", n, 4)


def r19_4(run, model):
    run.rule("R19.4", "type-name encoders encode the element count of variadic type formers (tuple arity, array length), so nested shapes with "
                      "the same flattened element list get different names")
    for rel, name in ((GOAST, "go_type_name_for"), (MANGLE, "encode_ty")):
        f = model.fn(name, rel)
        for m in S.find(f.body, "Match"):
            for arm in m["arms"]:
                pt = S.norm_ws(run.facts.text(rel, arm["pat"]["sp"]))
                bt = S.norm_ws(run.facts.text(rel, arm["body"]["sp"]))
                if "TTuple" in pt:
                    ok = ".len()" in bt
                    run.ob("R19.4", f"{name}|TTuple encodes its arity", ok, site(rel, arm["sp"]), "tuple name contains typs.len()" if ok else "tuple name is the bare concatenation of element names",
                           witness="(int32, (bool, string), int32) and (int32, (bool, string, int32)) get the same Go type name: the struct is declared twice")
                if "TArray" in pt:
                    ok = "len" in bt
                    run.ob("R19.4", f"{name}|TArray encodes its length", ok, site(rel, arm["sp"]), "array name contains the length" if ok else "length missing")
                if "TFunc" in pt and "TTuple" not in pt:
                    # the parameter list is variadic too: its end must be visible in the name - a count, a marker for the empty list, or
                    # a separator word between parameters and result
                    lits = [x["value"] for x in S.walk(arm["body"]) if x["k"] == "Lit" and x.get("lit") == "Str"]
                    for mc in S.walk(arm["body"]):
                        if mc["k"] == "Macro" and mc.get("args") is None:
                            lits += re.findall(r'"([^"]*)"', mc.get("tokens", ""))
                    words = []
                    for i_, l_ in enumerate(lits):
                        rest = re.sub(r"^[A-Za-z0-9]+", "", l_) if i_ == 0 else l_
                        if re.search(r"[A-Za-z]", re.sub(r"\{[^}]*\}", "", rest)):
                            words.append(l_)
                    ok = ".len()" in bt or "is_empty()" in bt and bool(words) or bool(words)
                    run.ob("R19.4", f"{name}|TFunc delimits its parameter list", ok, site(rel, arm["sp"]),
                           f"count: {'.len()' in bt}; marker / separator literals: {words or 'none'}",
                           witness="() -> (A) -> B and (() -> A) -> B are both named TFunc_TFunc_A_B: a tuple type holding either is declared twice")


def r19_5(run, model):
    run.rule("R19.5", "fresh names are discriminated by the generator's own counter: in every function that bumps a counter field and formats a "
                      "name, each format! takes the counter value read in this call (`self.F`, `self.F.get()` or a local bound to exactly that), "
                      "never a value derived from a parameter")
    n = 0
    for f in model.fns():
        if f.body is None or not f.file.startswith("crates/compiler/src/") or "/tests/" in f.file:
            continue
        counters = set()
        for x in S.walk(f.body):
            if x["k"] == "Binary" and x["op"] == "+=" and x["left"]["k"] == "Field" and S.is_path(x["left"]["base"], "self"):
                counters.add(x["left"]["member"])
            if x["k"] == "MethodCall" and x["method"] == "set" and x["recv"]["k"] == "Field" and S.is_path(x["recv"]["base"], "self") and \
                    any(b["k"] == "Binary" and b["op"] == "+" for b in S.walk(x["args"][0])):
                counters.add(x["recv"]["member"])
        fmts = [m for m in S.walk(f.body) if m["k"] == "Macro" and m["name"] == "format" and m.get("args")]
        if not counters or not fmts:
            continue
        lets = {}
        for l in S.find(f.body, "Local"):
            if l.get("init") is not None and l["pat"]["k"] == "PIdent":
                lets[l["pat"]["name"]] = l["init"]

        def is_counter_read(e):
            t = S.norm_ws(run.facts.text(f.file, e["sp"]))
            return any(t in (f"self.{c}", f"self.{c}.get()") for c in counters)
        for m in fmts:
            n += 1
            ok = False
            for a in m["args"][1:]:
                if is_counter_read(a) or (a["k"] == "Path" and len(a["segs"]) == 1 and a["segs"][0] in lets and is_counter_read(lets[a["segs"][0]])):
                    ok = True
            run.ob("R19.5", f"{f.qual}|name carries the counter", ok, site(f.file, m["sp"]),
                   f"format!({m.get('tokens', '')[:70]}) with counters {sorted(counters)}",
                   witness="a let-bound closure in a generic function instantiated at two types: both instances get closure_env_get_7, one struct definition replaces the other")
    run.floor("name-formatting sites in counter-bumping functions", n, 1)


def r19_6(run, model):
    run.rule("R19.6", "closure environment fields are unique: make_field_name puts the field's position into the name on every path (the "
                      "sanitised variable name alone is not injective: `x` / `x_`, `a_b` / `a__b` sanitise to the same text)")
    LIFT = "crates/compiler/src/lift.rs"
    f = model.fn("make_field_name", LIFT)
    idx = [p["pat"]["name"] for p in f.params() if not p["self"] and "usize" in (p["ty"] or "")]
    if not idx:
        raise AnalysisIncomplete("make_field_name: index parameter not found")
    ix = idx[0]
    # the value returned: tail expression; every format!/string it can evaluate to must mention the index
    tail = f.body["stmts"][-1] if f.body["stmts"] else None
    te = tail.get("expr") if tail is not None and tail["k"] == "ExprStmt" else None
    ok = False
    detail = "no tail expression"
    if te is not None:
        tt = S.norm_ws(run.facts.text(LIFT, te["sp"]))
        if te["k"] == "Macro" and te["name"] == "format":
            ok = re.search(r"\b" + ix + r"\b", te.get("tokens", "")) is not None
        else:
            # e.g. `sanitize(..).unwrap_or_else(|| format!(.., index))`: the Some path returns a name without the index
            ok = False
        detail = f"returns `{tt[:70]}`"
    run.ob("R19.6", "make_field_name|index in every field name", ok, site(LIFT, f.node["sp"]), detail,
           witness="a closure capturing `x` and `x_`: the env struct declares field x twice and both variables rebind from it")


def r19_8(run, model):
    run.rule("R19.8", "variant struct names are unique in the whole emitted file: the clash count in variant_struct_name ranges over every "
                      "enum of the program (all packages end up in one Go file), without a filter")
    GOC = "crates/compiler/src/go/compile.rs"
    f = model.fn("variant_struct_name", GOC)
    loops = [l for l in S.find(f.body, "For") if "enums" in S.norm_ws(run.facts.text(GOC, l["iter"]["sp"]))]
    if not loops:
        raise AnalysisIncomplete("variant_struct_name: loop over the enums not found")
    for l in loops:
        it = S.norm_ws(run.facts.text(GOC, l["iter"]["sp"]))
        skips = [x["k"] for x in S.walk_no_closures(l["body"]) if x["k"] == "Continue"]
        filt = re.search(r"\.filter\(|\.take_while\(|\.skip_while\(", it) is not None
        emit = model.fn("gen_type_definition", GOC)
        emitted = [S.norm_ws(run.facts.text(GOC, x["iter"]["sp"])) for x in S.find(emit.body, "For") if "enums" in S.norm_ws(run.facts.text(GOC, x["iter"]["sp"]))]
        same = bool(emitted) and it in emitted
        run.ob("R19.8", "variant_struct_name|clash count ranges over the enums that are emitted", same, site(GOC, l["sp"]),
               f"counted over `{it[:40]}`; type definitions are emitted from {emitted}",
               witness="Option[T] at int32 and at string with the count taken over the source-level enums: both instances emit `type Some struct`")
        run.ob("R19.8", "variant_struct_name|clash count over all enums", not skips and not filt, site(GOC, l["sp"]),
               f"for … in {it[:50]}; skips: {skips or 'none'}; filtered: {filt}",
               witness="Lib::Color::Red and Main's Light::Red(string) both become `type Red struct`: duplicate declaration, ambiguous `case Red:`")


def r19_10(run, model):
    run.rule("R19.10", "a variant struct and a type never share a Go name: variants, enums and structs are all declared at the top level of one "
                       "Go file, so variant_struct_name also compares the variant's name with the names of the enums and of the structs "
                       "(not only with the variants of other enums)")
    GOC = "crates/compiler/src/go/compile.rs"
    f = model.fn("variant_struct_name", GOC)

    def name_used(table):
        """some iteration over goenv.<table>() binds the name component of the (name, def) pairs and uses it"""
        for n in S.walk(f.body):
            if n["k"] == "For" and any(c["k"] == "MethodCall" and c["method"] == table for c in S.walk(n["iter"])):
                pat, body = n["pat"], n["body"]
            elif n["k"] == "MethodCall" and n["method"] in ("any", "find", "filter", "position", "all") and n["args"] and n["args"][0]["k"] == "Closure" \
                    and any(c["k"] == "MethodCall" and c["method"] == table for c in S.walk(n["recv"])):
                cl = n["args"][0]
                if not cl["inputs"]:
                    continue
                pat, body = cl["inputs"][0], cl["body"]
            else:
                continue
            pat = S.strip_refs(pat)
            if pat["k"] != "PTuple" or not pat["elems"]:
                continue
            first = S.strip_refs(pat["elems"][0])
            if first["k"] == "PIdent" and first["name"] in S.idents(body):
                return True
        return False
    for table, what in (("enums", "enum"), ("structs", "struct")):
        ok = name_used(table)
        run.ob("R19.10", f"variant_struct_name|variant name compared with the {what} names", ok, site(GOC, f.node["sp"]),
               f"an iteration over {table}() that reads the type name: {ok}",
               witness="enum Paint { Color(Color), Clear } / enum Token { Token(string), Eof }: the output declares `type Color interface` and "
                       "`type Color struct`; a variant Point in package Geo and struct Point in Main both become `type Point struct`")
    # functions and extern type aliases share the same Go package block
    body = S.norm_ws(run.facts.text(GOC, f.body["sp"]))
    for table, what in (("funcs", "function"), ("extern_types", "extern type")):
        ok = re.search(r"\." + table + r"\.(keys|iter)\(\)\.any\(", body) is not None or re.search(r"\." + table + r"\.contains_key\(", body) is not None
        run.ob("R19.10", f"variant_struct_name|variant name compared with the {what} names", ok, site(GOC, f.node["sp"]),
               f"a search of {table} for the variant's Go name: {ok}",
               witness="Main has fn Circle() -> int32, the imported Shapes::Shape has a variant Circle: `type Circle struct` and `func Circle` in one "
                       "package block; extern type Duration next to enum Span { Duration(int32) }: two `type Duration`")


def r19_12(run, model):
    run.rule("R19.12", "a function name that embeds a type embeds the whole type: every name builder in names.rs that is given a type "
                       "(`for_ty`, `receiver_ty`) renders it with the injective printer ty_compact - the constructor name alone gives "
                       "`impl Display for Maybe[int32]` and `impl Display for Maybe[string]` one Go function")
    NAMES = "crates/compiler/src/names.rs"
    n = 0
    for f in model.fns(NAMES):
        if f.body is None or not f.name.endswith("_fn_name") or f.name.startswith("parse_"):
            continue
        typed = [p["pat"]["name"] for p in f.params() if not p["self"] and p["pat"]["k"] == "PIdent" and re.search(r"\bTy\b", p["ty"] or "")]
        for tp in typed:
            n += 1
            full = any(c["k"] == "Call" and S.callee_name(c) == "ty_compact" and c["args"] and tp in S.idents(c["args"][0]) for c in S.walk(f.body))
            run.ob("R19.12", f"{f.name}|{tp} is rendered in full", full, site(NAMES, f.node["sp"]),
                   f"ty_compact({tp}) in the name: {full}",
                   witness="impl Display for Maybe[int32] and impl Display for Maybe[string] both become _goml_trait_impl_Display_Maybe_show; mono keys "
                           "functions by name, one impl replaces the other")
    run.floor("name builders that embed a type", n, 2)


def r19_13(run, model):
    run.rule("R19.13", "whether a type is emitted does not depend on how the user spelt its name: the predicates that decide which struct and "
                       "enum definitions the Go back end declares (and whose helper types it collects) look at the definition - its "
                       "generics and field types - never at a substring of the name")
    GOC = "crates/compiler/src/go/compile.rs"
    n = 0
    for f in model.fns(GOC):
        if f.body is None or not re.search(r"is_emitted$|^gen_type_definition$", f.name):
            continue
        n += 1
        tests = [c for c in S.walk(f.body) if c["k"] == "MethodCall" and c["method"] in ("contains", "starts_with", "ends_with", "find")
                 and c["args"] and c["args"][0]["k"] == "Lit" and re.search(r"name", S.norm_ws(run.facts.text(GOC, c["recv"]["sp"])))]
        run.ob("R19.13", f"{f.name}|emission is decided from the definition, not from the spelling of its name", not tests, site(GOC, (tests or [f.node])[0]["sp"]),
               f"substring tests on the name: {[S.norm_ws(run.facts.text(GOC, c['sp']))[:50] for c in tests] or 'none'}",
               witness="struct TParam { .. } / enum TParamKind { .. }: the Go output uses both types and declares neither; renaming them to TyVar fixes it")
    run.floor("emission predicates examined", n, 2)


def run(run, model):
    # the rendering behind every instance / impl name is complete (shared with C07 R07.25)
    from rules import c07 as _c07p
    run.try_rule(_c07p.r07_25, model)
    run.try_rule(r19_15, model)
    run.try_rule(r19_16, model)
    # impl function names keep every component whole: two impls never share one generated name (shared with C17 R17.1)
    from rules import c17 as _c17n
    run.try_rule(_c17n.r17_1, model)
    run.try_rule(r19_8, model)
    run.try_rule(r19_10, model)
    run.try_rule(r19_12, model)
    # two temporaries of one Go block never share a name, also when the stages count separately (shared with C14 R14.4)
    from rules import c14 as _c14
    run.try_rule(_c14.r14_4, model)
    run.try_rule(r19_13, model)
    run.try_rule(r19_14, model)
    from rules import c17 as _c17
    run.rule("R19.11", "a user function cannot take the name of a builtin: define_function rejects a name that is already in the package's "
                       "function table, which holds the builtins too (shared with C16 R16.8) - the runtime defines those names and the back "
                       "end lowers several of them by name")
    run.try_rule(lambda r, m: _c17.unique_definition(r, m, "R19.11", "define_function", ".funcs", "function table",
                 "fn int32_to_string(..) in Main: `func int32_to_string` is declared twice; fn vec_len(n: int32) is lowered as int32(len(n))"), model)
    from rules import c07
    run.rule("R19.9", "instance names are rendered by the injective type printer (shared with C07 R07.3)")
    run.try_rule(c07.r07_3, model)
    run.try_rule(r19_6, model)
    from rules import c02
    run.rule("R19.7", "every Go name slot is mangled (shared with C02 R02.8): a selector written with the raw goml name may be a Go keyword")
    run.try_rule(c02.r02_8, model)
    run.try_rule(r19_5, model)
    # renaming a local must not change what the program means: a binder named like a variant stays a binder (shared with C05 R05.9)
    from rules import c05 as _c05
    run.try_rule(_c05.r05_9, model)
    run.try_rule(_c05.r05_2, model)
    # binders invented by the derive are compiler temporaries: they stay outside the user's name space (shared with C18 R18.3 / R18.12)
    from rules import c18 as _c18
    run.try_rule(_c18.r18_3, model)
    run.try_rule(_c18.r18_12, model)
    run.try_rule(r19_1, model)
    run.try_rule(r19_2, model)
    run.try_rule(r19_3, model)
    run.try_rule(r19_4, model)
    # a binder is visible in its own arm only: a name in a later arm keeps denoting the outer variable (shared with C05 R05.1)
    run.try_rule(_c05.r05_1, model)
    run.assume("Go's keyword list is the constant oracle (25 keywords, Go spec)")
