"""C14 Separate compilation is equivalent to whole-program compilation (sibling clauses; weak, stated as such)."""
import re
from lib import syn as S
from lib.core import AnalysisIncomplete, site
from rules import c03

EXPLANATION = (
    "Behavioural equality of the two outputs is NOT decided (package ids and temporary numbering differ by design). Decided by "
    "cross-checking the sibling pipelines: R14.1 one back end - pipeline::compile and separate::link_cores run mono -> lambda_lift -> "
    "anf_file -> go_file with the same wiring (each stage's output/env feeds the next, one Gensym is shared by lift, anf and go) and "
    "both concatenate the packages' Core in a dependency-first order obtained from a topological sort, never reversed. R14.2 check "
    "== build - check_package and build_package derive the InterfaceUnit::new arguments identically (same source reader, sorted and "
    "deduplicated deps, same type-check function, same pinned hashes). R14.3 the whole-program and the separate type-check merge "
    "name-resolution diagnostics into the gated diagnostics alike (shared with C03). R14.4 temporaries minted before linking "
    "(match compiler) and after it (lift, anf, go) use disjoint, non-confusable prefixes, because build and link each start a Gensym "
    "at 0.")

PL = "crates/compiler/src/pipeline/pipeline.rs"
SEP = "crates/compiler/src/pipeline/separate.rs"
STAGES = ["mono", "lambda_lift", "anf_file", "go_file"]


def backend_skeleton(run, f):
    """for each back-end stage call: (name, arg texts, bound names)"""
    out = []
    for l in S.find(f.body, "Local"):
        init = l.get("init")
        if init is None or init["k"] != "Call":
            continue
        cn = S.callee_name(init)
        if cn in STAGES:
            args = [S.norm_ws(run.facts.text(f.file, a["sp"])) for a in init["args"]]
            out.append((cn, args, S.pat_bindings(l["pat"]), l))
    return out


def r14_1(run, model):
    run.rule("R14.1", "one back end: compile and link_cores call mono -> lambda_lift -> anf_file -> go_file in this order, each stage consuming the "
                      "previous stage's program and environment, lift/anf/go sharing one Gensym; both concatenate packages in the order of a "
                      "topological sort (dependency first), not reversed")
    skel = {}
    for name, rel in (("compile", PL), ("link_cores", SEP)):
        f = model.fn(name, rel)
        sk = backend_skeleton(run, f)
        skel[name] = sk
        order = [s[0] for s in sk]
        run.ob("R14.1", f"{name}|stage order", order == STAGES, site(rel, f.node["sp"]), f"stages: {order}",
               witness="a stage is skipped or reordered in one of the two pipelines")
        # wiring: stage i+1 mentions the program and env bound by stage i
        for (n1, a1, b1, _), (n2, a2, b2, l2) in zip(sk, sk[1:]):
            txt = " ".join(a2)
            ok = len(b1) >= 2 and all(re.search(r"\b" + re.escape(b) + r"\b", txt) for b in b1[:2])
            run.ob("R14.1", f"{name}|{n1} feeds {n2}", ok, site(rel, l2["sp"]), f"{n2}({', '.join(a2)}) uses {b1[:2]}")
        gs = set()
        for n_, a_, b_, _ in sk[1:]:
            for x in a_:
                m = re.fullmatch(r"&([a-z_]*gensym[a-z_]*)", x)
                if m:
                    gs.add(m.group(1))
        run.ob("R14.1", f"{name}|one Gensym for lift, anf and go", len(gs) == 1, site(rel, f.node["sp"]), f"gensym arguments: {sorted(gs)}",
               witness="two stages restart their counters: temporaries of different stages get the same name")
    if len(skel["compile"]) == len(skel["link_cores"]) == 4:
        same = [len(a[1]) == len(b[1]) for a, b in zip(skel["compile"], skel["link_cores"])]
        run.ob("R14.1", "compile/link_cores|same stage arity", all(same), None, "each stage is called with the same number of arguments in both pipelines")
    # concatenation order
    for name, rel in (("compile", PL), ("link_cores", SEP)):
        f = model.fn(name, rel)
        topo = set(topo_vars(run, model, f, rel))
        found = False
        for loop in S.find(f.body, "For"):
            body = loop["body"]
            feeds = any(c["k"] == "MethodCall" and c["method"] in ("extend", "push") and re.search(r"toplevels|cores", S.norm_ws(run.facts.text(rel, c["recv"]["sp"])))
                        for c in S.walk(body))
            if not feeds:
                continue
            found = True
            it = S.norm_ws(run.facts.text(rel, loop["iter"]["sp"]))
            ids = S.idents(loop["iter"])
            ok = bool(ids & topo) and ".rev()" not in it
            run.ob("R14.1", f"{name}|Core concatenated dependency-first", ok, site(rel, loop["sp"]),
                   f"packages are concatenated by `for … in {it}`" + ("" if ok else f" (topological-order variables: {sorted(topo) or 'none'})"),
                   witness="lambda lifting is order-sensitive: a caller processed before a closure-returning callee of another package calls the closure struct directly (ill-typed Go) in one pipeline only")
        if not found:
            run.ob("R14.1", f"{name}|Core concatenation loop", False, site(rel, f.node["sp"]), "no loop feeding the linked Core found")


def norm_names(t, renames):
    for a, b in renames:
        t = re.sub(r"\b" + re.escape(a) + r"\b", b, t)
    return t


def r14_2(run, model):
    run.rule("R14.2", "check == build: check_package and build_package read the sources, sort/dedup the deps, load the dependency interfaces, "
                      "type-check and construct InterfaceUnit::new from identically derived values")
    a = model.fn("check_package", SEP)
    b = model.fn("build_package", SEP)

    def features(f):
        t = {}
        # the function as it reads with its private helpers put back in place (a dependency loader or a match-compilation block
        # extracted from both functions is the same code as before)
        fb_ = model.inlined_body(f)
        body = S.norm_ws(run.facts.text(SEP, f.body["sp"])) + "".join(S.norm_ws(run.facts.text(SEP, g.body["sp"])) for g in model.scope_fns(f) if g is not f)
        def call_args(name):
            cs = [c for c in S.walk(fb_) if c["k"] in ("Call", "MethodCall") and S.callee_name(c) == name]
            return [re.sub(r"^&|\.clone\(\)$", "", S.norm_ws(run.facts.text(SEP, a["sp"]))).split(".")[-1] for a in cs[0]["args"]] if cs else None
        t["reader"] = call_args("read_source_files")
        load_loops = [l for l in S.find(fb_, "For") if any(True for _ in S.calls(l["body"], "load_interface_from_paths"))]
        walked = set()
        for l in load_loops:
            walked |= S.idents(l["iter"])
        deps_ops = [c["method"] for c in S.walk(fb_) if c["k"] == "MethodCall" and c["recv"]["k"] == "Path" and len(c["recv"]["segs"]) == 1 and c["recv"]["segs"][0] in walked]
        t["deps canonicalised"] = deps_ops if any(m.startswith("sort") for m in deps_ops) else None
        t["loader"] = call_args("load_interface_from_paths")
        filt = []
        for loop in load_loops:
            for iff in S.find(loop["body"], "If"):
                acts = sorted({x["k"] for x in S.walk_no_closures(iff["then"]) if x["k"] in ("Continue", "Return", "Break")})
                if acts:
                    filt.append((S.norm_ws(run.facts.text(SEP, iff["cond"]["sp"])), "/".join(acts)))
        t["import filter"] = ("same conditions", sorted(filt))
        writes = sorted(re.sub(r"\.clone\(\)", "", S.norm_ws(run.facts.text(SEP, c["sp"]))) for c in S.walk(fb_) if c["k"] == "MethodCall" and c["method"] in ("insert", "entry", "extend", "or_insert_with", "or_insert")
                        and ("dep_hashes" in S.idents(c["recv"]) or any("interface_hash" in S.norm_ws(run.facts.text(SEP, a_["sp"])) for a_ in c["args"])))
        t["dependency pins"] = ("same writes of dependency hashes", writes)
        m = re.search(r"typecheck_single_package\(([^;]*?)\);", body)
        # what is handed over, not how (a clone of a value and the value itself are the same argument)
        same = lambda a_: re.sub(r"\.clone\(\)|&", "", a_)
        t["typecheck args"] = same(m.group(1)) if m else None
        m = re.search(r"InterfaceUnit::new\(([^;]*?)\);", body)
        t["interface args"] = same(m.group(1)) if m else None
        # the stages that can reject the sources: a diagnostics-producing stage followed by its gate
        from rules import c03
        ev = c03.events_of(run, f)
        gated = []
        for i, e in enumerate(ev):
            if e[0] in ("typecheck", "matchc") and any(g[0] == "gate" and g[1] > e[1] for g in ev[i + 1:]):
                gated.append(e[0])
        t["rejecting stages"] = ("same stages answer for the sources", sorted(set(gated)))
        return t

    fa, fb = features(a), features(b)
    for k in fa:
        same = fa[k] == fb[k] and fa[k] not in (None, False)
        run.ob("R14.2", f"check/build|{k}", same, site(SEP, a.node["sp"]), f"check: {fa[k]!r}; build: {fb[k]!r}",
               witness="`check` and `build` of the same sources emit different interfaces (hash mismatch at link, or a stale check result)")


def _prefix_strings(model, f, e, depth=0):
    """the string literals an expression used as a gensym prefix can evaluate to (through if / match, immutable locals and same-file
    helpers that return a string); empty when it is computed from something else (a hint taken from the program)"""
    if depth > 3:
        return set()
    k = e["k"]
    if k == "Lit" and e.get("lit") == "Str":
        return {e["value"]}
    if k in ("Ref", "Paren"):
        return _prefix_strings(model, f, e["expr"], depth)
    if k == "If" and e.get("else") is not None:
        return _prefix_strings(model, f, e["then"], depth + 1) | _prefix_strings(model, f, e["else"], depth + 1)
    if k == "Match":
        out = set()
        for a in e["arms"]:
            out |= _prefix_strings(model, f, a["body"], depth + 1)
        return out
    if k == "Block" and e["stmts"] and e["stmts"][-1]["k"] == "ExprStmt" and not e["stmts"][-1].get("semi"):
        return _prefix_strings(model, f, e["stmts"][-1]["expr"], depth + 1)
    if k == "Path" and len(e["segs"]) == 1:
        out = set()
        for l in S.find(f.body, "Local"):
            if l.get("init") is not None and e["segs"][0] in S.pat_bindings(l["pat"]):
                out |= _prefix_strings(model, f, l["init"], depth + 1)
        return out
    if k in ("Call", "MethodCall") and S.callee_name(e):
        hs = [h for h in model.fns(f.file) if h.name == S.callee_name(e) and h.body is not None and
              re.search(r"str|String", h.node.get("ret") or "")]
        out = set()
        for h in hs:
            out |= _prefix_strings(model, h, h.body, depth + 1)
            for r in S.find(h.body, "Return"):
                if r.get("expr") is not None:
                    out |= _prefix_strings(model, h, r["expr"], depth + 1)
        return out
    return set()


def r14_4(run, model):
    run.rule("R14.4", "freshness survives separate counters: temporaries minted before linking (compile_match) and after it (lift, anf, go) use "
                      "disjoint prefixes and no prefix of one group extends a prefix of the other by digits")
    pre, post = {}, {}
    for rel in model.src_files():
        if not rel.startswith("crates/compiler/src/") or "/tests/" in rel:
            continue
        for f in model.fns(rel):
            if f.body is None:
                continue
            for c in S.calls(f.body, "gensym"):
                lits = [x["value"] for x in c["args"] if x["k"] == "Lit" and x.get("lit") == "Str"]
                if not lits and c["args"]:
                    # the prefix chosen by a helper / a match / a local: every string it can be
                    lits = sorted(_prefix_strings(model, f, c["args"][0]))
                for lit_ in lits:
                    (pre if rel.endswith("compile_match.rs") else post).setdefault(lit_, rel)
    run.floor("gensym prefixes before linking", len(pre), 2)
    run.floor("gensym prefixes after linking", len(post), 3)
    both = sorted(set(pre) & set(post))
    run.ob("R14.4", "pre-link / post-link prefixes disjoint", not both, None, f"pre-link {sorted(pre)}; post-link {sorted(post)}",
           witness="build mints x0 in package Lib, link mints x0 again: a Core temporary is captured by a later-stage temporary")
    conf = [(a, b) for a in pre for b in post if re.fullmatch(re.escape(a) + r"\d+.*", b) or re.fullmatch(re.escape(b) + r"\d+.*", a)]
    run.ob("R14.4", "pre-link / post-link prefixes not confusable", not conf, None, f"confusable pairs: {conf or 'none'}")
    for name, rel in (("build_package", SEP), ("link_cores", SEP)):
        f = model.fn(name, rel)
        n = sum(1 for c in S.calls(model.inlined_body(f), "new") if c["k"] == "Call" and S.norm_ws(run.facts.text(rel, c["sp"])) == "Gensym::new()")
        run.ob("R14.4", f"{name}|one fresh Gensym", n == 1, site(rel, f.node["sp"]), f"{n} Gensym::new() in {name}")


def r14_5(run, model):
    run.rule("R14.5", "every package is merged in both pipelines: in each loop over the project's packages the merge of the package's exports "
                      "(`…exports.apply_to(&mut genv)`) and of its code (`toplevels.extend(..)`) is an unconditional statement of the loop body - "
                      "not nested under a condition and not preceded by a `continue`/`break`")
    n = 0
    for rel in (PL, SEP):
        for f in model.fns(rel):
            if f.body is None:
                continue
            for loop in S.find(f.body, "For"):
                stmts = loop["body"]["stmts"]
                merges = []
                for c in S.walk_no_closures(loop["body"]):
                    if c["k"] != "MethodCall":
                        continue
                    if c["method"] == "apply_to" and c["args"] and S.norm_ws(run.facts.text(rel, c["args"][0]["sp"])) == "&mutgenv":
                        merges.append(("exports", c))
                    elif c["method"] == "extend" and re.search(r"toplevels$", S.norm_ws(run.facts.text(rel, c["recv"]["sp"]))):
                        merges.append(("code", c))
                # only the innermost loop that contains the merge
                if not merges or any(S.span_contains(l2["sp"], merges[0][1]["sp"]) for l2 in S.find(loop["body"], "For")):
                    continue
                for what, c in merges:
                    n += 1
                    top = [i for i, st in enumerate(stmts) if (st.get("expr") is c) or (st["k"] == "ExprStmt" and st["expr"] is c)]
                    direct = bool(top)
                    skips = [x for x in S.walk_no_closures(loop["body"]) if x["k"] in ("Continue", "Break") and (x["sp"][0], x["sp"][1]) < (c["sp"][0], c["sp"][1])
                             and not any(S.span_contains(l2["sp"], x["sp"]) for l2 in S.find(loop["body"], "For", "While", "Loop"))]
                    ok = direct and not skips
                    run.ob("R14.5", f"{f.name}|{what} of every package merged", ok, site(rel, c["sp"]),
                           ("unconditional statement of the loop body" if direct else "the merge is nested under a condition") +
                           (f"; {len(skips)} continue/break before it (line {skips[0]['sp'][0]})" if skips else ""),
                           witness="a package with only extern/struct/trait declarations is skipped at link time: calls into it refer to undefined Go functions or the linker panics, while whole-program compilation accepts the project")
    run.floor("package merge sites in the pipelines", n, 5)


def canonical_link_order(run, model, rule="R14.1"):
    """the order in which link_cores merges and concatenates packages is the unconditional result of topo_sort (a canonical order:
    topo_sort breaks ties by name), never the order the inputs were given in"""
    f = model.fn("link_cores", SEP)
    n = 0
    for l in S.find(f.body, "Local"):
        if l["pat"]["k"] == "PIdent" and l.get("init") is not None and any(True for _ in S.calls(l["init"], "topo_sort")):
            n += 1
            e = l["init"]
            while e["k"] in ("Try", "Paren"):
                e = e["expr"]
            ok = e["k"] == "Call" and S.callee_name(e) == "topo_sort"
            run.ob(rule, "link_cores|link order is always the canonical topological order", ok, site(SEP, l["sp"]),
                   f"`{l['pat']['name']}` = {S.norm_ws(run.facts.text(SEP, l['init']['sp']))[:80]}",
                   witness="link Alpha.core Beta.core Main.core and link Beta.core Alpha.core Main.core give different function order and temporary numbering")
    if n == 0:
        raise AnalysisIncomplete("link_cores: no local bound from topo_sort")



TOPO_FNS = ("topo_sort", "topo_sort_packages")


def topo_vars(run, model, f, rel):
    """locals of f that hold a topological order: bound from a topo_sort call, or taken (by a struct pattern) out of the result of a
    function of the same file that stores such a local in that field.  name -> (ordering function, binding node)"""
    out = {}
    for l in S.find(f.body, "Local"):
        if l.get("init") is None:
            continue
        cs = [c for c in S.calls(l["init"], *TOPO_FNS)]
        if cs and l["pat"]["k"] == "PIdent":
            out[l["pat"]["name"]] = (S.callee_name(cs[0]), l)
    lets = {l["pat"]["name"]: l["init"] for l in S.find(f.body, "Local") if l["pat"]["k"] == "PIdent" and l.get("init") is not None}
    for l in S.find(f.body, "Local"):
        if l["pat"]["k"] != "PStruct" or l.get("init") is None:
            continue
        src = l["init"]
        while src["k"] in ("Try", "Paren"):
            src = src["expr"]
        if src["k"] == "Path" and len(src["segs"]) == 1 and src["segs"][0] in lets:
            src = lets[src["segs"][0]]
            while src["k"] in ("Try", "Paren"):
                src = src["expr"]
        if src["k"] not in ("Call", "MethodCall"):
            continue
        gs = [g for g in model.fns(rel) if g.name == S.callee_name(src) and g.body is not None]
        if len(gs) != 1:
            continue
        inner = topo_vars(run, model, gs[0], rel) if gs[0] is not f else {}
        for fld in l["pat"].get("fields", []):
            fname = fld.get("name")
            binds = S.pat_bindings(fld["pat"]) if fld.get("pat") else [fname]
            for st in S.find(gs[0].body, "Struct"):
                for sf in st["fields"]:
                    if sf["name"] == fname:
                        vids = S.idents(sf["expr"]) if sf.get("expr") else {fname}
                        hit = [v for v in vids if v in inner]
                        if hit and binds:
                            out[binds[0]] = (inner[hit[0]][0], l)
    return out


def _order_source(run, model, f, rel, loop_marker):
    """callee that produces the list iterated by the loop of f that contains a call to loop_marker (whole program) /
    the local bound from topo_sort (link)"""
    lets = {l["pat"]["name"]: l for l in S.find(f.body, "Local") if l["pat"]["k"] == "PIdent" and l.get("init") is not None}
    for loop in S.find(f.body, "For"):
        if not any(True for _ in S.calls(loop["body"], loop_marker)):
            continue
        for v in S.idents(loop["iter"]):
            if v in lets:
                e = lets[v]["init"]
                while e["k"] in ("Try", "Paren"):
                    e = e["expr"]
                if e["k"] == "Call":
                    return S.callee_name(e), lets[v]
        # the list was taken out of a result struct of the same file that stores a topological order in that field
        tv = topo_vars(run, model, f, rel)
        for v in S.idents(loop["iter"]):
            if v in tv:
                return tv[v]
    return None, None


def _delegate(run, model, g):
    """name of the function whose result g returns unchanged (tail `f(..)`, `f(..)?`-then-`Ok(v)`, `Ok(f(..)?)`), or None"""
    stmts = g.body.get("stmts") or []
    if not stmts:
        return None
    tail = stmts[-1]
    e = tail.get("expr") if tail["k"] in ("ExprStmt", "Expr") and tail.get("expr") is not None else tail
    lets = {l["pat"]["name"]: l["init"] for l in stmts if l["k"] == "Local" and l["pat"]["k"] == "PIdent" and l.get("init") is not None}
    for _ in range(4):
        if e["k"] in ("Try", "Paren"):
            e = e["expr"]
        elif e["k"] == "Call" and S.callee_name(e) == "Ok" and len(e["args"]) == 1:
            e = e["args"][0]
        elif e["k"] == "Path" and len(e["segs"]) == 1 and e["segs"][0] in lets:
            e = lets[e["segs"][0]]
        else:
            break
    if e["k"] == "Call" and S.callee_name(e) not in ("Ok", "Err", "Some"):
        return S.callee_name(e)
    return None


def r14_12(run, model):
    run.rule("R14.12", "both pipelines hand the packages to the back end in one order: the list whole-program compilation links in and the "
                       "list link_cores concatenates in are produced by the same ordering function (two topological sorts agree on "
                       "dependencies but not on unrelated packages, and lambda lifting is sensitive to the order of top-level functions)")
    PIPE = "crates/compiler/src/pipeline/pipeline.rs"
    whole = [f for f in model.fns(PIPE) if f.body is not None and any(True for _ in S.calls(f.body, "link_packages")) and any(True for _ in S.calls(f.body, "build_package"))]
    if not whole:
        raise AnalysisIncomplete("whole-program function calling build_package and link_packages not found")
    srcs = {}
    for f in whole:
        name, l = _order_source(run, model, f, PIPE, "build_package")
        if name is None:
            raise AnalysisIncomplete(f"{f.name}: the list the packages are built and linked in is not bound from a call")
        srcs[f.name] = (name, l, PIPE)
    lc = model.fn("link_cores", SEP)
    name, l = _order_source(run, model, lc, SEP, "extend")
    if name is None:
        raise AnalysisIncomplete("link_cores: the list the cores are concatenated in is not bound from a call")
    srcs["link_cores"] = (name, l, SEP)

    def kernel(name):
        seen = [name]
        for _ in range(3):
            cands = [g for g in model.fns("crates/compiler/src/pipeline/packages.rs") + model.fns(SEP) if g.name == seen[-1] and g.body is not None]
            if not cands:
                break
            d = _delegate(run, model, cands[0])
            if d is None or d in seen or not any(g.name == d for g in model.fns("crates/compiler/src/pipeline/packages.rs") + model.fns(SEP)):
                break
            seen.append(d)
        return seen
    ks = {k: kernel(v[0]) for k, v in srcs.items()}
    ref = ks["link_cores"][-1]
    for k, (name, l, rel) in sorted(srcs.items()):
        if k == "link_cores":
            continue
        ok = ks[k][-1] == ref
        run.ob("R14.12", f"{k}|package order comes from the ordering function link uses", ok, site(rel, l["sp"]),
               f"{k}: {' -> '.join(ks[k])}; link_cores: {' -> '.join(ks['link_cores'])}",
               witness="packages A (imports Tr, Zed) and B (imports Tr), unrelated: whole program links Tr Zed A B, link concatenates Tr B Zed A; "
                       "B::run then calls a closure-typed struct field as a plain function (`g(v)` on a struct) and Go rejects the linked program")
    run.floor("whole-program linking functions examined", len(whole), 1)


def r14_20(run, model):
    run.rule("R14.20", "the dependency walk reads an edge list that every producer of a package unit fills: `link` orders the cores through the "
                       "same topological sort as whole-program compilation, over units it builds itself (`PackageUnit { files: Vec::new(), imports }`); "
                       "fields that some construction of the unit type leaves empty are computed from the struct literals of the pipeline, and "
                       "the list `visit_package` recurses over is derived from none of them")
    PK = "crates/compiler/src/pipeline/packages.rs"
    f = model.fn("visit_package", PK)
    EMPTY = re.compile(r"^(Vec::new\(\)|vec!\[\]|HashSet::new\(\)|HashMap::new\(\)|IndexMap::new\(\)|IndexSet::new\(\)|Default::default\(\)|\w+::default\(\))$")
    sometimes_empty, cons = set(), 0
    for rel in model.src_files():
        if not rel.startswith("crates/compiler/src/pipeline/") and not rel.endswith("compiler/src/main.rs"):
            continue
        for g in model.fns(rel):
            if g.body is None or g.test:
                continue
            for st in S.find(g.body, "Struct"):
                if st["segs"][-1] != "PackageUnit":
                    continue
                cons += 1
                for fl in st.get("fields", []):
                    if EMPTY.match(S.norm_ws(run.facts.text(rel, fl["expr"]["sp"])).replace(" ", "")):
                        sometimes_empty.add(fl["name"])
    run.floor("constructions of PackageUnit in the pipelines", cons, 2)
    # the loop that recurses
    loops = [l for l in S.find(f.body, "For") if any(True for _ in S.calls(l["body"], f.name))]
    if not loops:
        raise AnalysisIncomplete("visit_package: no loop that recurses")
    for loop in loops:
        src = loop["iter"]
        hops = 0
        while src["k"] == "Path" and len(src["segs"]) == 1 and hops < 3:
            inits = [l["init"] for l in S.find(f.body, "Local") if src["segs"][0] in S.pat_bindings(l["pat"]) and l.get("init") is not None]
            if len(inits) != 1:
                break
            src = inits[0]
            hops += 1
        read = {x.get("member") for x in S.walk(src) if x["k"] == "Field"}
        bad = sorted(read & sometimes_empty)
        run.ob("R14.20", "visit_package|the edges come from a field every producer fills", bool(read) and not bad, site(PK, loop["sp"]),
               f"edge list derived from field(s) {sorted(x for x in read if x)}; left empty by some construction: {sorted(sometimes_empty) or 'none'}",
               witness="build Util, build Main, link: the units link builds have no files, a walk that reads imports off the files sees no edges and "
                       "concatenates the cores alphabetically - Main is lifted before Util and a closure-returning import is stored in a func variable")


def r14_14(run, model):
    run.rule("R14.14", "both pipelines make the same entry-point check: link_cores rejects a Main package without `main`, so the whole-program "
                       "function that links the package cores rejects it too (the back end emits `func main() { main0() }` unconditionally)")
    PIPE = "crates/compiler/src/pipeline/pipeline.rs"

    def has_check(f, rel):
        for iff in S.find(f.body, "If"):
            lits = [x for x in S.walk(iff["cond"]) if x["k"] == "Lit" and x.get("value") == "main"]
            # the name may come from a description of the entry point (`f.name == entry.function`): what counts is that the list of
            # top-level functions is searched for a name and the absence is an error
            ctxt = S.norm_ws(run.facts.text(rel, iff["cond"]["sp"])).replace(" ", "")
            by_name = re.search(r"toplevels\.iter\(\)\.any\(\|\w+\|\w+\.name==", ctxt) is not None and ctxt.startswith("!")
            if not lits and not by_name:
                continue
            if any(r.get("expr") is not None and S.callee_name(r["expr"]) == "Err" for r in S.find(iff["then"], "Return")):
                return iff
        return None
    lc = model.fn("link_cores", SEP)
    ref = has_check(lc, SEP)
    whole = [f for f in model.fns(PIPE) if f.body is not None and any(True for _ in S.calls(f.body, "link_packages")) and any(True for _ in S.calls(f.body, "build_package"))]
    if not whole:
        raise AnalysisIncomplete("whole-program function calling build_package and link_packages not found")
    if ref is None:
        run.ob("R14.14", "link_cores|rejects a Main package without main", False, site(SEP, lc.node["sp"]), "no `== \"main\"` test that returns Err found in link_cores",
               witness="fn mian() {..}: the Go output calls an undeclared main0")
        return
    # the entry point is called as `main0()`: both pipelines also refuse a main with parameters or type parameters
    def sig_check(f, rel):
        txt = S.norm_ws(run.facts.text(rel, f.body["sp"]))
        if re.search(r"params\.is_empty\(\)", txt) and ('"main"' in txt or re.search(r"\.name\s*==", txt)):
            return True
        for c in S.walk(f.body):
            if c["k"] in ("Call", "MethodCall") and S.callee_name(c):
                for rel2 in (SEP, PIPE):
                    for g in model.find_fns(S.callee_name(c), rel2):
                        if g.body is not None:
                            t2 = S.norm_ws(run.facts.text(rel2, g.body["sp"]))
                            if re.search(r"params\.is_empty\(\)", t2) and ('"main"' in t2 or re.search(r"\.name\s*==", t2)):
                                return True
        return False
    for f, rel in [(lc, SEP)] + [(g, PIPE) for g in whole]:
        ok = sig_check(f, rel)
        run.ob("R14.14", f"{f.name}|refuses an entry point that takes parameters", ok, site(rel, f.node["sp"]),
               "the parameter list of main is examined" if ok else "only the existence of a function named main is tested",
               witness="fn main(argc: int32) -> int32 is accepted and the wrapper calls `main0()` without an argument; fn main[T](x: T) is never "
                       "instantiated: the whole output is `func main() { main0() }` with main0 undeclared")
    for f in whole:
        got = has_check(f, PIPE)
        run.ob("R14.14", f"{f.name}|rejects a Main package without main like link does", got is not None, site(PIPE, (got or f.node)["sp"]),
               "tests for a function named main and returns Err" if got else "link_cores returns Err(\"Main package missing main function\"); this function has no such test",
               witness="package Main with fn mian() instead of fn main(): `run` reports nothing and emits `func main() { main0() }` with main0 undeclared; build + link fail with `Main package missing main function`")


def r14_15(run, model):
    run.rule("R14.15", "both pipelines see the files of a package in one order: check/build sort the input files, so load_package keeps the "
                       "sorted directory listing and gives the entry file its place in it instead of putting it first (the order of "
                       "top-level functions reaches lambda lifting, which is order-sensitive)")
    PK = "crates/compiler/src/pipeline/packages.rs"
    f = model.fn("load_package", PK)
    loops = [l for l in S.find(f.body, "For") if any(True for _ in S.calls(l["iter"], "read_gom_sources"))]
    if not loops:
        raise AnalysisIncomplete("load_package: loop over read_gom_sources not found")
    loop = loops[0]
    adds = [c for c in S.walk(f.body) if c["k"] == "MethodCall" and c["method"] in ("push", "insert", "extend") and S.is_path(c["recv"], "files")]
    early = [c for c in adds if (c["sp"][0], c["sp"][1]) < (loop["sp"][0], loop["sp"][1])]
    run.ob("R14.15", "load_package|entry file takes its place in the sorted listing", not early, site(PK, (early or [loop])[0]["sp"]),
           f"{len(adds)} insertion(s) into the file list; before the sorted listing is walked: {len(early)}",
           witness="package Main = main.gom + a.gom, a.gom defines the closure-returning callee: `run main.gom` orders [main.gom, a.gom], "
                   "build orders [a.gom, main.gom]; the caller is lifted before / after its callee and only one pipeline emits valid Go")


def r14_16(run, model):
    run.rule("R14.16", "a dependency's interface is looked for in every --interface-path directory: load_interface_from_paths moves on to the "
                       "next directory when *the candidate file* is not there (a test on the candidate, or a NotFound read error, leads to "
                       "`continue`) - a project whose interfaces live in two directories is valid and whole-program compilation accepts it")
    f = model.fn("load_interface_from_paths", SEP)
    loops = [l for l in S.find(f.body, "For") if "interface_paths" in S.idents(l["iter"])]
    if not loops:
        raise AnalysisIncomplete("load_interface_from_paths: loop over the search path not found")
    loop = loops[0]
    cand = None
    for l in S.find(loop["body"], "Local"):
        if l["pat"]["k"] == "PIdent" and l.get("init") is not None and (
                ".interface" in S.norm_ws(run.facts.text(SEP, l["init"]["sp"])) or
                (S.idents(l["init"]) & set(S.pat_bindings(loop["pat"])) and
                 any(c["k"] == "MethodCall" and c["method"] in ("join", "with_extension", "with_file_name") for c in S.walk(l["init"])))):
            cand = cand or l["pat"]["name"]
    if cand is None:
        raise AnalysisIncomplete("load_interface_from_paths: candidate path binding not found")
    par = S.Parents(loop["body"])
    skips = []
    for c in S.walk_no_closures(loop["body"]):
        if c["k"] != "Continue":
            continue
        conds = [a for a in par.ancestors(c) if a["k"] in ("If", "Match")]
        if conds:
            g = conds[0]
            ct = S.norm_ws(run.facts.text(SEP, (g.get("cond") or g.get("scrut"))["sp"]))
            skips.append((cand in S.idents(g.get("cond") or g.get("scrut")) or "NotFound" in S.norm_ws(run.facts.text(SEP, g["sp"])), ct))
    ok = any(x for x, _ in skips)
    run.ob("R14.16", "load_interface_from_paths|a missing candidate file leads to the next search directory", ok, site(SEP, loop["sp"]),
           f"candidate bound as `{cand}`; skips: {[c for _, c in skips]}",
           witness="build --interface-path out --interface-path libs with Shapes.interface in libs/: `failed to read interface out/Shapes.interface`")


def r14_10(run, model):
    run.rule("R14.10", "what build writes, check/build/link can read back: Core nests one level per `let` and types nest in signatures, so every "
                       "function that deserialises an artifact (CoreUnit, InterfaceUnit) disables serde_json's recursion limit (default "
                       "128: about 60 sequential lets, or a type nested 40-60 levels)")
    from lib.mir import Mir
    mir = Mir(run.facts)
    sites = {}
    for c in mir.calls:
        if not c["file"].startswith("crates/compiler/src/") or "/tests/" in c["file"]:
            continue
        for art in ("CoreUnit", "InterfaceUnit"):
            if re.search(r"serde_json::(de::)?from_(str|slice|reader)", c["callee"]) and f"artifact::{art}" in c["ret"]:
                sites.setdefault((c["file"], c["caller"], art), []).append(("from", c["line"]))
            if re.search(r"Deserialize<'de> for artifact::" + art + r">::deserialize", c["callee"]):
                sites.setdefault((c["file"], c["caller"], art), []).append(("explicit", c["line"]))
    if not any(a == "CoreUnit" for _, _, a in sites) or not any(a == "InterfaceUnit" for _, _, a in sites):
        raise AnalysisIncomplete(f"deserialisation sites of both artifact types not found: {sorted(sites)}")
    unlimited = {(c["file"], c["caller"]) for c in mir.calls if "disable_recursion_limit" in c["callee"]}
    for (fl, caller, art), how in sorted(sites.items()):
        ok = (fl, caller) in unlimited and all(k == "explicit" for k, _ in how)
        what = "core" if art == "CoreUnit" else "interface"
        run.ob("R14.10", f"{caller}|{what} read without recursion limit", ok, site(fl, [how[0][1]]),
               f"{art} deserialised via {sorted({k for k, _ in how})}; disable_recursion_limit in the same function: {(fl, caller) in unlimited}",
               witness="a function with 90 sequential lets (core) / an exported signature with a type nested 60 levels (interface): build succeeds, "
                       "the next check/build/link fails with `recursion limit exceeded`; whole-program compilation accepts the program")

def r14_8(run, model):
    run.rule("R14.8", "a float literal survives the trip through a .core file: serde_json parses floats exactly only with its `float_roundtrip` "
                      "feature (the default parser may be off by one ulp), so the workspace enables it - or Core does not store floats as "
                      "JSON numbers")
    import os
    from lib.core import REPO
    roots = [os.path.join(REPO, "Cargo.toml"), os.path.join(REPO, "crates/compiler/Cargo.toml")]
    found = []
    for pth in roots:
        try:
            txt = open(pth, encoding="utf-8").read()
        except OSError:
            continue
        for m in re.finditer(r"(?m)^serde_json\s*(?:\.workspace\s*)?=\s*(.+)$", txt):
            found.append((os.path.relpath(pth, REPO), m.group(1).strip()))
        for m in re.finditer(r"(?ms)^\[(?:workspace\.)?dependencies\.serde_json\]\s*(.*?)(?=^\[|\Z)", txt):
            found.append((os.path.relpath(pth, REPO), m.group(1).strip().replace("\n", " ")))
    if not found:
        raise AnalysisIncomplete("serde_json dependency declaration not found")
    enabled = any("float_roundtrip" in spec for _, spec in found)
    prim = model.enum("Prim") if any(e["name"] == "Prim" for e in model.enums()) else None
    floats_as_numbers = True
    if prim is not None:
        fl = [f_["ty"] for v in prim["variants"] for f_ in v["fields"] if re.search(r"\bf(32|64)\b", f_["ty"])]
        floats_as_numbers = bool(fl)
    run.ob("R14.8", "serde_json|floats in artifacts round-trip", enabled or not floats_as_numbers, site("Cargo.toml", None),
           f"serde_json declared as {found}; float_roundtrip enabled: {enabled}; Core stores floats as JSON numbers: {floats_as_numbers}",
           witness="let x: float64 = 18990.203130737194f64; whole-program Go has 18990.203130737194, build + link gives 18990.20313073719 (another float64)")


def r14_18(run, model):
    run.rule("R14.18", "the match compiler of `check` and of `build` looks types up in the same environment: in pipeline/separate.rs every "
                       "function that runs compile_file builds its environment from the exports of each loaded dependency (an apply_to in a "
                       "loop over the loaded units) and from the package's own exports - with the dependencies left out, a match on an imported "
                       "enum or struct finds no definition (panic or a diagnostic that `build` does not give)")
    SEP = "crates/compiler/src/pipeline/separate.rs"
    n = 0
    for f in model.fns(SEP):
        if f.body is None:
            continue
        par = None
        for c in S.walk(f.body):
            if c["k"] != "Call" or S.callee_name(c) != "compile_file" or not c["args"]:
                continue
            env = sorted(S.idents(c["args"][0]))
            if len(env) != 1:
                raise AnalysisIncomplete(f"{f.name}: the environment handed to compile_file is not a plain name")
            n += 1
            par = par or S.Parents(f.body)
            loaders = set()
            for l in S.find(f.body, "Local"):
                if l.get("init") is not None and any(True for _ in S.calls(l["init"], "load_interface_from_paths", "read_interface")):
                    loaders |= set(S.pat_bindings(l["pat"]))
            # collections the loaded units are pushed into
            colls = {next(iter(S.idents(mc["recv"]))) for mc in S.walk(f.body) if mc["k"] == "MethodCall" and mc["method"] in ("push", "insert", "push_back")
                     and mc["recv"]["k"] == "Path" and any(S.idents(a) & loaders for a in mc["args"])}
            fills = [mc for mc in S.walk(f.body) if mc["k"] == "MethodCall" and mc["method"] == "apply_to" and any(env[0] in S.idents(a) for a in mc["args"])
                     and mc["sp"][0] <= c["sp"][0]]
            # a helper that is handed the loaded units walks its parameter
            unit_params = {p_["pat"].get("name") for p_ in f.params() if not p_["self"] and re.search(r"(\[|Vec<)\s*(crate::)?(artifact::)?InterfaceUnit\s*(\]|>)", p_["ty"] or "")}
            from_deps = [mc for mc in fills if any(a["k"] == "For" and S.idents(a["iter"]) & (colls | unit_params) for a in par.ancestors(mc))]
            own = [mc for mc in fills if not any(a["k"] in ("For", "While", "Loop") for a in par.ancestors(mc))]
            ok = bool(from_deps) and bool(own)
            run.ob("R14.18", f"{f.name}|compile_file sees the dependencies' and the package's own definitions", ok, site(SEP, c["sp"]),
                   f"environment `{env[0]}`: {len(from_deps)} apply_to over the loaded units {sorted(colls)}, {len(own)} from the package itself",
                   witness="package Lib { enum Color { Red, Green } }; in Main `match c { Lib::Red => .., Lib::Green => .. }`: `goml check` "
                           "panics or reports where `goml build` succeeds")
    run.floor("functions of separate.rs that run the match compiler", n, 2)


def r14_19(run, model):
    run.rule("R14.19", "an interface hash is recorded under the package it is the hash of: wherever pipeline/separate.rs stores an interface "
                       "hash in a map keyed by package name, key and hash belong to one package - the unit was loaded under that name, key and "
                       "hash are `u.package` / `u.interface_hash` of one unit `u`, or they are the (name, hash) pair of one turn over a "
                       "`deps` map; a hash filed under another package's name makes packages that agree look inconsistent (or the reverse)")
    SEP = "crates/compiler/src/pipeline/separate.rs"
    n = 0
    for f in model.fns(SEP):
        if f.body is None:
            continue
        par = None
        loaded = {}
        for l in S.find(f.body, "Local"):
            if l.get("init") is not None:
                for c in S.calls(l["init"], "load_interface_from_paths", "read_interface", "read_core"):
                    if c["args"]:
                        for b in S.pat_bindings(l["pat"]):
                            loaded[b] = S.idents(c["args"][0])
        pairs = []
        for loop in S.find(f.body, "For"):
            if loop["pat"]["k"] == "PTuple" and re.search(r"\.deps\b", S.norm_ws(run.facts.text(SEP, loop["iter"]["sp"]))):
                pairs.append(tuple(S.pat_bindings(loop["pat"])))
        for mc in S.walk(f.body):
            if mc["k"] != "MethodCall" or mc["method"] != "insert" or len(mc["args"]) != 2:
                continue
            k, v = mc["args"]
            vt = S.norm_ws(run.facts.text(SEP, v["sp"]))
            hashvars = {pr[1] for pr in pairs if len(pr) == 2}
            units = set(re.findall(r"(\w+)(?:\.interface)?\.interface_hash\b", vt))
            if not units and not (S.idents(v) & hashvars):
                continue
            n += 1
            kt = S.norm_ws(run.facts.text(SEP, k["sp"]))
            kid = S.idents(k)
            ok = False
            why = "key and hash are not shown to belong to one package"
            for u in units:
                if re.search(r"\b" + re.escape(u) + r"(\.interface)?\.package\b", kt):
                    ok, why = True, f"key and hash are fields of the unit `{u}`"
                elif u in loaded and loaded[u] & kid:
                    ok, why = True, f"`{u}` was loaded under the name used as key"
            for pr in pairs:
                if len(pr) == 2 and pr[0] in kid and pr[1] in S.idents(v) and not units:
                    ok, why = True, "key and hash are one (name, hash) pair of a deps map"
            run.ob("R14.19", f"{f.name}|hash stored under `{kt[:30]}` is that package's hash", ok, site(SEP, mc["sp"]), f"value `{vt[:50]}`: {why}",
                   witness="A and B import Shared (not imported by Main): Shared is filed under A's hash, B's pin of Shared differs from it and a "
                           "consistent set of artifacts is refused by check/build while `goml run` on the sources succeeds")
    run.floor("places that file an interface hash under a package name", n, 2)


def r14_17(run, model):
    run.rule("R14.17", "every source file of a directory becomes part of the package in the whole-program loader, as it does for check and "
                       "build (which take the files they are given): in load_package each turn of the loop over the directory listing "
                       "adds a file to the package's file list or leaves the function with an error - no path skips a file (its imports "
                       "and declarations would exist in one pipeline only)")
    PK = "crates/compiler/src/pipeline/packages.rs"
    f = model.fn("load_package", PK)
    loops = [l for l in S.find(f.body, "For") if any(True for _ in S.calls(l["iter"], "read_gom_sources"))]
    if len(loops) != 1:
        raise AnalysisIncomplete(f"load_package: {len(loops)} loops over read_gom_sources found")
    loop = loops[0]
    sinks = {l["pat"]["name"] for l in S.find(f.body, "Local") if l["pat"]["k"] == "PIdent" and l.get("init") is not None and
             S.norm_ws(run.facts.text(PK, l["init"]["sp"])) in ("Vec::new()", "vec![]")}
    bad = []

    def adds(node):
        return node["k"] == "MethodCall" and node["method"] in ("push", "extend", "insert") and node["recv"]["k"] == "Path" and node["recv"]["segs"][0] in sinks

    def ev(node, states):
        if node is None or not states:
            return states
        k = node["k"]
        if k == "Block":
            for st in node["stmts"]:
                states = ev(st, states)
            return states
        if k == "If":
            states = ev(node["cond"], states)
            return ev(node["then"], states) | (ev(node["else"], states) if node.get("else") is not None else states)
        if k == "Match":
            states = ev(node["scrut"], states)
            out = set()
            for arm in node["arms"]:
                out |= ev(arm["body"], states)
            return out
        if k == "Return":
            return set()
        if k == "Continue":
            if False in states:
                bad.append(node)
            return set()
        if k == "Closure":
            return states
        if k == "MethodCall" and adds(node):
            return {True}
        for v in node.values():
            if isinstance(v, dict) and "k" in v:
                states = ev(v, states)
            elif isinstance(v, list):
                for x in v:
                    if isinstance(x, dict) and "k" in x:
                        states = ev(x, states)
        return states
    end = ev(loop["body"], {False})
    if False in end:
        bad.append(loop["body"])
    run.ob("R14.17", "load_package|every listed file is added to the package or reported", not bad, site(PK, (bad or [loop])[0]["sp"]),
           f"file lists: {sorted(sinks)}; paths through the loop body that add nothing: {len(bad)}",
           witness="a non-entry file holding only `package Main` and `import DataPkg`: build takes the import from it, the whole-program loader "
                   "drops the file; `No instance found for trait TraitPkg::Show<DataPkg::Item>` in one pipeline only")


def run(run, model):
    run.try_rule(r14_8, model)
    run.try_rule(r14_10, model)
    run.try_rule(r14_5, model)
    from rules import c13
    run.rule("R14.6", "check, build and the whole-program reader see the package's files in one canonical order (shared with C13 R13.5/R13.2)")
    try:
        cx = c13.Ctx(run, model)
        run.try_rule(c13.r13_5, cx)
        run.try_rule(c13.r13_2, cx)
        # check and build emit the same interface only if serialising it twice gives the same bytes (shared with C13 R13.4)
        run.try_rule(c13.r13_4, cx)
    except AnalysisIncomplete as e:
        run.skipped.append({"rule_fn": "c13 shared rules", "reason": str(e)})
    from rules import c15
    from lib.mir import Mir
    run.rule("R14.9", "what build writes is what link reads: no field of a type reachable from the artifacts is hidden from serde (shared with C15 R15.1)")
    try:
        run.try_rule(c15.r15_1, model, Mir(run.facts))
    except AnalysisIncomplete as e:
        run.skipped.append({"rule_fn": "r15_1", "reason": str(e)})
    run.rule("R14.11", "check and build of the same sources emit the same interface whatever the spelling of the input paths (shared with C13 R13.7)")
    run.try_rule(c13.file_identity_order, model, "R14.11")
    run.try_rule(c13.file_identity_sort_key, model, "R14.11")
    run.try_rule(r14_1, model)
    run.try_rule(r14_20, model)
    # a fact recomputed from a type when an artifact is read back (where whole-program compilation keeps the original) is computed by a
    # complete traversal (shared with C07 R07.2, restricted to the artifact layer)
    from rules import c07 as _c07
    run.try_rule(_c07.r07_2, model, None, "C14")
    run.try_rule(canonical_link_order, model)
    run.try_rule(r14_12, model)
    run.try_rule(r14_14, model)
    run.try_rule(r14_17, model)
    # a stale core accepted at link behaves unlike whole-program compilation of the current sources (shared with C15 R15.4)
    from rules import c15 as _c15
    run.try_rule(_c15.r15_4, model)
    # a build that leaves old artifacts behind makes separate compilation reject what whole-program compilation accepts (shared with C15 R15.9)
    run.try_rule(_c15.r15_9, model)
    run.try_rule(r14_15, model)
    run.try_rule(r14_16, model)
    run.try_rule(r14_2, model)
    from rules import c16
    run.rule("R14.7", "both pipelines type-check a package against the environments of its own imports only (shared with C16 R16.5): a "
                      "whole-program check that sees every loaded package accepts projects that `build` rejects")
    run.try_rule(c16.r16_5, model)
    run.rule("R14.3", "both pipelines gate on the same diagnostics: shared with C03 R03.1 (stage gating; resolver diagnostics merged in every package type-check)")
    run.try_rule(c03.r03_1, model)
    run.try_rule(r14_4, model)
    run.try_rule(r14_18, model)
    run.try_rule(r14_19, model)
    run.rule("R14.13", "a project accepted one way is accepted the other: the separate pipeline skips no import (shared with C16 R16.9; the "
                       "whole-program pipeline treats every import as a package edge)")
    run.try_rule(c16.no_import_skipped, model, "R14.13")
    run.assume("package ids (sequential vs hash-derived) and gensym numbering differ between the pipelines by design; whether that is unobservable is a semantic question this check does not decide")
