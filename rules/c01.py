"""C01 Emitted Go behaves exactly as the source program denotes (structural clauses only)."""
import re
from lib import syn as S, passes as P
from lib.core import AnalysisIncomplete, site
from rules import c09, c06

EXPLANATION = (
    "Semantic preservation of a seven-pass compiler is NOT decided (it quantifies over the values programs compute). Decided, "
    "on every arm of every pass of /repo's current source: R01.2 pass totality - each IR-to-IR pass and each IR walker matches its "
    "input enum without a catch-all arm (rustc then proves every node kind is handled), the anchor passes must be found with full "
    "coverage; R01.3 no child dropped - in every discovered traversal of an IR enum (passes, walkers, analyses and the pretty printers that produce the emitted text; type getters excepted) no arm skips (`..`, `_`, unused binding) a field that carries "
    "sub-terms, unless the arm diverges, returns a constant, re-dispatches the whole node or is a ledger entry; R01.4 field "
    "homomorphism - where an arm rebuilds the same-named variant, the value stored in child field g derives (def-use through "
    "lets, continuation parameters, iterator closures) from the input's field g and not from a sibling field (swapped "
    "branches/operands/arguments); R01.1 CST->AST lowering never discards an optional sub-tree silently: every `?`/None on a "
    "lower_* result is either preceded by a pushed error or propagates a callee that pushed one. Plus the evaluation-order "
    "clauses shared with C09 (R09.1, R09.3) and the first-match fallback discipline shared with C06 (R06.2).")

PIPE = "crates/compiler/src/"
# anchor passes: (function, enum it must match exhaustively).  Found by name; the rule is about their match, not their position.
ANCHORS = [
    ("compile_match.rs", "compile_expr", "Expr"), ("mono.rs", "mono_expr", "Expr"), ("mono.rs", "rewrite_expr_types", "MonoExpr"),
    ("lift.rs", "transform_expr", "MonoExpr"), ("lift.rs", "collect_captured", "LiftExpr"), ("anf.rs", "anf", "LiftExpr"),
    ("anf.rs", "rename_cexpr", "CExpr"), ("go/compile.rs", "compile_cexpr", "CExpr"), ("go/compile.rs", "compile_cexpr_effect", "CExpr"),
    ("go/dce.rs", "dce_expr", "Expr"), ("go/dce.rs", "dce_block_with_live", "Stmt"), ("go/dce.rs", "vars_used_in_expr", "Expr"),
    ("go/dce.rs", "free_vars_in_block", "Stmt"), ("go/dce.rs", "expr_has_side_effects", "Expr"), ("go/dce.rs", "stmt_has_side_effects", "Stmt"),
    ("go/dce.rs", "collect_called_in_expr", "Expr"), ("go/dce.rs", "collect_called_in_stmt", "Stmt"),
    ("typer/tast_builder.rs", "build_expr", "Expr"), ("typer/name_resolution.rs", "resolve_expr", "Expr"),
    ("typer/unify.rs", "subst", "Expr"),
]

# catch-all arms that are justified (function|enum -> reason)
CATCH_LEDGER = {
    "compiler::go::dce::assigned_vars_in_block|Stmt": "collects assignment targets; statement kinds without an assignment contribute nothing",
    "compiler::typer::check::Typer::check_expr|Expr": "bidirectional typing: forms without a checking rule fall back to inference (infer_expr is exhaustive)",
}

# (function, variant, field) whose child is legitimately not translated in that arm
CHILD_LEDGER = {
    ("go_type_name", "TFunc", "params"): "flat name printer, lossy by design; the structured printer go_type_doc handles every type-carrying former (C02 R02.3)",
    ("go_type_name", "TFunc", "ret_ty"): "flat name printer (see params)",
    ("go_type_name", "TStruct", "fields"): "struct types are printed by name; their fields are printed by the declaration",
    ("compile_cexpr_effect", "*", "*"): "statement-position evaluation of a value form: its operands are ANF immediates (variables/constants) "
                                        "with no effect; calls, go and control flow have their own arms (division is C09's known finding)",
}

TYPE_RET = re.compile(r"^(&)?((tast|goty|crate::tast)::)?(Ty|GoType)$")


def is_divergent(e):
    if e["k"] == "Macro" and e["name"] in ("panic", "unreachable", "todo", "unimplemented"):
        return True
    if e["k"] == "Block" and e["stmts"]:
        last = e["stmts"][-1]
        if last["k"] == "ExprStmt":
            return is_divergent(last["expr"])
    if e["k"] == "Match" and e["arms"]:
        return all(is_divergent(a["body"]) for a in e["arms"])
    if e["k"] == "If" and e.get("else") is not None:
        return is_divergent(e["then"]) and is_divergent(e["else"])
    return False


def is_constant(e):
    if e["k"] in ("Lit",):
        return True
    if e["k"] == "Path":
        return True
    if e["k"] == "Call" and not e["args"] and S.callee_name(e) in ("new", "default"):
        return True
    if e["k"] == "Macro" and e["name"] == "vec" and not (e.get("args") or []):
        return True
    if e["k"] == "Block" and not e["stmts"]:
        return True
    return False


def scrutinee_names(t):
    return S.idents(t.match["scrut"])


def r01_2(run, model, trs):
    run.rule("R01.2", "every IR pass / IR walker matches its input enum without a catch-all arm (so rustc's exhaustiveness check proves "
                      "each node kind is handled); the anchor passes are found with full variant coverage")
    bykey = {}
    for t in trs:
        bykey.setdefault((t.fn.name, t.enum_name), []).append(t)
    for rel, name, en in ANCHORS:
        fns = model.find_fns(name, PIPE + rel) or model.find_fns(name)
        ts = [t for t in bykey.get((name, en), [])]
        if not fns:
            # renamed or turned into a method: a full traversal of that enum in that file which is not another anchor stands in for it
            others = {a[1] for a in ANCHORS}
            ts = [t for t in trs if t.enum_name == en and t.fn.file == PIPE + rel and t.fn.name not in others]
            fns = [t.fn for t in ts]
            if not fns:
                raise AnalysisIncomplete(f"anchor pass `{name}` not found")
        full = [t for t in ts if not t.catch and len(t.covered) == len(t.enum["variants"])]
        run.ob("R01.2", f"{name}|{en}|exhaustive without catch-all", bool(full), site(fns[0].file, fns[0].node["sp"]),
               f"{name}: " + (f"{len(full[0].covered)}/{len(full[0].enum['variants'])} variants matched explicitly" if full else
                              ("match found but it has a catch-all arm or misses variants" if ts else f"no match over {en} with explicit arms found")),
               witness="a node kind reaches `_ =>` and is translated by default code (or a new IR variant compiles without being handled)")
    n = 0
    for t in trs:
        if t.enum_name == "Ty" or "/typer/" in t.fn.file and t.fn.name not in ("build_expr", "resolve_expr", "subst", "check_expr"):
            continue
        if not t.catch:
            n += 1
            continue
        led = CATCH_LEDGER.get(t.key)
        body = t.catch[0]["body"]
        ok = led is not None or is_divergent(body)
        n += 1
        run.ob("R01.2", f"{t.key}|catch-all", ok, site(t.fn.file, t.catch[0]["sp"]),
               f"catch-all arm after {len(t.covered)}/{len(t.enum['variants'])} explicit variants: `{S.norm_ws(run.facts.text(t.fn.file, body['sp']))[:60]}`" +
               (f"; ledger: {led}" if led else ("; diverges" if ok else "")),
               witness="variants not listed explicitly are handled by default code nobody decided on")
    run.floor("expression/statement traversals examined", n, 30)


def r01_3(run, model, trs, only_fns=None):
    run.rule("R01.3", "no arm of a pass drops a sub-term: every field of the matched variant that carries sub-terms is bound and used "
                      "(or the arm diverges / yields a constant / passes the whole node on / is a ledger entry)")
    n = 0
    delegates = set()
    if only_fns is not None:
        # a named walker that hands part of its work to a child-listing traversal of the same file (`other.children()`) is audited there
        for g in model.fns():
            if g.body is not None and any(re.search(o, g.qual) for o in only_fns):
                called = {S.callee_name(c) for c in S.walk(g.body) if c["k"] in ("Call", "MethodCall")}
                delegates |= {t2.fn.qual for t2 in trs if t2.fn.file == g.file and t2.fn.name in called and t2.fn.name != g.name}
    for t in trs:
        if t.enum_name == "Ty":
            continue  # type traversals are audited by C07 R07.2 / C03
        if only_fns is not None and not any(re.search(o, t.fn.qual) for o in only_fns) and t.fn.qual not in delegates:
            continue
        ret = t.fn.node.get("ret") or ""
        if TYPE_RET.match(ret.replace(" ", "")) and t.fn.qual not in delegates:
            continue
        variants = {v["name"]: v for v in t.enum["variants"]}
        scrut = scrutinee_names(t)
        for vname, lst in sorted(t.covered.items()):
            v = variants.get(vname)
            if v is None:
                continue
            extra = ("ImmExpr", "AExpr", "CExpr") if t.enum["name"] in ("CExpr", "AExpr") else ()
            kids = P.child_fields(v, t.enum["name"], extra=extra)
            if not kids:
                continue
            for arm, alt in lst:
                n += 1
                body = arm["body"]
                if is_divergent(body) or (body["k"] == "Lit"):
                    continue
                b, rest = P.arm_field_bindings(alt)
                body_ids = S.idents(body) | (S.idents(arm["guard"]) if arm.get("guard") else set())
                whole = bool(scrut & body_ids) and not (scrut & set(x for x in b.values() if isinstance(x, str)))
                dropped = []
                for k in kids:
                    if k not in b:
                        if not whole:
                            dropped.append((k, "skipped by `..`"))
                    elif b[k] is None:
                        if not whole:
                            dropped.append((k, "bound to `_`"))
                    else:
                        names = b[k] if isinstance(b[k], tuple) else (b[k],)
                        if not any(nm in body_ids for nm in names) and not whole:
                            dropped.append((k, f"binding `{names[0]}` unused"))
                # a child *collection* is traversed whole: an adaptor that drops elements (skip, take, step_by, a sub-slice) loses sub-terms
                for k in kids:
                    names = b.get(k)
                    names = names if isinstance(names, tuple) else ((names,) if isinstance(names, str) else ())
                    for c in S.walk(body):
                        if c["k"] == "MethodCall" and c["method"] in ("skip", "take", "step_by", "skip_while", "take_while", "nth"):
                            r = c["recv"]
                            while r["k"] == "MethodCall":
                                r = r["recv"]
                            if r["k"] == "Path" and len(r["segs"]) == 1 and r["segs"][0] in names:
                                dropped.append((k, f"`{r['segs'][0]}` traversed through .{c['method']}(..)"))
                for k, why in dropped:
                    led = CHILD_LEDGER.get((t.fn.name, vname, k)) or CHILD_LEDGER.get((t.fn.name, "*", "*"))
                    run.ob("R01.3", f"{t.fn.name}|{vname}.{k}", led is not None, site(t.fn.file, arm["sp"]),
                           f"{t.enum_name}::{vname}.{k} {why}" + (f"; ledger: {led}" if led else ""),
                           witness=f"the user's code inside `{k}` of a {vname} node is lost (or not visited by an analysis that decides liveness/captures)")
                if not dropped:
                    run.ob("R01.3", f"{t.fn.name}|{vname}|children used", True, site(t.fn.file, arm["sp"]), f"children {kids} all used")
    run.floor("pass arms with sub-terms examined", n, 150 if only_fns is None else 10)


def _alternatives(arm_body, expr, of_expr, inv):
    """for a field filled from a variable that a tuple-let binds from a match / if whose branches are tuples: the input fields each
    branch's component derives from (one set per branch)"""
    e = expr
    while e["k"] == "Call" and len(e["args"]) == 1 and S.callee_name(e) in ("new", "Some"):
        e = e["args"][0]
    if e["k"] != "Path" or len(e["segs"]) != 1:
        return []
    name = e["segs"][0]
    out = []
    for l in S.find(arm_body, "Local"):
        if l["pat"]["k"] != "PTuple" or l.get("init") is None:
            continue
        names = [x["name"] if x["k"] == "PIdent" else None for x in l["pat"]["elems"]]
        if name not in names:
            continue
        idx = names.index(name)
        init = l["init"]
        branches = []
        if init["k"] == "Match":
            branches = [a["body"] for a in init["arms"]]
        elif init["k"] == "If" and init.get("else") is not None:
            branches = [init["then"], init["else"]]
        # the names the tuple-let binds may shadow earlier bindings of the same names: look at the branches with the tuple-let left out
        _org, of_before = P.origins(arm_body, list(inv), skip=(l,))
        for b in branches:
            while b["k"] == "Block" and b["stmts"] and b["stmts"][-1]["k"] == "ExprStmt":
                b = b["stmts"][-1]["expr"]
            if b["k"] == "Tuple" and len(b["elems"]) > idx:
                out.append({inv[x] for x in of_before(b["elems"][idx]) if x in inv})
    return out


def r01_4(run, model, trs):
    run.rule("R01.4", "field homomorphism: where an arm rebuilds the same-named variant, the value stored in child field g derives from "
                      "the input's field g (def-use through lets, continuation/iterator closure parameters), not from a sibling field")
    n = 0
    for t in trs:
        if t.enum_name == "Ty":
            continue
        variants = {v["name"]: v for v in t.enum["variants"]}
        for vname, lst in sorted(t.covered.items()):
            v = variants.get(vname)
            if v is None:
                continue
            kids = P.child_fields(v, t.enum["name"], extra=("ImmExpr", "AExpr", "CExpr", "Expr"))
            if len(kids) < 2:
                continue
            for arm, alt in lst:
                b, rest = P.arm_field_bindings(alt)
                kb = {k: b[k] for k in kids if isinstance(b.get(k), str)}
                if len(kb) < 2:
                    continue
                inv = {bn: k for k, bn in kb.items()}
                org, of_expr = P.origins(arm["body"], list(inv))
                for st in S.find(arm["body"], "Struct"):
                    if st["segs"][-1] != vname:
                        continue
                    for fl in st["fields"]:
                        if fl["name"] not in kb:
                            continue
                        n += 1
                        o = {inv[x] for x in of_expr(fl["expr"]) if x in inv}
                        own = fl["name"] in o
                        others = sorted(o - {fl["name"]})
                        ok = own or not others
                        # a value chosen by case analysis (`let (op, l, r) = match op { A => (.., r, l), other => (.., l, r) }`): every
                        # alternative has to derive from the field's own input, not only their union
                        if ok and own:
                            for alt_o in _alternatives(arm["body"], fl["expr"], of_expr, inv):
                                if fl["name"] not in alt_o and alt_o:
                                    ok, others = False, sorted(alt_o)
                        run.ob("R01.4", f"{t.fn.name}|{vname}.{fl['name']}", ok, site(t.fn.file, fl["sp"]),
                               f"output {vname}.{fl['name']} derives from input field(s) {sorted(o) or 'none (constant/new)'}",
                               witness=f"{vname}: `{fl['name']}` is filled from `{others[0] if others else '?'}` - branches/operands/arguments swapped")
    run.floor("rebuilt child fields examined", n, 100)


def r01_1(run, model):
    run.rule("R01.1", "CST->AST lowering drops nothing silently: in every lower_* function each `return None` / `?` on an Option is preceded "
                      "on that path by ctx.push_error, or propagates the None of another lower_* function (which satisfies the same "
                      "rule); iterator adaptors that discard None (filter_map/flat_map over lower_*) are covered by the same summary")
    rel = "crates/ast/src/lower.rs"
    fns = [f for f in model.fns(rel) if f.name.startswith("lower") and f.body is not None and "Option<" in (f.node.get("ret") or "")]
    run.floor("lower_* functions returning Option", len(fns), 15)
    lower_names = {f.name for f in fns}
    par_cache = {}
    n = 0
    for f in fns:
        par = S.Parents(f.body)
        # None-producing sites
        sites = []
        for x in S.walk(f.body):
            if x["k"] == "Return" and x.get("expr") is not None and S.is_path(x["expr"], "None"):
                sites.append(("return None", x))
            elif x["k"] == "Try":
                sites.append(("?", x))
            elif x["k"] == "Path" and x["segs"] == ["None"]:
                p = par.parent(x)
                if p is not None and p["k"] in ("ExprStmt", "Arm", "Block") or (p is not None and par.role(x) in ("body", "else")):
                    if not (p["k"] == "Return"):
                        sites.append(("None", x))
        for kind, x in sites:
            n += 1
            ok = False
            why = ""
            if kind == "?":
                inner = x["expr"]
                callee = None
                for c in S.walk(inner):
                    if c["k"] in ("Call", "MethodCall") and S.callee_name(c) in lower_names:
                        callee = S.callee_name(c)
                if callee:
                    ok, why = True, f"propagates {callee}() (same rule)"
                else:
                    # `?` on a raw CST accessor: accepted when an error was pushed earlier in the same block on this path,
                    # otherwise it relies on the parser always producing that child in an error-free tree
                    why = "`?` on a CST accessor"
                    ok = None
            if ok is not True:
                # look for push_error in the statements preceding the site within its enclosing blocks (same path prefix)
                cur = x
                pushed = False
                while cur is not None and not pushed:
                    p = par.parent(cur)
                    if p is None:
                        break
                    if p["k"] == "Block":
                        for s in p["stmts"]:
                            if s is cur or S.span_contains(s["sp"], cur["sp"]):
                                break
                            if any(True for _ in S.calls(s, "push_error")):
                                pushed = True
                    if p["k"] == "Local" and p.get("else") is not None and S.span_contains(p["else"]["sp"], x["sp"]):
                        if any(True for _ in S.calls(p["else"], "push_error")):
                            pushed = True
                    cur = p
                if pushed:
                    ok, why = True, "an error was pushed on this path"
            if ok is None:
                # raw accessor without a pushed error: obligation on the parser side, recorded as an assumption instance
                txt = S.norm_ws(run.facts.text(rel, x["sp"]))[:50]
                run.ob("R01.1", f"{f.name}|{txt}|parser obligation", True, site(rel, x["sp"]),
                       "relies on the grammar emitting this child (or an Error event, which aborts lowering) - see assumptions", inspected=1)
                continue
            txt = S.norm_ws(run.facts.text(rel, x["sp"]))[:50]
            run.ob("R01.1", f"{f.name}|{kind}|{txt}", bool(ok), site(rel, x["sp"]),
                   why or "None is produced without a diagnostic: the enclosing construct silently loses this sub-tree",
                   witness="a statement / argument / arm of the user's program vanishes from the AST while compilation succeeds")
    run.floor("None-producing sites in lowering", n, 40)


KEEP_FILES = ("crates/compiler/src/compile_match.rs", "crates/compiler/src/mono.rs", "crates/compiler/src/lift.rs", "crates/compiler/src/anf.rs",
              "crates/compiler/src/go/dce.rs", "crates/compiler/src/go/compile.rs")
# the passes that translate one term into one term: nothing of the input may be filtered away while rebuilding
FILTER_FREE_FILES = KEEP_FILES[:4]
KEEP_LEDGER = {
    ("gen_type_definition", "goenv.structs()"): "generic struct templates have no Go declaration; their instances are declared",
    ("gen_type_definition", "goenv.enums()"): "generic enum templates have no Go declaration; their instances are declared",
}


# (function, iterated expression) -> why leaving the rebuilding loop early loses nothing
BREAK_LEDGER = {
}


def r01_5(run, model, only_files=None):
    run.rule("R01.5", "rebuild loops of the IR passes keep every element: a `for` that accumulates its result with a push/insert/extend at the "
                      "top level of its body has no `continue` before that statement (match arms, switch cases, rows, statements are never "
                      "skipped); expected count zero in the pass files, ledgered exceptions, positive control elsewhere in the compiler")
    ctrl = 0
    n = 0
    nfilter = 0
    for f in model.fns():
        if f.body is None or not f.file.startswith("crates/compiler/src/") or "/tests/" in f.file or "/pprint/" in f.file:
            continue
        for loop in S.find(f.body, "For"):
            stmts = loop["body"]["stmts"]
            pushes = [st for st in stmts if st["k"] == "ExprStmt" and st["expr"]["k"] == "MethodCall" and st["expr"]["method"] in ("push", "insert", "extend", "push_back")]
            inner = list(S.find(loop["body"], "For", "While", "Loop"))
            lpar = S.Parents(loop["body"])

            def recorded_before(x):
                """the block that ends in this `continue` has already put the element somewhere (the unconstrained row pushed to every case,
                then `continue`): nothing is skipped"""
                blk = next((a for a in lpar.ancestors(x) if a["k"] == "Block"), None)
                if blk is None:
                    return False
                return any(c["k"] == "MethodCall" and c["method"] in ("push", "push_back", "extend", "insert") and (c["sp"][0], c["sp"][1]) < (x["sp"][0], x["sp"][1])
                           for st_ in blk["stmts"] for c in S.walk(st_))
            if not pushes:
                # the accumulating push may sit inside `if let`s that take the element apart: a `continue` on the way to it skips the element
                npush = [c for c in S.walk_no_closures(loop["body"]) if c["k"] == "MethodCall" and c["method"] in ("push", "push_back")
                         and not any(S.span_contains(l2["sp"], c["sp"]) for l2 in inner)]
                if npush and f.file in KEEP_FILES and not f.file.endswith("go/dce.rs") and (only_files is None or f.file in only_files):
                    lastp = max(npush, key=lambda c: (c["sp"][0], c["sp"][1]))
                    nconts = [x for x in S.walk_no_closures(loop["body"]) if x["k"] == "Continue" and (x["sp"][0], x["sp"][1]) < (lastp["sp"][0], lastp["sp"][1])
                              and not any(S.span_contains(l2["sp"], x["sp"]) for l2 in inner) and not recorded_before(x)]
                    it0 = S.norm_ws(run.facts.text(f.file, loop["iter"]["sp"]))
                    if nconts and KEEP_LEDGER.get((f.name, it0)) is None:
                        acc0 = S.norm_ws(run.facts.text(f.file, lastp["recv"]["sp"]))
                        run.ob("R01.5", f"{f.name}|loop over {it0[:40]} into {acc0[:24]} skips elements", False, site(f.file, nconts[0]["sp"]),
                               f"{len(nconts)} `continue` before the nested `{acc0}.push(..)`",
                               witness="while go { match n { 0 => (), _ => step() } }: the literal arm that lowers to no statement gets no `case 0:`, Go runs "
                                       "`default:` for 0")
                par = S.Parents(loop["body"])
                cond = [c for c in S.walk_no_closures(loop["body"]) if c["k"] == "MethodCall" and c["method"] in ("push", "push_back")
                        and not any(S.span_contains(l2["sp"], c["sp"]) for l2 in inner)
                        and any(a["k"] == "If" and a.get("else") is None for a in par.ancestors(c))]
                if cond and f.file in KEEP_FILES:
                    # the collection walked is a field of the IR node the enclosing arm matched
                    fpar = S.Parents(f.body)
                    child = any(a["k"] == "Arm" and re.search(r"\bE[A-Z]\w*\s*\{", S.norm_ws(run.facts.text(f.file, a["pat"]["sp"])))
                                and S.idents(loop["iter"]) & set(S.pat_bindings(a["pat"])) for a in fpar.ancestors(loop))
                    if f.file in FILTER_FREE_FILES and child and (only_files is None or f.file in only_files):
                        it = S.norm_ws(run.facts.text(f.file, loop["iter"]["sp"]))
                        run.ob("R01.5", f"{f.name}|loop over {it[:40]} keeps only the elements that pass a test", False, site(f.file, loop["sp"]),
                               "every push of this loop sits under an `if` without an else: the elements failing the test leave no trace in the result",
                               witness="match (eff(1), eff(2)) { (_, 0) => .., (_, _) => .. }: the component no arm looks at is never evaluated, `1` is not printed")
                    else:
                        nfilter += 1
                continue
            last = pushes[-1]
            conts = [x for x in S.walk_no_closures(loop["body"]) if x["k"] == "Continue" and (x["sp"][0], x["sp"][1]) < (last["sp"][0], last["sp"][1])
                     and not any(S.span_contains(l2["sp"], x["sp"]) for l2 in inner) and not recorded_before(x)]
            if f.file not in KEEP_FILES:
                ctrl += 1 if conts else 0
                continue
            if only_files is not None and f.file not in only_files:
                continue
            n += 1
            it = S.norm_ws(run.facts.text(f.file, loop["iter"]["sp"]))
            acc = S.norm_ws(run.facts.text(f.file, last["expr"]["recv"]["sp"]))
            led = KEEP_LEDGER.get((f.name, it))
            # leaving the loop early drops every element that was still to come
            brks = [x for x in S.walk_no_closures(loop["body"]) if x["k"] == "Break" and not any(S.span_contains(l2["sp"], x["sp"]) for l2 in inner)]
            if brks:
                bl = BREAK_LEDGER.get((f.name, it))
                run.ob("R01.5", f"{f.name}|loop over {it[:40]} into {acc[:24]} visits every element", bl is not None, site(f.file, brks[0]["sp"]),
                       f"{len(brks)} `break` in a loop that rebuilds its collection" + (f"; ledger: {bl}" if bl else ""),
                       witness="Job { urgent: true, id } => .., Job { urgent: false, id } => ..: the rows behind a row judged to close the match are "
                               "dropped; the second arm becomes `missing`")
            ok = not conts or led is not None
            run.ob("R01.5", f"{f.name}|loop over {it[:40]} into {acc[:24]} keeps every element" if ok else f"{f.name}|loop over {it[:40]} into {acc[:24]} skips elements", ok, site(f.file, loop["sp"]),
                   f"{len(conts)} `continue` before `{acc}.{last['expr']['method']}(..)`" + (f"; ledger: {led}" if led and conts else ""),
                   witness="a match arm / switch case / row that is skipped while rebuilding: the value it handled falls through to the default or to nothing")
    run.floor("accumulating loops in the IR passes", n, 40 if only_files is None else 8)
    run.floor("positive control: loops with a skip before the push elsewhere in the compiler", ctrl, 8)
    run.floor("positive control: filtering loops (push only under a test) in the Go emitter and its dead-code pass", nfilter, 5)


def r01_6(run, model):
    run.rule("R01.6", "a vector bound to a name never changes: vec_push returns the extended vector (`(Vec[T], T) -> Vec[T]`, the only mutable "
                      "thing in goml is Ref), so its lowering must not hand the argument's backing array to Go's append, which writes into "
                      "spare capacity shared by every slice header over that array")
    GO = "crates/compiler/src/go/compile.rs"
    f = model.fn("compile_cexpr", GO)
    arm = None
    for m in S.find(f.body, "Match"):
        for a in m["arms"]:
            if re.fullmatch(r'(Some\()?"vec_push"\)?', S.norm_ws(run.facts.text(GO, a["pat"]["sp"]))):
                arm = a
    if arm is None:
        raise AnalysisIncomplete("compile_cexpr: the arm lowering vec_push was not found")
    body = S.norm_ws(run.facts.text(GO, arm["body"]["sp"]))
    bare = '"append"' in body and re.search(r"args:compiled_args\b", body) is not None
    run.ob("R01.6", "vec_push|does not share the argument's backing array", not bare, site(GO, arm["sp"]),
           "vec_push(v, x) is emitted as append(v, x) on the argument slice itself" if bare else "the argument is copied or capacity-limited before append",
           witness="let v3 = vec_push(vec_push(vec_push(vec_new(), 1), 2), 3); let a = vec_push(v3, 10); let b = vec_push(v3, 20); "
                   "vec_get(a, 3) prints 20: both appends write slot 3 of v3's array (len 3, cap 4)")


# (function, variant, field) whose child is stored without passing through the traversal, with the reason
RECUR_LEDGER = {
}


def r01_9(run, model, only_fns=None, rid="R01.9", floor=160):
    run.rule(rid, "a rewriting pass rewrites every sub-term: where an arm of a traversal rebuilds the variant it matched, each field that "
                  "carries sub-terms is filled from a call of the traversal (the function itself, a local closure or a sibling function "
                  "that calls it; followed through lets, tuple lets and continuation parameters) - never from the matched field as it came in")
    trs = P.discover(model, min_cover=3, include_pprint=False)
    n = 0
    for t in trs:
        if t.enum_name == "Ty":
            continue
        if only_fns is not None and not any(re.search(o, t.fn.qual) for o in only_fns):
            continue
        ret = (t.fn.node.get("ret") or "").replace(" ", "")
        if not any(re.search(r"(?<![A-Za-z0-9_])" + en + r"(?![A-Za-z0-9_])", ret) for en in P.IR_ENUMS | {"Block"}):
            continue
        # the traversal family: the function, the functions of its file from which it is reachable, and the functions of its file
        # it calls that themselves return IR terms (the walkers of a child enum)
        peers = [g for g in model.fns(t.fn.file) if g.body is not None]
        rec = {t.fn.name}
        grew = True
        while grew:
            grew = False
            for g in peers:
                if g.name not in rec and any(True for _ in S.calls(g.body, *rec)):
                    rec.add(g.name)
                    grew = True
        ir_ret = {g.name for g in peers if any(re.search(r"(?<![A-Za-z0-9_])" + en + r"(?![A-Za-z0-9_])", (g.node.get("ret") or "")) for en in P.IR_ENUMS | {"Block"})}
        rec |= {S.callee_name(c) for c in S.walk(t.fn.body) if c["k"] in ("Call", "MethodCall") and S.callee_name(c) in ir_ret}
        for l in S.find(t.fn.body, "Local"):
            if l["pat"]["k"] == "PIdent" and l.get("init") is not None and l["init"]["k"] == "Closure" and any(True for _ in S.calls(l["init"], *rec)):
                rec.add(l["pat"]["name"])
        variants = {v["name"]: v for v in t.enum["variants"]}
        for vname, lst in sorted(t.covered.items()):
            v = variants.get(vname)
            if v is None:
                continue
            kids = P.child_fields(v, t.enum["name"], extra=("ImmExpr", "AExpr", "CExpr"))
            if not kids:
                continue
            for arm, alt in lst:
                par = None

                def binders(i):
                    nonlocal par
                    out = []
                    for l in S.walk(arm["body"]):
                        if l["k"] == "Local" and l.get("init") is not None and i in S.pat_bindings(l["pat"]):
                            out.append(l["init"])
                        elif l["k"] == "Let" and i in S.pat_bindings(l["pat"]):
                            out.append(l["expr"])
                        elif l["k"] == "For" and i in S.pat_bindings(l["pat"]):
                            out.append(l["iter"])
                        elif l["k"] == "MethodCall" and l["method"] in ("push", "extend", "insert", "push_back") and S.is_path(l["recv"], i):
                            out.extend(l["args"])
                        elif l["k"] == "Closure" and any(i in S.pat_bindings(p) for p in l["inputs"]):
                            if par is None:
                                par = S.Parents(arm["body"])
                            # the calls the continuation is handed to (Box::new(..) wrappers included), without the continuation's own body
                            for call in (a for a in par.ancestors(l) if a["k"] in ("Call", "MethodCall")):
                                rest = [x for x in ([call.get("recv")] if call["k"] == "MethodCall" else []) + [a for a in call["args"] if not S.span_contains(a["sp"], l["sp"])] if x is not None]
                                out.append({"k": "Tuple", "elems": rest, "sp": call["sp"], "_callee": S.callee_name(call)})
                    return out

                def through(x, depth=0):
                    if x.get("_callee") in rec:
                        return True
                    for c in S.walk(x):
                        if c["k"] in ("Call", "MethodCall") and S.callee_name(c) in rec:
                            return True
                        if c["k"] == "Path" and len(c["segs"]) == 1 and c["segs"][0] in rec:
                            return True
                    if depth < 3:
                        for i in S.idents(x):
                            for b in binders(i):
                                if through(b, depth + 1):
                                    return True
                    return False

                for st in S.find(arm["body"], "Struct"):
                    if st["segs"][-1] != vname:
                        continue
                    if len(st["segs"]) >= 2 and not re.search(r"(?<![A-Za-z0-9_])" + st["segs"][-2] + r"(?![A-Za-z0-9_])", ret):
                        continue  # the matched node put together again to be handed on whole, not a node of the pass's output
                    for fl in st["fields"]:
                        if fl["name"] not in kids:
                            continue
                        n += 1

                        def fresh_leaf(x, depth=0):
                            """a node without sub-terms built on the spot (a variable naming an apply function, a literal): nothing to rewrite in it"""
                            if x["k"] == "Call" and S.callee_name(x) in ("Box::new", "new", "Some") and x["args"]:
                                return fresh_leaf(x["args"][0], depth)
                            if x["k"] == "Struct":
                                v2 = variants.get(x["segs"][-1])
                                return v2 is not None and not P.child_fields(v2, t.enum["name"], extra=("ImmExpr", "AExpr", "CExpr"))
                            if x["k"] == "Path" and len(x["segs"]) == 1 and depth < 2:
                                bs = binders(x["segs"][0])
                                return bool(bs) and all(fresh_leaf(b, depth + 1) for b in bs)
                            return False
                        ok = through(fl["expr"]) or fresh_leaf(fl["expr"])
                        led = RECUR_LEDGER.get((t.fn.name, vname, fl["name"]))
                        run.ob(rid, f"{t.fn.name}|{vname}.{fl['name']} is filled from the traversal", ok or led is not None, site(t.fn.file, fl["expr"]["sp"]),
                               f"{t.enum_name}::{vname}.{fl['name']} = `{S.norm_ws(run.facts.text(t.fn.file, fl['expr']['sp']))[:60]}`; traversal functions: {sorted(rec)}" +
                               (f"; ledger: {led}" if led else ""),
                               witness=f"whatever the pass does is not done inside `{fl['name']}` of a {vname} node: the sub-term reaches the next stage unrewritten")
    run.floor("rebuilt sub-term fields examined", n, floor)


def r01_10(run, model):
    run.rule("R01.10", "a continuation is lowered in the mode of the lowering it belongs to: the Go back end has three sibling lowerings of an "
                       "ANF term (for effect, assigning to a target, returning); in each of them the rest of a `let` (`body`) and the branches "
                       "of an if / match are handed to the same function again - a helper shared between the siblings that continues in "
                       "effect mode loses the value the block was to produce")
    GO = "crates/compiler/src/go/compile.rs"
    sib = [f for f in model.fns(GO) if f.body is not None and re.fullmatch(r"compile_aexpr(_\w+)?", f.name) and
           any("AExpr" in (p["ty"] or "") for p in f.params() if not p["self"])]
    if len(sib) < 3:
        raise AnalysisIncomplete(f"sibling lowerings of an ANF term: {len(sib)} found")
    names = {f.name for f in sib}
    n = 0
    for f in sib:
        for m_ in S.find(f.body, "Match"):
            for arm in m_["arms"]:
                pt = S.norm_ws(run.facts.text(GO, arm["pat"]["sp"]))
                if re.match(r"(anf::)?AExpr::ALet\{", pt):
                    conts = [b for b in S.pat_bindings(arm["pat"]) if b == "body"]
                elif re.match(r"(anf::)?CExpr::EIf\{", pt):
                    conts = [b for b in S.pat_bindings(arm["pat"]) if b in ("then", "else_")]
                else:
                    continue
                for c in S.walk(arm["body"]):
                    if c["k"] != "Call":
                        continue
                    passed = [b for b in conts if any(a["k"] in ("Path", "Unary") and S.idents(a) == {b} for a in c["args"])]
                    for b in passed:
                        n += 1
                        cn = S.callee_name(c)
                        ok = cn == f.name or (cn == "compile_while" and b == "body")
                        run.ob("R01.10", f"{f.name}|`{b}` of {pt.split('{')[0].split('::')[-1]} continues in the same mode", ok, site(GO, c["sp"]),
                               f"`{b}` is handed to {cn}",
                               witness="fn notify(..) -> int32 { go || {..}; let d = base * 2; d + 1 }: the rest of the block after `go` is lowered for "
                                       "effect only, the function returns the zero value of its result variable")
    run.floor("continuations handed on by the sibling lowerings", n, 12)


def r01_11(run, model):
    run.rule("R01.11", "text the program prints is never read as a format: wherever the runtime (or the back end) builds a Go call of a "
                       "formatting function (`fmt.Printf`, `fmt.Sprintf`, `fmt.Fprintf`, `fmt.Errorf` ..), its first argument is a string "
                       "literal the compiler wrote, not a value of the program")
    n = 0
    for rel in ("crates/compiler/src/go/runtime.rs", "crates/compiler/src/go/compile.rs"):
        for f in model.fns(rel):
            if f.body is None:
                continue
            for st in S.find(f.body, "Struct"):
                if st["segs"][-1] != "Call":
                    continue
                fn_f = next((fl for fl in st["fields"] if fl["name"] == "func"), None)
                args_f = next((fl for fl in st["fields"] if fl["name"] == "args"), None)
                if fn_f is None or args_f is None:
                    continue
                lits = [x["value"] for x in S.walk(fn_f["expr"]) if x["k"] == "Lit" and x.get("lit") == "Str"]
                fmtf = [v for v in lits if re.fullmatch(r"fmt\.(Sp|P|Fp|Err|App)\w*f", v) or v in ("fmt.Errorf", "log.Printf", "log.Fatalf")]
                if not fmtf:
                    continue
                n += 1
                first = None
                a = args_f["expr"]
                if a["k"] == "Macro" and a.get("args"):
                    first = a["args"][0]
                # a Go string literal node built here: its text is chosen by the compiler (a Rust literal, a constant or a parameter of the
                # runtime builder), never a Go expression of the program
                ok = first is not None and first["k"] == "Struct" and first["segs"][-1] == "String"
                run.ob("R01.11", f"{f.name}|{fmtf[0]} is given a format the compiler wrote", ok, site(rel, st["sp"]),
                       f"first argument: `{S.norm_ws(run.facts.text(rel, first['sp']))[:60] if first is not None else '?'}`",
                       witness="string_print(\"25% done\") through fmt.Printf(s) prints `25%!d(MISSING)one`")
    run.floor("formatting calls built by the runtime", n, 2)


def r01_12(run, model):
    run.rule("R01.12", "no answer without the sub-term: a function of a rewriting pass (mono, lift, anf, match compiler, Go back end) that is handed "
                       "a sub-term of the program by parameter does not return before it has looked at that sub-term - a result taken from a "
                       "cache, a table or another occurrence stands for this occurrence's code, which is then never translated")
    TY = re.compile(r"^(&(mut)?)?(Box<)?((core|mono|lift|anf|tast|hir)::)?(Expr|MonoExpr|LiftExpr|AExpr|CExpr|ImmExpr)>?$")
    n = 0
    for rel in ("crates/compiler/src/lift.rs", "crates/compiler/src/anf.rs", "crates/compiler/src/mono.rs", "crates/compiler/src/compile_match.rs",
                "crates/compiler/src/go/compile.rs"):
        for f in model.fns(rel):
            if f.body is None:
                continue
            for p in f.params():
                if p["self"] or not TY.match((p["ty"] or "").replace(" ", "")):
                    continue
                nm = p["pat"].get("name")
                if not nm or nm.startswith("_"):
                    continue
                uses = [x for x in S.walk(f.body) if x["k"] == "Path" and x["segs"] == [nm]]
                n += 1
                if not uses:
                    run.ob("R01.12", f"{f.name}|`{nm}` is looked at", False, site(rel, f.node["sp"]), f"the sub-term `{nm}` is never used")
                    continue
                first = min((u["sp"][0], u["sp"][1]) for u in uses)
                rets = [r for r in S.walk_no_closures(f.body) if r["k"] == "Return" and (r["sp"][0], r["sp"][1]) < first]
                run.ob("R01.12", f"{f.name}|no return before `{nm}` is looked at", not rets, site(rel, (rets[0] if rets else f.node)["sp"]),
                       f"{len(rets)} return(s) in front of the first use of `{nm}`",
                       witness="two different closures `|| a + 1` and `|| b * 2` bound to the same name in one function: the second is answered "
                               "from the first one's record, its body is never lifted and calling it runs the first closure")
    run.floor("functions of the rewriting passes that are handed a sub-term", n, 39)


def r01_14(run, model, rid="R01.14", file_re=None):
    """analysis walkers (capture / liveness / effect / reachability collectors: traversals that return nothing, a bool or a set) look at
    every sub-term whatever its shape"""
    run.rule(rid, "an analysis walker visits a sub-term unconditionally: in every traversal that returns (), bool or a set (capture walk, free "
                  "variables, called functions, used packages, effect predicates) no sub-term binding is handed on only under a test of its "
                  "own shape - every use of it outside conditions lies in a branch of an `if` whose condition mentions it while another way "
                  "through that `if` never does (Option-typed children are unwrapped, not tested)")
    trs = P.discover(model, include_pprint=False)
    n = 0
    fns = set()
    for t in trs:
        ret = (t.fn.node.get("ret") or "").replace(" ", "")
        if t.enum_name == "Ty" or (file_re and not re.search(file_re, t.fn.file)):
            continue
        if ret and not re.match(r"^(\(\)|bool|(std::collections::)?(Hash|BTree|Index)Set<.*)$", ret):
            continue
        variants = {v["name"]: v for v in t.enum["variants"]}
        for vname, lst in sorted(t.covered.items()):
            v = variants.get(vname)
            if v is None:
                continue
            kids = P.child_fields(v, t.enum["name"])
            ftys = {(f["name"] if f["name"] is not None else str(i)): f["ty"] for i, f in enumerate(v["fields"])}
            for arm, alt in lst:
                b, _rest = P.arm_field_bindings(alt)
                for k in kids:
                    nm = b.get(k)
                    if not isinstance(nm, str) or ftys[k].replace(" ", "").startswith("Option<"):
                        continue
                    n += 1
                    fns.add(t.fn.qual)
                    g = P.shape_conditional_only(arm["body"], nm)
                    run.ob(rid, f"{t.fn.name}|{vname}.{k} visited whatever its shape", g is None, site(t.fn.file, (g or arm)["sp"]),
                           f"`{nm}` is walked unconditionally" if g is None else
                           f"`{nm}` is handed on only inside `if {S.norm_ws(run.facts.text(t.fn.file, g['cond']['sp']))[:90]}`",
                           witness="fn twice(f: (int32) -> int32) -> (int32) -> int32 { |x| f(f(x)) }: a captured function value that is only "
                                   "called is skipped by the capture walk when a bare-name callee is not visited - the environment struct has no "
                                   "field for it and the apply function refers to the undeclared `f__2`")
    run.floor(f"{rid}: sub-term bindings of analysis walkers examined", n, 88 if not file_re else 10)


def run(run, model):
    # the linked program is emitted Go too: lambda lifting reads callee signatures in concatenation order, so a link order other than
    # dependency-first leaves a closure-returning import ill-typed (shared with C14 R14.1), and a unit linked against an interface it was
    # not built with calls functions at another arity / layout (shared with C15 R15.4)
    from rules import c14 as _c14l, c15 as _c15l
    run.try_rule(_c14l.r14_1, model)
    run.try_rule(_c15l.r15_4, model)
    run.try_rule(r01_6, model)
    trs = P.discover(model, include_pprint=True)
    run.anchor("IR traversals discovered", f"{len(trs)} (function, enum) matches with >=5 explicit variants")
    run.try_rule(r01_2, model, trs)
    run.try_rule(r01_3, model, trs)
    run.try_rule(r01_4, model, trs)
    run.try_rule(r01_9, model)
    run.try_rule(r01_10, model)
    run.try_rule(r01_11, model)
    run.try_rule(r01_12, model)
    run.try_rule(r01_14, model)
    # emitted pieces keep their order: no new reversal, swap or sort (G-SEQ, shared with C09 R09.17)
    from rules import gseq
    run.try_rule(gseq.r_seq, model, "R01.13")
    # which binder a name denotes is part of what the program means (shared with C05 R05.2)
    from rules import c05 as _c05
    run.try_rule(_c05.r05_2, model)
    run.try_rule(r01_1, model)
    run.try_rule(r01_5, model)
    from rules import c11
    # the precedence table is part of what a source text means: `a || b && c` compiled as `(a || b) && c` is faithfully translated wrong
    for fn_ in (c11.r11_1, c11.r11_5, c11.r11_6, c11.r11_7, c11.r11_8, c11.r11_9, c11.r11_10):
        run.try_rule(fn_, model)
    run.try_rule(c09.r09_1, model)
    run.try_rule(c09.r09_3, model)
    run.try_rule(c09.r09_12, model)
    run.try_rule(c09.r09_13, model)
    run.try_rule(c09.r09_14, model)
    run.try_rule(c06.r06_2, model)
    run.try_rule(c06.r06_7, model)
    run.try_rule(c06.r06_8, model)
    # C01 is the umbrella over match compilation, monomorphisation, closure conversion, ANF, Go generation and DCE: the
    # structural clauses of those stages are necessary conditions of it as well and are evaluated here too
    from lib.mir import Mir
    from rules import c07, c08, c10, c02
    mir = None
    try:
        mir = Mir(run.facts)
    except AnalysisIncomplete:
        mir = None
    if mir is not None:
        run.try_rule(c06.r06_1, model, mir)
    for fn_ in (c06.r06_17, c06.r06_3, c06.r06_4, c06.r06_5, c06.r06_9, c07.r07_1, (lambda r, m: c07.r07_2(r, m, None, "C01")), c07.r07_3, c07.r07_4, c07.r07_5, c07.r07_6,
                c08.r08_1, c08.r08_2, c08.r08_3, c09.r09_2, c09.r09_4, c09.r09_5, c10.r10_3, c10.r10_8, c10.r10_21, c02.r02_8):
        run.try_rule(fn_, model)
    from rules import c11
    run.rule("R01.7", "a chained tuple projection reads the components the source names (shared with C11 R11.15)")
    run.try_rule(c11.r11_15, model)
    run.rule("R01.8", "nothing the source does is lost before type checking: an expression the parser accepts at file level is reported (shared with C11 R11.17)")
    run.try_rule(c11.r11_17, model)
    run.try_rule(c11.r11_20, model)
    run.assume("pipeline::compile returns the AST only when lowering pushed no error, so a None after push_error cannot reach later stages")
    run.assume("`?` on a raw CST accessor in ast::lower is sound only if the parser emits that child in every error-free tree (not decided here)")
    run.assume("restructuring arms (decision trees, closure conversion, ANF naming, Go statement shapes) are outside R01.4 by construction: they build a different variant")
