"""C18 Derived ToString/ToJson are total and faithful (structural clauses)."""
import re
from lib import syn as S
from lib.core import AnalysisIncomplete, site

EXPLANATION = (
    "Static decision of the derive expander's dispatch. R18.1: the functions that choose an encoder by field type (call_to_json, "
    "call_to_string) decide every ast::TypeExpr variant explicitly - a catch-all arm sends types the derive cannot handle to generated "
    "method calls that fail in a later stage instead of a derive diagnostic. R18.2: the JSON string leaf is produced by a JSON encoder "
    "(not Go's %q verb) and numeric leaves use printf verbs that fit (C10). R18.3: identifiers synthesised as binders lie outside the "
    "user identifier grammar. R18.4: the two families do not mix - nothing reachable (by call or by function value) from the ToJson "
    "entry points mentions the ToString renderer and vice versa. R18.5: an item's derives are looked up per attribute - the test for "
    "the requested trait is applied to every derive attribute, not only to the first one. Faithfulness of rendering for all values is "
    "not decided.")

DER = "crates/compiler/src/derive.rs"
RUNTIME = "crates/compiler/src/go/runtime.rs"


def encoder_match(run, model, f):
    """the match that chooses an encoder by ast::TypeExpr: in f itself or in a helper of derive.rs that f calls"""
    refs = S.idents(f.body) | {S.callee_name(c) for c in S.calls(f.body)}
    cands = [f] + [g for g in model.fns(DER) if g.body is not None and g is not f and g.name in refs]
    best = None
    for g in cands:
        for m in S.find(g.body, "Match"):
            k = sum(1 for arm in m["arms"] if re.search(r"TypeExpr::[A-Z]", S.norm_ws(run.facts.text(DER, arm["pat"]["sp"]))))
            if k and (best is None or k > best[0]):
                best = (k, m)
        if best is not None and g is f:
            break  # the function's own match decides; helpers are only consulted when it has none
    return best[1] if best else None


def r18_8(run, model):
    run.rule("R18.8", "JSON leaves use JSON encoders, not the text renderer: in the encoder choice of the ToJson derive the unit type yields the "
                      "literal null, bool goes through bool_to_json and string through json_escape_string (the *_to_string helpers print "
                      "goml syntax: `()`)")
    f = model.fn("call_to_json", DER)
    m = encoder_match(run, model, f)
    if m is None:
        raise AnalysisIncomplete("call_to_json: no match over ast::TypeExpr found")
    want = {"TUnit": "null", "TBool": "bool_to_json", "TString": "json_escape_string"}
    for v, needle in want.items():
        arms = [a for a in m["arms"] if re.search(r"TypeExpr::" + v + r"\b", S.norm_ws(run.facts.text(DER, a["pat"]["sp"])))]
        ok = bool(arms) and all(needle in S.norm_ws(run.facts.text(DER, a["body"]["sp"])) for a in arms)
        run.ob("R18.8", f"ToJson leaf {v}|encoded by {needle}", ok, site(DER, arms[0]["sp"] if arms else m["sp"]),
               (f"{v} => " + S.norm_ws(run.facts.text(DER, arms[0]["body"]["sp"]))[:60]) if arms else f"no arm for {v}",
               witness="struct T { tick: unit } derives {\"tick\":()} - not JSON")


def r18_1(run, model):
    run.rule("R18.1", "the derive's encoder choice decides every field type explicitly: call_to_json / call_to_string match ast::TypeExpr without a "
                      "catch-all arm (unsupported types must become derive diagnostics)")
    te = model.enum("TypeExpr", "crates/ast/src/ast.rs")
    allv = [v["name"] for v in te["variants"]]
    for name in ("call_to_json",):
        f = model.fn(name, DER)
        m = encoder_match(run, model, f)
        if m is None:
            raise AnalysisIncomplete(f"{name}: no match over ast::TypeExpr found (directly or in a helper it calls)")
        covered = set()
        catch = []
        for arm in m["arms"]:
            pt = S.norm_ws(run.facts.text(DER, arm["pat"]["sp"]))
            vs = re.findall(r"TypeExpr::([A-Za-z0-9]+)", pt)
            covered |= set(vs)
            if not vs and S.pat_head(S.pat_alts(arm["pat"])[0])[0] == "any":
                catch.append(arm)
        missing = [v for v in allv if v not in covered]
        # one obligation per field-type form, so that a form newly falling into the catch-all is a new key
        for v in allv:
            if v in ("TCon", "TApp"):
                continue  # nominal types delegate to their own to_json method by design
            ok = v in covered or not catch
            run.ob("R18.1", f"{name}|{v} decided explicitly", ok, site(DER, m["sp"]),
                   f"{v} {'has its own arm' if v in covered else 'reaches the catch-all (generated .to_json() call)'}",
                   witness="#[derive(ToJson)] struct S { p: (int32, int32) } : the generated body calls .to_json() on a tuple and the typer reports `Method to_json not found` about code the user never wrote")


def r18_7(run, model):
    run.rule("R18.7", "sibling derive entry points reject the same definitions: each derive_<struct|enum>_<trait> consults the definition's "
                      "`generics` in a rejecting position (a test that returns Err, or a `?`-propagated helper) before it builds the impl "
                      "with `generics: Vec::new()`")
    sib = [f for f in model.fns(DER) if f.body is not None and re.fullmatch(r"derive_(struct|enum)_[a-z]+", f.name)]
    run.floor("derive entry points", len(sib), 4)
    verdict = {}
    for f in sib:
        par = S.Parents(f.body)
        rejecting = False
        for n in S.walk(f.body):
            if n["k"] == "Field" and n.get("member") == "generics":
                for a in par.ancestors(n):
                    if a["k"] == "If" and S.span_contains(a["cond"]["sp"], n["sp"]) and any(
                            r.get("expr") is not None and S.callee_name(r["expr"]) == "Err" for r in S.find(a["then"], "Return")):
                        rejecting = True
                    if a["k"] == "Try":
                        rejecting = True
        verdict[f.name] = rejecting
    if not any(verdict.values()):
        raise AnalysisIncomplete("no derive entry point consults `generics` (idiom changed)")
    for name, ok in sorted(verdict.items()):
        f = [x for x in sib if x.name == name][0]
        run.ob("R18.7", f"{name}|rejects generic definitions like its siblings", ok, site(DER, f.node["sp"]),
               "consults the definition's generics and rejects" if ok else f"does not look at `generics`; siblings that do: {sorted(k for k, v in verdict.items() if v)}",
               witness="#[derive(ToJson)] enum Opt[T] { .. }: the derive emits `impl Opt { fn to_json(self: Opt) .. }` and the typer reports errors about generated code")


def r18_10(run, model):
    run.rule("R18.10", "generated constructor patterns name their enum: every Pat::PConstr the derive builds for a variant has a constructor path "
                       "made of the enum's name and the variant's name (a bare variant name is ambiguous when two enums share it)")
    n = 0
    helpers = {g.name: g for g in model.fns(DER) if g.body is not None}
    for f in model.fns(DER):
        if f.body is None:
            continue
        lets = {}
        for l in S.find(f.body, "Local"):
            if l["pat"]["k"] == "PIdent" and l.get("init") is not None:
                lets[l["pat"]["name"]] = l["init"]
        for st in S.find(f.body, "Struct"):
            if st["segs"][-1] != "PConstr":
                continue
            for fl in st["fields"]:
                if fl["name"] != "constructor":
                    continue
                n += 1
                e = fl["expr"]
                if e["k"] == "Path" and len(e["segs"]) == 1 and e["segs"][0] in lets:
                    e = lets[e["segs"][0]]
                t = S.norm_ws(run.facts.text(DER, e["sp"]))
                ok = re.search(r"Path::from_idents\(vec!\[[^\]]*\.name[^\]]*,[^\]]*\]\)", t) is not None
                run.ob("R18.10", f"{f.name}|constructor path is enum-qualified", ok, site(DER, st["sp"]), f"constructor: {t[:70]}",
                       witness="enum Tree { Empty, Leaf(int32) } and enum List { Empty, .. } both deriving ToJson: `Ambiguous constructor Empty` about generated code")
    run.floor("constructor patterns generated by the derive", n, 3)


def r18_2(run, model):
    run.rule("R18.2", "JSON string leaves are produced by a JSON encoder: the runtime json_escape_string does not use Go's %q verb (Go syntax: "
                      "\\x00, \\a, \\U0001F600 are not JSON)")
    f = model.fn("json_escape_string", RUNTIME)
    lits = [n["value"] for n in S.walk(f.body) if n["k"] == "Lit" and n.get("lit") == "Str"]
    verbs = sorted({v for l in lits for v in re.findall(r"%[+#\- 0-9.]*[qvxXU]", l)})
    ok = not verbs
    # the key names the verb: the recorded finding is `%q`; another Go quoting verb is a different violation
    key = "json_escape_string|not %q" if verbs in ([], ["%q"]) else f"json_escape_string|Go formatting verb {' '.join(verbs)}"
    run.ob("R18.2", key, ok, site(RUNTIME, f.node["sp"]), f"string constants in the helper: {lits}; Go quoting/formatting verbs: {verbs or 'none'}",
           witness="to_json of a string containing U+0007 or a non-BMP character yields \\a / \\U0001f600: not valid JSON")


def r18_3(run, model):
    run.rule("R18.3", "identifiers the derive synthesises as binders are outside the user identifier grammar (leading underscore)")
    n = 0
    for f in model.fns(DER):
        if f.body is None:
            continue
        for c in S.walk(f.body):
            if c["k"] == "Macro" and c["name"] == "format" and c.get("args"):
                a0 = c["args"][0]
                if a0["k"] == "Lit" and re.fullmatch(r"[A-Za-z_][A-Za-z0-9_]*\{[A-Za-z0-9_]*\}", a0["value"]):
                    n += 1
                    ok = a0["value"].startswith("_")
                    run.ob("R18.3", f"{f.name}|binder {a0['value']}", ok, site(DER, c["sp"]), f"synthesised binder pattern `{a0['value']}`",
                           witness="a user field or variable of the same name is captured by the generated match")
    run.floor("synthesised binder name patterns", n, 1)


def reach(model, roots):
    fns = {f.name: f for f in model.fns(DER) if f.body is not None}
    seen = set()
    work = [r for r in roots if r in fns]
    while work:
        n = work.pop()
        if n in seen:
            continue
        seen.add(n)
        ids = S.idents(fns[n].body)
        for m in ids:
            if m in fns and m not in seen:
                work.append(m)
    return seen, fns


def r18_4(run, model):
    run.rule("R18.4", "the ToJson and ToString families do not mix: nothing reachable (call or function value) from derive_*_tojson mentions "
                      "call_to_string, and nothing reachable from derive_*_tostring mentions call_to_json")
    for roots, forbidden, fam in ((["derive_struct_tojson", "derive_enum_tojson"], "call_to_string", "ToJson"),
                                  (["derive_struct_tostring", "derive_enum_tostring"], "call_to_json", "ToString")):
        seen, fns = reach(model, roots)
        if len(seen) < 3:
            raise AnalysisIncomplete(f"derive entry points {roots} not found")
        offenders = sorted(n for n in seen if n != forbidden and forbidden in S.idents(fns[n].body))
        run.ob("R18.4", f"{fam} family|does not use {forbidden}", not offenders and forbidden not in seen, site(DER, None),
               f"functions reachable from {roots}: {sorted(seen)}; mentioning {forbidden}: {offenders or 'none'}",
               witness="enum E { S(string) } deriving ToJson: the payload is spliced into the JSON unquoted (rendered by the ToString renderer)")


def r18_5(run, model):
    run.rule("R18.5", "derive lookup is per attribute: in find_derive_attr the test for the requested trait is evaluated inside the closure "
                      "applied to every attribute (find_map/find/filter over attrs), not after picking the first derive attribute")
    f = model.fn("find_derive_attr", DER)
    tparam = [p["pat"]["name"] for p in f.params() if "str" in (p["ty"] or "")]
    if not tparam:
        raise AnalysisIncomplete("find_derive_attr: trait-name parameter not found")
    tn = tparam[0]
    par = S.Parents(f.body)
    ok = False
    detail = f"no comparison with `{tn}` found"
    for n in S.walk(f.body):
        if n["k"] == "Binary" and n["op"] == "==" and tn in S.idents(n):
            clos = [a for a in par.ancestors(n) if a["k"] == "Closure"]
            outer = None
            for cl in clos:
                p = par.parent(cl)
                if p is not None and p["k"] == "MethodCall" and p["method"] in ("find_map", "find", "filter", "filter_map", "any", "position"):
                    recv = S.norm_ws(run.facts.text(DER, p["recv"]["sp"]))
                    if recv.startswith("attrs") :
                        outer = p
            ok = outer is not None
            detail = "the trait test runs inside the per-attribute closure of attrs.iter()." + (outer["method"] if outer else "?") if ok else \
                "the trait test is applied outside the iteration over attrs (only the first derive attribute is examined)"
    loops = [l for l in S.find(f.body, "For") if "attrs" in S.idents(l["iter"])]
    if not ok and loops:
        for l in loops:
            if any(n["k"] == "Binary" and n["op"] == "==" and tn in S.idents(n) for n in S.walk(l["body"])):
                ok, detail = True, "the trait test runs inside a loop over attrs"
    run.ob("R18.5", "find_derive_attr|every derive attribute is examined", ok, site(DER, f.node["sp"]), detail,
           witness="#[derive(ToString)] and #[derive(ToJson)] on separate lines: the second is dropped silently")


def _literal_fragments(run, f):
    """string fragments a body builder emits: EString values and format! templates (placeholders removed, {{ }} unescaped)"""
    out = []
    for st in S.find(f.body, "Struct"):
        if st["segs"][-1] != "EString":
            continue
        for fl in st["fields"]:
            if fl["name"] != "value":
                continue
            e = fl["expr"]
            lit = None
            for n in S.walk(e):
                if n["k"] == "Lit" and n.get("lit") == "Str":
                    lit = n["value"]
                    break
                if n["k"] == "Macro" and n["name"] == "format" and n.get("args") and n["args"][0]["k"] == "Lit":
                    t = n["args"][0]["value"].replace("{{", "\x01").replace("}}", "\x02")
                    t = re.sub(r"\{[^{}]*\}", "", t)
                    lit = t.replace("\x01", "{").replace("\x02", "}")
                    break
            if lit is not None:
                out.append((lit, st))
    return out


def r18_6(run, model):
    run.rule("R18.6", "the JSON / text skeleton a body builder emits is balanced: over the fragments of one builder braces and brackets close, "
                      "every fragment has an even number of double quotes, and separators are only emitted between elements (guarded by the index)")
    n = 0
    for f in model.fns(DER):
        if f.body is None or not re.fullmatch(r"build_(struct|enum)(_json)?_body", f.name):
            continue
        frs = _literal_fragments(run, f)
        n += len(frs)
        is_json = "json" in f.name
        for o, c in (("{", "}"), ("[", "]"), ("(", ")")):
            # fragments that are complete on their own (e.g. the empty-struct early return) are balanced by themselves
            opens = sum(x.count(o) for x, _ in frs)
            closes = sum(x.count(c) for x, _ in frs)
            run.ob("R18.6", f"{f.name}|{o}{c} balanced", opens == closes, site(DER, f.node["sp"]), f"{opens} `{o}` vs {closes} `{c}` over fragments {[x for x, _ in frs]}",
                   witness="to_json returns text that does not parse: an object/array is left open")
        if is_json:
            odd = [x for x, _ in frs if x.count('"') % 2]
            run.ob("R18.6", f"{f.name}|quotes paired in every fragment", not odd, site(DER, f.node["sp"]), f"fragments with an odd number of quotes: {odd or 'none'}")
            par = S.Parents(f.body)
            for x, st in frs:
                if x.strip() == ",":
                    guards = [S.norm_ws(run.facts.text(DER, a["cond"]["sp"])) for a in par.ancestors(st) if a["k"] == "If" and S.span_contains(a["then"]["sp"], st["sp"])]
                    ok = any(re.fullmatch(r"idx>0|idx!=0|i>0|!first", g) for g in guards)
                    run.ob("R18.6", f"{f.name}|comma only between elements", ok, site(DER, st["sp"]), f"`,` fragment guarded by {guards or 'nothing'}",
                           witness="a leading or trailing comma: invalid JSON")
    run.floor("literal fragments of derive body builders", n, 12)
    # every list a builder renders (a loop over fields / payload bindings that emits encoded elements) separates its elements by a
    # fragment guarded by that loop's own index: the decision "first element or not" is taken per list, not kept in shared state
    m_ = 0
    for f in model.fns(DER):
        if f.body is None or not re.fullmatch(r"build_(struct|enum)(_json)?_body", f.name):
            continue
        for loop in S.find(f.body, "For"):
            emits = any(S.callee_name(c) in ("call_to_json", "call_to_string") for c in S.calls(loop["body"])) or \
                any(c["k"] == "MethodCall" and re.search(r"item|push", c["method"]) and any(S.callee_name(x) in ("call_to_json", "call_to_string") for x in S.calls(c)) for c in S.walk(loop["body"]))
            if not emits:
                continue
            m_ += 1
            guarded = False
            for iff in S.find(loop["body"], "If"):
                g = S.norm_ws(run.facts.text(DER, iff["cond"]["sp"]))
                if re.fullmatch(r"(idx|i|index)>0|(idx|i|index)!=0|!first|(idx|i|index)\+1(!=|<)[\w.]+\.len\(\)", g) and any(
                        x["k"] == "Lit" and x.get("lit") == "Str" and x["value"].strip() == "," for x in S.walk(iff["then"])):
                    guarded = True
            run.ob("R18.6", f"{f.name}|list #{m_} separated by its own index", guarded, site(DER, loop["sp"]),
                   "`if idx > 0 { \",\" }` inside the element loop" if guarded else "the element loop does not decide the separator from its own index",
                   witness="enum E { A(int32, int32), C(string, int32) }: the second payload variant starts with a separator: {\"tag\":\"C\",\"fields\":[,\"q\",2]}")
    run.floor("element loops of derive body builders", m_, 4)


SCALARS = ("TUnit", "TBool", "TInt8", "TInt16", "TInt32", "TInt64", "TUint8", "TUint16", "TUint32", "TUint64", "TFloat32", "TFloat64")
HAS_TO_STRING_METHOD = {"TInt32": "int32 has an inherent to_string (builtin_functions_test::env_registers_builtin_int32_inherent_to_string)"}


def r18_11(run, model):
    run.rule("R18.11", "the code generated for a scalar field type-checks: `.to_string()` exists only on int32, so for every other scalar type "
                       "(unit, bool, the other integer widths, floats) call_to_string calls a rendering builtin by name, and that builtin is "
                       "declared in builtin.gom - otherwise the derive accepts the type and the typer rejects the generated code")
    BG = "crates/compiler/src/builtin.gom"
    declared = set(re.findall(r"extern\s+fn\s+(\w+)\s*\(", "\n".join(run.facts.source_lines(BG))))
    if len(declared) < 12:
        raise AnalysisIncomplete("builtin.gom: extern fn declarations not found")
    f = model.fn("call_to_string", DER)
    # mapping functions: match arms `…TypeExpr::TX => Some("name")` in a helper called by call_to_string, or in call_to_string itself
    mapping = {}
    refs = S.idents(f.body) | {S.callee_name(c) for c in S.calls(f.body)}
    cands = [f] + [g for g in model.fns(DER) if g.body is not None and g.name != f.name and g.name in refs]
    for g in cands:
        for m in S.find(g.body, "Match"):
            for arm in m["arms"]:
                lits = [x["value"] for x in S.walk(arm["body"]) if x["k"] == "Lit" and x.get("lit") == "Str"]
                if len(lits) != 1:
                    continue
                for a in S.pat_alts(arm["pat"]):
                    h = S.pat_head(a)
                    if h[0] == "variant" and h[1][-1] in SCALARS:
                        mapping[h[1][-1]] = lits[0]
    for v in SCALARS:
        if v in HAS_TO_STRING_METHOD and v not in mapping:
            run.ob("R18.11", f"call_to_string|{v} is rendered by a function that exists", True, site(DER, f.node["sp"]), HAS_TO_STRING_METHOD[v])
            continue
        name = mapping.get(v)
        ok = name is not None and name in declared
        run.ob("R18.11", f"call_to_string|{v} is rendered by a function that exists", ok, site(DER, f.node["sp"]),
               f"builtin called: {name!r}; declared in builtin.gom: {name in declared if name else False}" if name else
               "no builtin is chosen for this type: the generated code calls `.to_string()`, a method only int32 has",
               witness="#[derive(ToString)] struct Switch { on: bool } / #[derive(ToJson)] struct Stamp { at: int64 }: "
                       "`Method to_string not found for type ExprId {..}` - an unlocated typer error about generated code")
    run.floor("builtins declared in builtin.gom", len(declared), 12)


def r18_12(run, model):
    run.rule("R18.12", "binders the derive invents cannot capture the user's fields: the struct derives bring every field into scope under its own "
                       "name, so every other variable pattern the generated code introduces has a name outside the user identifier grammar "
                       "(identifiers start with a letter; generated names start with `_`)")
    from rules import c07
    consts = {}
    for it, _ in model.all_items(DER):
        if it["k"] == "Const" and isinstance(it.get("value"), dict) and it["value"].get("k") == "Lit":
            consts[it["name"]] = it["value"].get("value")
    src = "\n".join(run.facts.source_lines(DER))
    for m in re.finditer(r'const\s+(\w+)\s*:\s*&str\s*=\s*"([^"]*)"', src):
        consts.setdefault(m.group(1), m.group(2))
    n = 0
    for f in model.fns(DER):
        if f.body is None:
            continue
        for st in S.walk(f.body):
            if st["k"] != "Struct" or st["segs"][-1] != "PVar":
                continue
            nm = next((fl["expr"] for fl in st["fields"] if fl["name"] == "name"), None)
            if nm is None:
                continue
            chain = [S.norm_ws(run.facts.text(DER, nm["sp"]))]
            for i in S.idents(nm):
                chain += c07._origin_chain(run, f, DER, st, i, depth=3)
            # closure parameters iterating a collection of names: look at how that collection was built
            text = " <- ".join(chain)
            if re.search(r"\bfield_name\b|\.fields\b", text) and "AstIdent::new" not in text:
                continue  # the user's own field name
            n += 1
            lits = re.findall(r'AstIdent::new\(&?(?:format!\()?\"([^\"]*)\"', text)
            for cname in re.findall(r"AstIdent::new\(&?([A-Z_]{3,})\)", text):
                if cname in consts:
                    lits.append(consts[cname])
            if not lits:
                # a binder iterated from a local collection: find the collection's construction in the same function
                body = S.norm_ws(run.facts.text(DER, f.body["sp"]))
                lits = re.findall(r'AstIdent::new\(&?(?:format!\()?\"([^\"]*)\"', body)
                for cname in re.findall(r"AstIdent::new\(&?([A-Z_]{3,})\)", body):
                    if cname in consts:
                        lits.append(consts[cname])
            ok = bool(lits) and all(l.startswith("_") or l == "self" for l in lits)
            run.ob("R18.12", f"{f.name}|generated binder #{n} has a name no user field can have", ok, site(DER, st["sp"]),
                   f"name: {chain[0][:40]}; literal(s) it is built from: {sorted(set(lits)) or 'not found'}",
                   witness="a derive whose body binds an accumulator `out`: struct Log { out: string, n: int32 } renders the accumulated prefix instead of the field")
    run.floor("binders invented by the derives", n, 2)


def r18_13(run, model):
    run.rule("R18.13", "a generated constructor pattern has one binder per field of the variant it matches: the argument list of every "
                       "`Pat::PConstr` the derives build is derived from that variant's `fields.len()` (a wider list is accepted by the "
                       "derive and rejected by the typer as an arity error in generated code)")
    from rules import c07
    n = 0
    for f in model.fns(DER):
        if f.body is None:
            continue
        for st in S.walk(f.body):
            if st["k"] != "Struct" or st["segs"][-1] != "PConstr":
                continue
            args = next((fl["expr"] for fl in st["fields"] if fl["name"] == "args"), None)
            if args is None:
                continue
            t = S.norm_ws(run.facts.text(DER, args["sp"]))
            if re.fullmatch(r"Vec::new\(\)|vec!\[\]", t):
                continue  # nullary variant
            n += 1
            chain = [t]
            for i in S.idents(args):
                chain += c07._origin_chain(run, f, DER, st, i, depth=3)
            text = " <- ".join(chain)
            ok = re.search(r"fields\.len\(\)|fields\.iter\(\)", text) is not None
            run.ob("R18.13", f"{f.name}|constructor pattern #{n} has one binder per field of its variant", ok, site(DER, st["sp"]),
                   f"args: {text[:140]}",
                   witness="enum Shape { Dot, Circle(int32), Label(string, int32, bool) } under derive(ToJson): the arm for Circle is `Circle(__field0, "
                           "__field1, __field2)`: Constructor Circle expects 1 arguments, but got 3")
    run.floor("constructor patterns with payload built by the derives", n, 2)


def r18_14(run, model):
    run.rule("R18.14", "a derive attribute is honoured or rejected, never silently ignored: the attribute node's text continues after the "
                       "closing bracket when a comment follows (`#[derive(ToString)] // note`), so the function that reads the targets "
                       "locates the bracket instead of requiring the text to end with it (or the lowering hands over the bracketed text only)")
    f = model.fn("parse_derive_targets", DER)
    t = S.norm_ws(run.facts.text(DER, f.body["sp"]))
    # the text after the attribute's own `]` is a comment and may hold brackets of its own: the bracket is looked for from the front
    needs_end = re.search(r"strip_suffix\('\]'\)|ends_with\('\]'\)|rsplit_once\('\]'\)|rfind\('\]'\)|rsplit\('\]'\)", t) is not None
    low = model.fn("lower_attributes", "crates/ast/src/lower.rs")
    lt = S.norm_ws(run.facts.text("crates/ast/src/lower.rs", low.body["sp"]))
    whole_text = re.search(r"text:syntax\.text\(\)\.to_string\(\)", lt) is not None
    ok = not (needs_end and whole_text)
    run.ob("R18.14", "parse_derive_targets|a comment after the attribute does not drop the derive", ok, site(DER, f.node["sp"]),
           f"the closing bracket is taken from the end of the text: {needs_end}; the lowering hands over the node's whole text (trailing trivia included): {whole_text}",
           witness="#[derive(ToString)] // note\nstruct P { a: int32 }: no impl is generated and no diagnostic is given; p.to_string() fails with "
                   "`Method to_string not found`")


def r18_16(run, model):
    run.rule("R18.16", "a struct without fields renders as `Name {}`: the pieces build_struct_body writes around the fields carry the spaces of "
                       "`Name { f: v }` (`\"{} {{ \"` before, `\" }\"` after), so the field-less struct has a rendering of its own - a test of "
                       "`fields.is_empty()` that returns the text without the inner spaces")
    f = model.fn("build_struct_body", DER)
    texts = [x["value"] for x in S.walk(f.body) if x["k"] == "Lit" and x.get("lit") == "Str" and isinstance(x.get("value"), str)]
    src = S.norm_ws(run.facts.text(DER, f.body["sp"]))
    texts += re.findall(r'format!\("((?:[^"\\]|\\.)*)"', run.facts.text(DER, f.body["sp"]))
    opens = [t for t in texts if re.search(r"\{\{? $", t)]
    closes = [t for t in texts if re.match(r"^ \}", t)]
    if not opens or not closes:
        run.ob("R18.16", "build_struct_body|a field-less struct has no stray spaces", True, site(DER, f.node["sp"]),
               "the general path writes no space between the braces and the fields")
        return
    guard = None
    for iff in S.find(f.body, "If"):
        c = S.norm_ws(run.facts.text(DER, iff["cond"]["sp"]))
        if re.search(r"fields\.is_empty\(\)|fields\.len\(\)==0", c) and any(x["k"] == "Return" for x in S.walk(iff["then"])):
            body = run.facts.text(DER, iff["then"]["sp"])
            if re.search(r'"\{\} \{\{\}\}"|\{\{\}\}', body):
                guard = iff
    run.ob("R18.16", "build_struct_body|a field-less struct has no stray spaces", guard is not None, site(DER, (guard or f.node)["sp"]),
           f"general path: `{opens[0]}` .. `{closes[0]}`; special case for no fields: {'present' if guard else 'absent'}",
           witness="#[derive(ToString)] struct Empty {}: to_string renders `Empty {  }` instead of `Empty {}`, also when nested")


def r18_15(run, model):
    run.rule("R18.15", "a generated body reads its receiver once: in derive.rs every use of the parameter `self` as a value stands outside the "
                       "iterations over the fields or variants of the definition (the fields are taken apart by one pattern, the variants by "
                       "one match) - a `let f = self.f` per field rebinds names one after the other, and a field called `self` then stands "
                       "for the receiver in every later read")
    DER = "crates/compiler/src/derive.rs"
    n = 0
    for f in model.fns(DER):
        if f.body is None:
            continue
        par = None
        k_ = 0
        for c in S.walk(f.body):
            if c["k"] != "Call" or S.callee_name(c) != "var_expr" or "SELF_PARAM_NAME" not in S.idents(c):
                continue
            if par is None:
                par = S.Parents(f.body)
            n += 1
            k_ += 1
            per = None
            for a in par.ancestors(c):
                if a["k"] == "For" and re.search(r"\.(fields|variants)\b", S.norm_ws(run.facts.text(DER, a["iter"]["sp"]))):
                    per = a
                if a["k"] == "Closure":
                    call = par.parent(a)
                    if call is not None and call["k"] == "MethodCall" and re.search(r"\.(fields|variants)\b", S.norm_ws(run.facts.text(DER, call["recv"]["sp"]))):
                        per = a
            run.ob("R18.15", f"{f.name}|receiver read #{k_} is outside the per-field iteration", per is None, site(DER, c["sp"]),
                   "read once for the whole body" if per is None else f"read once per element of the iteration at line {per['sp'][0]}",
                   witness="#[derive(ToJson)] struct Outer { self: Inner, n: int32 }: to_json renders Inner's n in place of Outer's n")
    run.floor("reads of the receiver in derive.rs", n, 3)


def run(run, model):
    # a derived to_json / to_string is an inherent method like any other: a second definition of the name is reported, never merged
    # silently with the generated one (shared with C17 R17.10)
    from rules import c17 as _c17d
    run.try_rule(_c17d.r17_10, model)
    run.try_rule(r18_1, model)
    run.try_rule(r18_2, model)
    run.try_rule(r18_3, model)
    run.try_rule(r18_4, model)
    run.try_rule(r18_5, model)
    run.try_rule(r18_6, model)
    run.try_rule(r18_7, model)
    run.try_rule(r18_8, model)
    run.try_rule(r18_10, model)
    run.try_rule(r18_11, model)
    run.try_rule(r18_12, model)
    run.try_rule(r18_13, model)
    run.try_rule(r18_14, model)
    run.try_rule(r18_15, model)
    run.try_rule(r18_16, model)
    # the leaves of both renderings go through the runtime's *_to_string helpers (shared with C10 R10.4)
    from rules import c10 as _c10
    run.try_rule(_c10.r10_4, model)
    from rules import c05
    run.rule("R18.9", "binders of generated code are distinct variables (shared with C05 R05.6: every binder id is fresh, never interned by syntax pointer)")
    run.try_rule(c05.r05_6, model)
    # the derives bind the fields with a struct pattern `Name { f: f }`: it names the struct even when a variant has that name
    # (shared with C06 R06.16)
    from rules import c06 as _c06b
    run.try_rule(_c06b.r06_16, model)
    run.assume("numeric leaves go through *_to_string, whose verbs are checked by C10 R10.4")
