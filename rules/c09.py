"""C09 Evaluation order and effects: left to right, exactly once, short-circuit."""
import re
from lib import syn as S
from lib.core import AnalysisIncomplete, site
from rules.c05 import big_match, arms_by_variant

EXPLANATION = (
    "Static decision of where evaluation order is fixed. R09.1: in the ANF pass, for every expression form with several "
    "evaluated children the call that names child i+1 lies inside the continuation of the call that names child i (children in "
    "the declaration order of the Lift IR variant: callee before arguments, lhs before rhs, receiver before arguments), and "
    "anf_list names head before tail and reassembles head-first. R09.2: the right operand of a logical operator is never "
    "passed to a hoisting function unless the arm discriminates And/Or (or an earlier pass rewrote them). R09.3: branches and loop "
    "parts are normalised with their own terminal continuation (never hoisted), and in the Go back end every statement computed from "
    "a while condition flows into the loop body, before the break test and before the body. R09.4: DCE's effect predicates have "
    "no catch-all and answer true for every Go expression form that can act or fail (call, index, integer division). R09.5: `go` "
    "emits exactly one Go statement and DCE keeps it. Goroutine interleavings and exact-once evaluation of temporaries are not decided.")

ANF = "crates/compiler/src/anf.rs"
GOC = "crates/compiler/src/go/compile.rs"
DCE = "crates/compiler/src/go/dce.rs"
HOIST = {"anf_imm", "anf_list", "anf"}


def child_fields(variant):
    """(name, kind) for expression-typed fields of a Lift IR variant, in declaration order"""
    out = []
    for f in variant["fields"]:
        t = f["ty"].replace(" ", "")
        if re.fullmatch(r"Box<(LiftExpr|Expr)>", t):
            out.append((f["name"], "one"))
        elif re.fullmatch(r"Vec<(LiftExpr|Expr)>", t):
            out.append((f["name"], "many"))
        elif re.fullmatch(r"Option<Box<(LiftExpr|Expr)>>", t):
            out.append((f["name"], "opt"))
        elif re.fullmatch(r"Vec<Arm>", t):
            out.append((f["name"], "arms"))
    return out


def is_terminal_closure(c):
    """|c| AExpr::ACExpr { expr: c } : a fresh continuation that does not use the outer k"""
    return c["k"] == "Closure" and "k" not in S.idents(c["body"])


def hoist_calls(body):
    out = []
    for c in S.walk(body):
        # free function `anf(env, gensym, e, k)` or method `ctx.anf(e, k)`: the continuation is the last argument, the child the one before
        if c["k"] in ("Call", "MethodCall") and S.callee_name(c) in HOIST and len(c["args"]) >= 2:
            out.append(c)
    return out


def subject(call, aliases):
    """which child binding the hoisting call normalises (3rd argument)"""
    ids = S.idents(call["args"][-2])
    out = set()
    for i in ids:
        out.add(aliases.get(i, i))
    return out


def cont_closure(call):
    a = call["args"][-1]
    for n in S.walk(a):
        if n["k"] == "Closure":
            return n
    return None


def r09_1(run, model):
    run.rule("R09.1", "ANF names sub-expressions in source order: the call normalising child i+1 is nested in the continuation of the "
                      "call normalising child i (children in declaration order of the IR variant); anf_list is head-before-tail")
    f = model.fn("anf", ANF)
    m = big_match(f, "LiftExpr")
    if m is None:
        raise AnalysisIncomplete("anf: match over LiftExpr not found")
    lift = model.enum("Expr", "crates/compiler/src/lift.rs") if any(e["name"] == "Expr" and e["file"].endswith("lift.rs") for e in model.enums()) else model.enum("LiftExpr")
    variants = {v["name"]: v for v in lift["variants"]}
    arms = arms_by_variant(m, "LiftExpr")
    n = 0
    for vname, alist in sorted(arms.items()):
        v = variants.get(vname)
        if v is None:
            continue
        kids = [k for k in child_fields(v) if k[1] in ("one", "many")]
        if len(kids) < 2:
            continue
        for arm in alist:
            # aliases: let x_mono = *x;
            aliases = {}
            for l in S.find(arm["body"], "Local"):
                if l["pat"]["k"] == "PIdent" and l.get("init"):
                    ids = S.idents(l["init"])
                    for k, _ in kids:
                        if k in ids:
                            aliases[l["pat"]["name"]] = k
            calls = hoist_calls(arm["body"])
            by_child = {}
            for c in calls:
                for s in subject(c, aliases):
                    if s in dict(kids):
                        by_child.setdefault(s, c)
            hoisted = [(k, by_child[k]) for k, _ in kids if k in by_child and not is_terminal_closure(cont_closure(by_child[k]) or {"k": ""})]
            for (k1, c1), (k2, c2) in zip(hoisted, hoisted[1:]):
                n += 1
                cl = cont_closure(c1)
                ok = cl is not None and S.span_contains(cl["sp"], c2["sp"])
                run.ob("R09.1", f"anf|{vname}|{k1} before {k2}", ok, site(ANF, c2["sp"]),
                       f"{S.callee_name(c2)}({k2}) is {'inside' if ok else 'NOT inside'} the continuation of {S.callee_name(c1)}({k1})",
                       witness=f"with effects in both, `{k2}` is evaluated before `{k1}` (e.g. pick(\"callee\")(noisy(\"arg\")) prints arg first)")
    # anf_list
    g = model.fn("anf_list", ANF)
    calls = hoist_calls(g.body)
    head = [c for c in calls if S.callee_name(c) == "anf_imm"]
    tail = [c for c in calls if S.callee_name(c) == "anf_list"]
    ok = bool(head) and bool(tail) and cont_closure(head[0]) is not None and S.span_contains(cont_closure(head[0])["sp"], tail[0]["sp"])
    n += 1
    run.ob("R09.1", "anf_list|head before tail", ok, site(ANF, g.node["sp"]),
           "anf_imm(head) encloses anf_list(tail)" if ok else "tail is normalised outside the continuation of head",
           witness="arguments are evaluated right to left")
    hd = S.norm_ws(run.facts.text(ANF, g.body["sp"]))
    # the list is taken apart from the front: first element / rest, by index, by split_first, or by next() on an owning iterator that is handed on
    lp = next((p_["pat"].get("name") for p_ in g.params() if not p_["self"] and "LiftExpr" in (p_["ty"] or "")), None)
    meths = {c["method"] for c in S.walk(g.body) if c["k"] == "MethodCall" and lp in S.idents(c["recv"])}
    backwards = meths & {"last", "pop", "next_back", "rev", "split_last", "rsplit", "swap_remove"}
    by_index = any(x["k"] == "Index" and S.is_path(x.get("base", x.get("expr", {})), lp) and x["index"]["k"] == "Lit" and str(x["index"].get("value")) == "0" for x in S.walk(g.body)) and \
        any(x["k"] == "Index" and x["index"]["k"] == "Range" for x in S.walk(g.body))
    by_iter = "next" in meths and any(S.is_path(a, lp) for c in tail for a in c["args"])
    idx_ok = lp is not None and not backwards and (by_index or "split_first" in meths or by_iter or ("es[0]" in hd and "es[1..]" in hd))
    reasm = re.search(r"\.insert\(0,([a-z_]+)\)", hd)
    ok2 = idx_ok and reasm is not None
    run.ob("R09.1", "anf_list|reassembled head-first", ok2, site(ANF, g.node["sp"]),
           f"head = es[0], tail = es[1..], result rebuilt with insert(0, head)" if ok2 else "head/tail split or reassembly not recognised",
           witness="argument values are passed in permuted positions")
    run.floor("ordered child pairs in anf", n, 5)


def r09_2(run, model):
    run.rule("R09.2", "the right operand of && / || is not hoisted: where EBinary's rhs is passed to anf_imm/anf_list the arm "
                      "discriminates on And/Or (or an earlier pass rewrote logical operators into conditionals)")
    f = model.fn("anf", ANF)
    m = big_match(f, "LiftExpr")
    arms = arms_by_variant(m, "LiftExpr").get("EBinary", [])
    if not arms:
        raise AnalysisIncomplete("anf: EBinary arm not found")
    # does any pass before ANF rewrite And/Or away?
    rewritten = False
    for rel in ("crates/compiler/src/compile_match.rs", "crates/compiler/src/mono.rs", "crates/compiler/src/lift.rs", ANF):
        for fn_ in model.fns(rel):
            if fn_.body is None:
                continue
            for mm in S.find(fn_.body, "Match"):
                for arm in mm["arms"]:
                    ptxt = S.norm_ws(run.facts.text(rel, arm["pat"]["sp"]))
                    gtxt = S.norm_ws(run.facts.text(rel, arm["guard"]["sp"])) if arm.get("guard") else ""
                    if re.search(r"BinaryOp::(And|Or)\b", ptxt + gtxt):
                        rewritten = True
            for iff in S.find(fn_.body, "If"):
                if re.search(r"BinaryOp::(And|Or)\b", S.norm_ws(run.facts.text(rel, iff["cond"]["sp"]))):
                    rewritten = True
            for mac in S.find(fn_.body, "Macro"):
                if mac["name"] == "matches" and re.search(r"BinaryOp::(And|Or)\b", mac.get("tokens", "")):
                    rewritten = True
    for arm in arms:
        hoists_rhs = any("rhs" in S.idents(c["args"][2]) for c in hoist_calls(arm["body"]) if S.callee_name(c) in ("anf_imm", "anf_list"))
        ok = (not hoists_rhs) or rewritten
        run.ob("R09.2", "anf|EBinary|rhs of logical operators", ok, site(ANF, arm["sp"]),
               ("rhs is hoisted by anf_imm for every operator and no pass discriminates BinaryOp::And/Or before the Go back end"
                if not ok else "logical operators are handled before/inside the hoisting arm"),
               witness="`noisy(false) && noisy(true)` evaluates both calls; `i < n && array_get(a, i) > 0` fails at i == n")


def r09_3(run, model):
    run.rule("R09.3", "branches and loop parts keep their own control region: if/match branches and while cond/body are normalised with a "
                      "fresh terminal continuation (never through anf_imm/anf_list), and in compile_while everything computed from the "
                      "condition is placed in the loop body, before the break test, which precedes the body")
    f = model.fn("anf", ANF)
    m = big_match(f, "LiftExpr")
    arms = arms_by_variant(m, "LiftExpr")
    spec = {"EIf": ["then_branch", "else_branch"], "EWhile": ["cond", "body"]}
    for vname, kids in spec.items():
        for arm in arms.get(vname, []):
            aliases = {}
            for l in S.find(arm["body"], "Local"):
                if l["pat"]["k"] == "PIdent" and l.get("init"):
                    for k in kids:
                        if k in S.idents(l["init"]):
                            aliases[l["pat"]["name"]] = k
            for c in hoist_calls(arm["body"]):
                subj = subject(c, aliases) & set(kids)
                for k in sorted(subj):
                    term = is_terminal_closure(cont_closure(c) or {"k": ""}) and S.callee_name(c) == "anf"
                    run.ob("R09.3", f"anf|{vname}|{k} self-contained", term, site(ANF, c["sp"]),
                           f"{k} is normalised by {S.callee_name(c)} with {'a fresh terminal' if term else 'the enclosing'} continuation",
                           witness=f"code of `{k}` is hoisted out of its branch/loop and runs unconditionally or once")
    if "EIf" not in arms or "EWhile" not in arms:
        raise AnalysisIncomplete("anf: EIf/EWhile arms not found")
    # match arms
    g = model.fn("compile_match_arms_to_anf", ANF)
    bad = [c for c in hoist_calls(g.body) if S.callee_name(c) in ("anf_imm", "anf_list")]
    run.ob("R09.3", "compile_match_arms_to_anf|arm bodies self-contained", not bad, site(ANF, g.node["sp"]),
           f"{len(hoist_calls(g.body))} anf calls on arm bodies, {len(bad)} through hoisting functions")
    # compile_while
    w = model.fn("compile_while", GOC)
    ps = [p for p in w.params() if "AExpr" in (p["ty"] or "")]
    if len(ps) != 2:
        raise AnalysisIncomplete("compile_while: expected (cond, body) AExpr parameters")
    cond, body = ps[0]["pat"]["name"], ps[1]["pat"]["name"]
    # the vec that becomes the Loop body
    loop_vec = None
    for st in S.find(w.body, "Struct"):
        if st["segs"][-1] == "Loop":
            for fl in st["fields"]:
                ids = S.idents(fl["expr"])
                loop_vec = next(iter(ids & {l["pat"]["name"] for l in S.find(w.body, "Local") if l["pat"]["k"] == "PIdent"}), None) or loop_vec
    if loop_vec is None:
        run.ob("R09.3", "compile_while|Stmt::Loop built", False, site(GOC, w.node["sp"]), "no Stmt::Loop with a local body vector")
        return
    events = []  # (position, what) for things appended to loop_vec; and any other sink of cond-derived statements
    leaks = []
    for l in S.find(w.body, "Local"):
        if l.get("init") is None:
            continue
        uses_cond = cond in S.idents(l["init"]) and any(True for _ in S.calls(l["init"]))
        if l["pat"]["k"] == "PIdent" and uses_cond and any(S.callee_name(c) not in ("get_ty", "clone") for c in S.calls(l["init"]) if cond in S.idents(c)):
            if l["pat"]["name"] == loop_vec:
                events.append((l["sp"], "cond"))
            else:
                calls_ = [S.callee_name(c) for c in S.calls(l["init"]) if cond in S.idents(c) and S.callee_name(c) not in ("get_ty", "clone")]
                if calls_:
                    leaks.append((l["pat"]["name"], calls_, l["sp"]))
    for c in S.walk(w.body):
        if c["k"] == "MethodCall" and c["method"] in ("push", "extend", "append", "insert") and S.is_path(c["recv"]):
            tgt = c["recv"]["segs"][0]
            ids = set()
            for a in c["args"]:
                ids |= S.idents(a)
            txt = S.norm_ws(run.facts.text(GOC, c["sp"]))
            what = None
            if cond in ids and any(True for a in c["args"] for _ in S.calls(a)):
                what = "cond"
            elif body in ids:
                what = "body"
            elif "Break" in txt:
                what = "break-test"
            if what is None:
                continue
            if tgt == loop_vec:
                events.append((c["sp"], what))
            elif what == "cond":
                leaks.append((tgt, [c["method"]], c["sp"]))
    # statements derived from a leaked local flowing somewhere else than the loop body
    real_leaks = []
    for name, calls_, sp in leaks:
        if name == loop_vec:
            continue
        real_leaks.append((name, calls_, sp))
    run.ob("R09.3", "compile_while|condition code only in the loop body", not real_leaks, site(GOC, w.node["sp"]),
           f"statements computed from `{cond}` flow into {'`' + loop_vec + '` only' if not real_leaks else 'another sink: ' + str([(n, c) for n, c, _ in real_leaks])}",
           witness="`while advance(counter, limit) { … }` evaluates the condition once, outside the Go for-loop")
    events.sort(key=lambda e: (e[0][0], e[0][1]))
    order = [e[1] for e in events]
    ok = "cond" in order and "break-test" in order and "body" in order and order.index("cond") < order.index("break-test") < order.index("body") and order.count("cond") == 1
    run.ob("R09.3", "compile_while|cond ; if !cond break ; body", ok, site(GOC, w.node["sp"]), f"loop body is assembled as {order}",
           witness="the body runs before the condition is tested / the condition is not re-evaluated per iteration")


def r09_4(run, model):
    run.rule("R09.4", "DCE's effect predicates are total (no catch-all arm) and answer true for every Go expression form that can act or "
                      "fail at run time (Call, Index, BinaryOp that may divide); statements that act are true")
    e = model.fn("expr_has_side_effects", DCE)
    s_ = model.fn("stmt_has_side_effects", DCE)
    goexpr = model.enum("Expr", "crates/compiler/src/go/goast.rs")
    gostmt = model.enum("Stmt", "crates/compiler/src/go/goast.rs")
    for fn_, en, ename in ((e, goexpr, "Expr"), (s_, gostmt, "Stmt")):
        m = big_match(fn_, ename)
        if m is None:
            raise AnalysisIncomplete(f"{fn_.name}: match over goast::{ename} not found")
        covered = arms_by_variant(m, ename)
        catch = [a for a in m["arms"] if S.pat_head(S.pat_alts(a["pat"])[0])[0] == "any"]
        run.ob("R09.4", f"{fn_.name}|no catch-all", not catch, site(DCE, fn_.node["sp"]), f"{len(covered)} of {len(en['variants'])} variants have explicit arms; catch-all arms: {len(catch)}",
               witness="a new Go AST form silently counts as pure (or as effectful) without anyone deciding")
        missing = [v["name"] for v in en["variants"] if v["name"] not in covered]
        run.ob("R09.4", f"{fn_.name}|every variant decided", not missing or bool(catch), site(DCE, fn_.node["sp"]), f"variants without an arm: {missing}")
        must_true = {"Expr": ["Call", "Index"], "Stmt": ["Go", "IndexAssign", "PointerAssign", "FieldAssign"]}[ename]
        for v in must_true:
            if v not in covered:
                continue
            for arm in covered[v]:
                b = arm["body"]
                is_true = b["k"] == "Lit" and b.get("value") == "true"
                run.ob("R09.4", f"{fn_.name}|{v} is an effect", is_true, site(DCE, arm["sp"]),
                       f"{ename}::{v} => {S.norm_ws(run.facts.text(DCE, b['sp']))[:60]}",
                       witness={"Index": "`let _ = array_get(a, 10);` on a 3-element array: the out-of-range failure disappears"}.get(v, f"a dead `{v}` is removed together with its effect"))
        if ename == "Expr" and "BinaryOp" in covered:
            arms_b = covered["BinaryOp"]
            def _div_true(arm):
                pt_ = S.norm_ws(run.facts.text(DCE, arm["pat"]["sp"]))
                is_true = arm["body"]["k"] == "Lit" and arm["body"].get("value") == "true"
                body_div = re.search(r"\b(Div|Rem|Mod|Quo)\b", S.norm_ws(run.facts.text(DCE, arm["body"]["sp"]))) is not None
                return (is_true and (re.search(r"\b(Div|Rem|Mod|Quo)\b", pt_) is not None or "op" not in pt_)) or body_div
            # arms are tried in order: the first arm that can match a division must answer true for it
            first = arms_b[0]
            ok = _div_true(first)
            run.ob("R09.4", f"{fn_.name}|dividing BinaryOp is an effect", ok, site(DCE, first["sp"]),
                   "BinaryOp is pure whenever its operands are; integer division by zero fails at run time in Go" if not ok else "division is treated as effectful",
                   witness="`let _ = a / zero;` no longer fails at run time")
    # removal sites re-emit effectful initialisers
    d = model.fn("dce_block_with_live", DCE)
    uses = [c for c in S.calls(d.body, "expr_has_side_effects")]
    run.ob("R09.4", "dce_block_with_live|dead initialisers are tested for effects", len(uses) >= 2, site(DCE, d.node["sp"]),
           f"{len(uses)} uses of expr_has_side_effects at removal sites")


def r09_5(run, model):
    run.rule("R09.5", "`go e` becomes exactly one Go statement and DCE never removes it")
    g = model.fn("compile_go", GOC)
    gos = [st for st in S.find(g.body, "Struct") if st["segs"][-1] == "Go" and "Stmt" in st["segs"]]
    run.ob("R09.5", "compile_go|one Stmt::Go", len(gos) == 1, site(GOC, g.node["sp"]), f"{len(gos)} Stmt::Go constructions")
    # `go` is never compiled as a value: the expression compiler refuses it, so every position has to go through compile_go
    ce = model.fn("compile_cexpr", GOC)
    mm = big_match(ce, "CExpr")
    go_arms = arms_by_variant(mm, "CExpr").get("EGo", []) if mm else []
    if not go_arms:
        raise AnalysisIncomplete("compile_cexpr: no arm for EGo")
    for a in go_arms:
        div = a["body"]["k"] == "Macro" and a["body"]["name"] in ("panic", "unreachable") or \
            (a["body"]["k"] == "Block" and len(a["body"]["stmts"]) == 1 and any(x["k"] == "Macro" and x["name"] in ("panic", "unreachable") for x in S.walk(a["body"])))
        run.ob("R09.5", "compile_cexpr|`go` is not an expression", div, site(GOC, a["sp"]),
               "the EGo arm of the expression compiler diverges" if div else "the EGo arm returns a Go expression: `go e` in value position becomes a synchronous call",
               witness="fn spawn() -> unit { go || work() } (go as the tail expression): emitted `ret = apply(env)` instead of `go apply(env)`; no goroutine starts")
    sites_go = sum(1 for f_ in model.fns(GOC) if f_.body is not None and f_.name != "compile_go" for _ in S.calls(f_.body, "compile_go"))
    run.ob("R09.5", "go/compile.rs|statement positions call compile_go", sites_go >= 2, site(GOC, None), f"{sites_go} call sites of compile_go (effect position and assignment position)")
    d = model.fn("dce_block_with_live", DCE)
    m = big_match(d, "Stmt")
    arms = arms_by_variant(m, "Stmt").get("Go", []) if m else []
    ok = bool(arms) and all(any(st["segs"][-1] == "Go" for st in S.find(a["body"], "Struct")) and any(True for _ in S.calls(a["body"], "push")) for a in arms)
    run.ob("R09.5", "dce_block_with_live|Stmt::Go kept", ok, site(DCE, d.node["sp"]), "the Go arm re-emits the statement unconditionally" if ok else "the Go arm may drop the statement")
    for arm in arms:
        cond = [n for n in S.walk(arm["body"]) if n["k"] in ("If", "Match")]
        run.ob("R09.5", "dce_block_with_live|Stmt::Go unconditional", not cond, site(DCE, arm["sp"]), f"{len(cond)} conditionals in the Go arm")


EFFECT_FORMS = ("ECall", "EDynCall", "EGo")  # CExpr forms that run user code when evaluated for their effect only


def r09_6(run, model):
    run.rule("R09.6", "an expression evaluated only for its effect still runs: compile_cexpr_effect decides every CExpr form explicitly (no "
                      "catch-all) and the arms that emit nothing name no call form (ECall, EDynCall, EGo)")
    f = model.fn("compile_cexpr_effect", GOC)
    m = big_match(f, "CExpr")
    if m is None:
        raise AnalysisIncomplete("compile_cexpr_effect: no match over CExpr")
    cexpr = model.enum("CExpr", ANF)
    allv = [v["name"] for v in cexpr["variants"]]
    for form in EFFECT_FORMS:
        if form not in allv:
            raise AnalysisIncomplete(f"anf::CExpr has no variant {form}")
    by = arms_by_variant(m, "CExpr")
    catch = [a for a in m["arms"] if S.pat_head(S.pat_alts(a["pat"])[0])[0] == "any" and a.get("guard") is None]
    missing = [v for v in allv if v not in by]
    run.ob("R09.6", "compile_cexpr_effect|every form decided explicitly", not (catch and missing), site(GOC, m["sp"]),
           f"forms reaching a catch-all: {missing or 'none'}",
           witness="a dyn-trait method call in tail position of a while body is not emitted: the loop body's effect is lost")
    for form in EFFECT_FORMS:
        arms = by.get(form, [])
        emits = bool(arms) and all(not (a["body"]["k"] in ("Call", "MethodCall") and S.norm_ws(run.facts.text(GOC, a["body"]["sp"])) == "Vec::new()") and
                                   (any(True for _ in S.calls(a["body"], "compile_cexpr", "compile_go")) or a["body"]["k"] == "Macro" and a["body"]["name"] == "panic")
                                   for a in arms)
        run.ob("R09.6", f"compile_cexpr_effect|{form} emits a statement", emits, site(GOC, arms[0]["sp"] if arms else m["sp"]),
               f"{form}: {'compiled into a statement' if emits else 'no statement emitted'}")


def r09_8(run, model):
    run.rule("R09.8", "lowering to Core never selects a component of an unevaluated aggregate: an arm of compile_expr that inspects the "
                      "*constructor* of a child (`if let ETuple/EArray/EConstr { items, .. } = child`) does not pick one element by index "
                      "(`.get(i)`, `[i]`, `.nth(i)`) and return its lowering - the sibling elements and their effects would never run")
    CM = "crates/compiler/src/compile_match.rs"
    f = model.fn("compile_expr", CM)
    n = 0
    for m in S.find(f.body, "Match"):
        for arm in m["arms"]:
            n += 1
            picks = []
            for x in S.walk(arm["body"]):
                if x["k"] == "Let" or (x["k"] == "Local" and x.get("else") is not None) or x["k"] == "Match":
                    pt = x.get("pat")
                    if pt is None:
                        continue
                    ptxt = S.norm_ws(run.facts.text(CM, pt["sp"]))
                    if re.match(r"(tast::Expr::)?(ETuple|EArray|EConstr)\{", ptxt):
                        coll = set(S.pat_bindings(pt))
                        for y in S.walk(arm["body"]):
                            if y["k"] == "MethodCall" and y["method"] in ("get", "nth", "swap_remove", "remove", "first", "last") and (S.idents(y["recv"]) & coll):
                                picks.append(f"{y['method']} on {sorted(S.idents(y['recv']) & coll)[0]}")
                            if y["k"] == "Index" and (S.idents(y["base"]) & coll):
                                picks.append("index")
            if picks:
                vt = S.norm_ws(run.facts.text(CM, arm["pat"]["sp"]))[:30]
                run.ob("R09.8", f"compile_expr|{vt} lowers its children whole", False, site(CM, arm["sp"]),
                       f"selects one element of a literal child: {sorted(set(picks))}",
                       witness="(a0(), a1()).0 lowers to a0() only: a1() is never called")
        break
    run.ob("R09.8", "compile_expr|no element selection from literal children", True, site(CM, f.node["sp"]), f"{n} arms inspected")
    run.floor("arms of compile_expr", n, 15)


def r09_9(run, model):
    run.rule("R09.9", "field initialisers of a struct literal run in the order they are written: the typer reorders them into declaration "
                      "order for the positional constructor, so source order has to be re-established by binding them first (a let per "
                      "initialiser) - or the constructor arguments must stay in source order")
    CHECK = "crates/compiler/src/typer/check.rs"
    BUILD = "crates/compiler/src/typer/tast_builder.rs"
    f = model.fn("infer_struct_literal_expr", CHECK, impl="Typer")
    txt = S.norm_ws(run.facts.text(CHECK, f.body["sp"]))
    reorders = "ordered_args" in txt or "field_positions" in txt
    # does any stage bind the initialisers in source order?  (typer result or the TAST builder's struct-literal arm)
    rebinds = "ELet" in txt
    for g in model.fns(BUILD):
        if g.body is None:
            continue
        for m in S.find(g.body, "Match"):
            for arm in m["arms"]:
                if "EStructLiteral" in S.norm_ws(run.facts.text(BUILD, arm["pat"]["sp"])) and "ELet" in S.norm_ws(run.facts.text(BUILD, arm["body"]["sp"])):
                    rebinds = True
    ok = (not reorders) or rebinds
    run.ob("R09.9", "struct literal|initialisers evaluated in source order", ok, site(CHECK, f.node["sp"]),
           f"arguments reordered to declaration order: {reorders}; initialisers bound in source order first: {rebinds}",
           witness="struct Point { x, y }: Point { y: f(), x: g() } emits `t3 = g(); t4 = f()` - g runs before f")


def r09_10(run, model):
    run.rule("R09.10", "a chain of lets that is built by wrapping keeps source order: where a pass folds a collection into nested "
                       "`let x_i = e_i in <acc>` (the accumulator becomes the body of each new let), the last element wrapped ends up "
                       "outermost and is evaluated first - so the collection is walked in reverse")
    n = 0
    for rel in model.src_files():
        if not rel.startswith("crates/compiler/src/") or "/tests/" in rel or "/pprint/" in rel:
            continue
        for f in model.fns(rel):
            if f.body is None:
                continue
            k = 0
            # (a) for x in ITER { acc = Let { .., body: Box::new(acc) } }
            par = None
            for loop in S.find(f.body, "For"):
                for asg in S.walk(loop["body"]):
                    if asg["k"] != "Assign" or asg["left"]["k"] != "Path" or len(asg["left"]["segs"]) != 1:
                        continue
                    if par is None:
                        par = S.Parents(f.body)
                    nearest = next((a for a in par.ancestors(asg) if a["k"] in ("For", "While", "Loop")), None)
                    if nearest is not loop:
                        continue
                    acc = asg["left"]["segs"][0]
                    lets = [st for st in S.walk(asg["right"]) if st["k"] == "Struct" and st["segs"][-1] in ("ELet", "ALet")
                            and any(fl["name"] == "body" and acc in S.idents(fl["expr"]) for fl in st["fields"])]
                    if not lets:
                        continue
                    n += 1
                    k += 1
                    it = S.norm_ws(run.facts.text(rel, loop["iter"]["sp"]))
                    ok = ".rev()" in it
                    run.ob("R09.10", f"{f.name}|let chain #{k} wraps in reverse order", ok, site(rel, loop["sp"]), f"for … in {it[:70]}",
                           witness="match (tick(\"first\"), tick(\"second\")) { (a, b) => .. }: the component lets are wrapped front to back, `second` is "
                                   "the outermost let and runs first")
            # (b) ITER.fold(init, |acc, x| Let { .., body: Box::new(acc) })
            for c in S.walk(f.body):
                if c["k"] != "MethodCall" or c["method"] != "fold" or len(c["args"]) < 2 or c["args"][1]["k"] != "Closure":
                    continue
                cl = c["args"][1]
                if not cl["inputs"]:
                    continue
                accs = S.pat_bindings(cl["inputs"][0])
                if not accs:
                    continue
                lets = [st for st in S.walk(cl["body"]) if st["k"] == "Struct" and st["segs"][-1] in ("ELet", "ALet")
                        and any(fl["name"] == "body" and accs[0] in S.idents(fl["expr"]) for fl in st["fields"])]
                if not lets:
                    continue
                n += 1
                k += 1
                it = S.norm_ws(run.facts.text(rel, c["recv"]["sp"]))
                ok = ".rev()" in it
                run.ob("R09.10", f"{f.name}|let chain #{k} wraps in reverse order", ok, site(rel, c["sp"]), f"{it[:70]}.fold(..)")
    run.floor("let chains built by wrapping", n, 1)


def r09_11(run, model):
    run.rule("R09.11", "sub-terms keep their names while they are ordered: in anf.rs no `let` inside a match arm re-binds a name that the arm's "
                       "pattern bound to a sub-term (lhs, rhs, args, …) - the evaluation-order clauses R09.1/R09.3 follow those names, and a "
                       "swap hidden behind a re-binding (`let (op, lhs, rhs) = (.., rhs, lhs)`) would reorder effects unseen")
    ANF = "crates/compiler/src/anf.rs"
    n = 0
    for f in model.fns(ANF):
        if f.body is None:
            continue
        for m in S.find(f.body, "Match"):
            for arm in m["arms"]:
                bound = set(S.pat_bindings(arm["pat"]))
                if not bound:
                    continue
                n += 1
                for l in S.find(arm["body"], "Local"):
                    re_ = bound & set(S.pat_bindings(l["pat"]))
                    if not re_ or l.get("init") is None:
                        continue
                    # harmless: `let x = *x;` / `let x = x.clone();` style re-bindings of the same thing
                    init_ids = S.idents(l["init"])
                    same = len(re_) == 1 and l["pat"]["k"] == "PIdent" and init_ids & bound == re_
                    head = re.sub(r"\{.*", "", S.norm_ws(run.facts.text(ANF, arm["pat"]["sp"])))
                    run.ob("R09.11", f"{f.name}|{head}: sub-term names {sorted(re_)} are not re-bound", same, site(ANF, l["sp"]),
                           f"let {S.norm_ws(run.facts.text(ANF, l['pat']['sp']))[:40]} = {S.norm_ws(run.facts.text(ANF, l['init']['sp']))[:60]}",
                           witness="tick(\"gt-left\", 1) > tick(\"gt-right\", 2) prints gt-right first: `a > b` was turned into `b < a` before the operands were named")
    run.ob("R09.11", "anf.rs|arms examined for re-bound sub-terms", True, site(ANF, None), f"{n} arms with bound sub-terms")
    run.floor("arms of anf.rs that bind sub-terms", n, 15)


NONCONSUMING = {"get_ty", "len", "iter", "is_empty", "first", "last", "as_ref", "as_str", "get", "contains", "iter_mut", "as_slice"}


def r09_12(run, model):
    run.rule("R09.12", "an arm that leaves early takes its translated sub-terms along: in every arm of a rewriting pass, each sub-term the arm "
                       "has already translated (a local bound from a call of the traversal) is moved into a value before every `return` that "
                       "follows it - a sub-term only looked at through `&` on that path is dropped together with its effects - unless the "
                       "path has established that it is a variable or an empty list")
    from lib import passes as P
    trs = P.discover(model, min_cover=5, include_pprint=False)

    def by_value_uses(node, name, par):
        out = []
        for x in S.walk(node):
            if x["k"] == "Path" and len(x["segs"]) == 1 and x["segs"][0] == name:
                p_ = par.parent(x)
                if p_ is not None and (p_["k"] in ("Ref", "Field", "Index") or (p_["k"] == "MethodCall" and p_["recv"] is x and p_["method"] in NONCONSUMING)):
                    continue
                out.append(x)
        return out
    n = 0
    for t in trs:
        if t.enum_name == "Ty":
            continue
        ret = (t.fn.node.get("ret") or "")
        if not any(re.search(r"(?<![A-Za-z0-9_])" + en + r"(?![A-Za-z0-9_])", ret) for en in P.IR_ENUMS | {"ExprId"}):
            continue
        for vname, lst in sorted(t.covered.items()):
            for arm, alt in lst:
                rets = [r for r in S.walk_no_closures(arm["body"]) if r["k"] == "Return"]
                if not rets:
                    continue
                par = S.Parents(arm["body"])
                rec = [l for l in S.find(arm["body"], "Local") if l.get("init") is not None and l["pat"]["k"] == "PIdent" and
                       any(True for _ in S.calls(l["init"], t.fn.name))]
                for ri, r in enumerate(rets, 1):
                    anc = list(par.ancestors(r))
                    blocks = [a for a in anc if a["k"] == "Block"]
                    for l in rec:
                        if not any(any(st is l for st in b["stmts"]) for b in blocks) or (l["sp"][0], l["sp"][1]) > (r["sp"][0], r["sp"][1]):
                            continue
                        nm = l["pat"]["name"]
                        n += 1
                        uses = by_value_uses(r, nm, par)
                        for b in blocks:
                            for st in b["stmts"]:
                                if (st["sp"][2], st["sp"][3]) <= (r["sp"][0], r["sp"][1]) and (st["sp"][0], st["sp"][1]) > (l["sp"][2], l["sp"][3]):
                                    uses += by_value_uses(st, nm, par)
                        why = "moved into a value on this path" if uses else "only looked at by reference before this return"
                        ok = bool(uses)
                        if not ok:
                            for iff in (a for a in anc if a["k"] == "If" and S.span_contains(a["then"]["sp"], r["sp"])):
                                for c in S.walk(iff["cond"]):
                                    if c["k"] == "MethodCall" and c["method"] == "is_empty" and S.is_path(c["recv"], nm):
                                        ok, why = True, f"the path has tested `{nm}.is_empty()`"
                                    if c["k"] == "Let" and nm in S.idents(c["expr"]) and len(S.idents(c["expr"])) == 1:
                                        h = S.pat_head(c["pat"])
                                        if h[0] == "variant" and len(h[1]) >= 2:
                                            try:
                                                ed = model.resolve_enum(t.fn.file, h[1][-2], [h[1][-1]])
                                            except Exception:
                                                ed = None
                                            v = next((v for v in (ed or {}).get("variants", []) if v["name"] == h[1][-1]), None)
                                            if v is not None and not P.child_fields(v, ed["name"], extra=("ImmExpr", "AExpr", "CExpr", "Expr")):
                                                ok, why = True, f"the path has matched `{nm}` against {h[1][-2]}::{h[1][-1]}, a form without sub-terms"
                        run.ob("R09.12", f"{t.fn.name}|{vname}: `{nm}` survives return #{ri}", ok, site(t.fn.file, r["sp"]), why,
                               witness="next(counter, \"left\") * 0 becomes the literal 0: an algebraic shortcut taken after the operands were translated "
                                       "returns without them; the call and its output vanish")
    run.floor("(early return, translated sub-term) pairs examined", n, 10)


def r09_13(run, model):
    run.rule("R09.13", "only the selected branch runs in the emitted Go: where a sibling lowering of the back end (effect / assign / return) "
                       "lowers the branches of an `if`, the statements of a branch are used nowhere but inside the corresponding block of the "
                       "one `goast::Stmt::If` it builds - hoisting the else branch in front of the test (`x = b; if c { x = a }`) runs it "
                       "unconditionally and first")
    GO = "crates/compiler/src/go/compile.rs"
    sib = [f for f in model.fns(GO) if f.body is not None and re.fullmatch(r"compile_aexpr(_\w+)?", f.name) and
           any("AExpr" in (p["ty"] or "") for p in f.params() if not p["self"])]
    n = 0
    for f in sib:
        for m_ in S.find(f.body, "Match"):
            for arm in m_["arms"]:
                pt = S.norm_ws(run.facts.text(GO, arm["pat"]["sp"]))
                if not re.match(r"(anf::)?CExpr::EIf\{", pt):
                    continue
                par = S.Parents(arm["body"])
                branch_locals = {}
                for l in S.find(arm["body"], "Local"):
                    if l["pat"]["k"] == "PIdent" and l.get("init") is not None and (S.idents(l["init"]) & {"then", "else_"}) and \
                            any(True for _ in S.calls(l["init"], f.name)):
                        branch_locals[l["pat"]["name"]] = l
                if not branch_locals:
                    continue
                for nm, l in sorted(branch_locals.items()):
                    n += 1
                    stray = []
                    for x in S.walk(arm["body"]):
                        if x["k"] == "Path" and x["segs"] == [nm]:
                            anc = list(par.ancestors(x))
                            inside_if = any(a["k"] == "Struct" and a["segs"][-1] == "If" for a in anc)
                            inside_block = any(a["k"] == "Struct" and a["segs"][-1] == "Block" for a in anc)
                            holder = next((a for a in anc if a["k"] == "Local"), None)
                            via_block_local = holder is not None and holder is not l and holder["pat"]["k"] == "PIdent" and inside_block
                            if not (inside_if or via_block_local):
                                stray.append(x)
                    run.ob("R09.13", f"{f.name}|statements of `{nm}` stay inside their branch of the If", not stray, site(GO, (stray or [l])[0]["sp"]),
                           f"uses of `{nm}` outside goast::Stmt::If / goast::Block: {len(stray)}",
                           witness="let r = if c { eff(1) } else { eff(2) }: eff(2) runs every time and before eff(1)")
    run.floor("branch statement lists of the sibling lowerings", n, 6)


def r09_15(run, model):
    run.rule("R09.15", "the translation of a sub-term appears once in the output: in the term-to-term passes a local that holds the result of "
                       "translating a child (a call to a function of the pass that returns the pass's expression type) is moved into the result, "
                       "never cloned - a clone per use evaluates the child once per use; expected count zero, the locals examined are the coverage")
    from rules import c01 as _c01
    n = 0
    for file in _c01.FILTER_FREE_FILES:
        fns = [g for g in model.fns(file) if g.body is not None]
        exprret = {g.name for g in fns if re.fullmatch(r"(\w+::)*(Expr|MonoExpr|LiftExpr|AExpr|CExpr|ImmExpr)", (g.node.get("ret") or "").replace(" ", ""))}
        if not exprret:
            raise AnalysisIncomplete(f"{file}: no function returning the pass's expression type")
        for f in fns:
            for l in S.find(f.body, "Local"):
                if l.get("init") is None or l["init"]["k"] not in ("Call", "MethodCall") or S.callee_name(l["init"]) not in exprret:
                    continue
                names = set(S.pat_bindings(l["pat"]))
                n += 1
                for c in S.walk(f.body):
                    if c["k"] == "MethodCall" and c["method"] in ("clone", "cloned", "to_owned") and c["recv"]["k"] == "Path" and S.idents(c["recv"]) & names:
                        run.ob("R09.15", f"{f.name}|the translated `{S.callee_name(l['init'])}` result `{sorted(names)[0]}` is used once", False, site(file, c["sp"]),
                               "the translated child is cloned into the output",
                               witness="let (a, b) = (eff(1), eff(2)): the tuple expression is evaluated once per bound variable, `1 2 1 2` is printed")
    run.ob("R09.15", "no translated child is cloned in the term-to-term passes", True, site(_c01.FILTER_FREE_FILES[0], (1, 0, 1, 0)), f"{n} locals holding a translated child examined")
    run.floor("locals holding a translated child", n, 30)


def r09_16(run, model):
    run.rule("R09.16", "no statement of a block is left out when the block becomes a chain of lets: in the function of compile_match.rs that "
                       "splits a block into its first statement and the rest, every arm of the match on the first statement that goes on "
                       "with the rest also hands the statement (or the parts its pattern binds) to the translation - a statement judged "
                       "to `only name a value` and skipped takes the calls inside it along")
    CM = "crates/compiler/src/compile_match.rs"
    n = 0
    for f in model.fns(CM):
        if f.body is None:
            continue
        heads = {}
        for l in S.find(f.body, "Local"):
            if l.get("init") is None:
                continue
            t = S.norm_ws(run.facts.text(CM, l["init"]["sp"]))
            mm = re.fullmatch(r"&(\w+)\[0\]", t)
            if mm and l["pat"]["k"] == "PIdent":
                heads[l["pat"]["name"]] = mm.group(1)
            mm = re.fullmatch(r"(\w+)\.split_first\(\)", t)
            if mm and S.pat_bindings(l["pat"]):
                heads[S.pat_bindings(l["pat"])[0]] = mm.group(1)
        if not heads:
            continue
        fns = {g.name for g in model.fns(CM) if re.fullmatch(r"(\w+::)*Expr", (g.node.get("ret") or "").replace(" ", ""))}
        for m in S.find(f.body, "Match"):
            sc = S.idents(m["scrut"]) if "scrut" in m else S.idents(m.get("expr", {}))
            head = [h for h in heads if h in sc]
            if not head:
                continue
            for i, arm in enumerate(m["arms"]):
                n += 1
                binds = set(S.pat_bindings(arm["pat"])) | {head[0]}
                handed = [c for c in S.walk(arm["body"]) if c["k"] in ("Call", "MethodCall") and S.callee_name(c) in fns
                          and any(S.idents(a) & binds for a in c["args"])]
                pt = S.norm_ws(run.facts.text(CM, arm["pat"]["sp"]))
                run.ob("R09.16", f"{f.name}|arm #{i + 1} ({pt[:28]}) translates the statement it takes", bool(handed), site(CM, arm["sp"]),
                       f"translator calls given the statement or its parts: {len(handed)}",
                       witness="mk(eff(1)).x; eff(2); prints only 2: the first statement, a field read of a call, was dropped with its calls")
    run.floor("arms over the first statement of a block", n, 3)


def r09_14(run, model):
    run.rule("R09.14", "an arm that leaves early has translated every sub-term first: in every arm of a rewriting pass, before each `return`, "
                       "each field of the matched node that carries sub-terms was handed to the traversal (or the path has established that it "
                       "is a form without sub-terms) - a shortcut that returns the translation of one child alone drops the others with their "
                       "effects (`match eff(1) { _ => eff(2) }` must still run eff(1))")
    from lib import passes as P
    trs = P.discover(model, min_cover=5, include_pprint=False)
    n = 0
    for t in trs:
        if t.enum_name == "Ty":
            continue
        ret = (t.fn.node.get("ret") or "")
        if not any(re.search(r"(?<![A-Za-z0-9_])" + en + r"(?![A-Za-z0-9_])", ret) for en in P.IR_ENUMS | {"ExprId"}):
            continue
        peers = [g for g in model.fns(t.fn.file) if g.body is not None]
        rec = {t.fn.name}
        grew = True
        while grew:
            grew = False
            for g in peers:
                if g.name not in rec and any(True for _ in S.calls(g.body, *rec)):
                    rec.add(g.name)
                    grew = True
        # the walkers of a child enum the traversal calls (compile_imm for the immediates of an ANF node)
        own_ret = ret.replace(" ", "")
        ir_ret = {g.name for g in peers if (g.node.get("ret") or "").replace(" ", "") in (own_ret, f"Vec<{own_ret}>", f"Box<{own_ret}>")}
        rec |= {S.callee_name(c) for c in S.walk(t.fn.body) if c["k"] in ("Call", "MethodCall") and S.callee_name(c) in ir_ret}
        variants = {v["name"]: v for v in t.enum["variants"]}
        for vname, lst in sorted(t.covered.items()):
            v = variants.get(vname)
            if v is None:
                continue
            kids = P.child_fields(v, t.enum["name"], extra=("ImmExpr", "AExpr", "CExpr", "Expr"))
            if not kids:
                continue
            for arm, alt in lst:
                rets = [r for r in S.walk_no_closures(arm["body"]) if r["k"] == "Return"]
                if not rets:
                    continue
                b, _rest = P.arm_field_bindings(alt)
                par = S.Parents(arm["body"])
                for ri, r in enumerate(rets, 1):
                    for k in kids:
                        nm = b.get(k)
                        if not isinstance(nm, str):
                            continue
                        n += 1
                        ok, why = False, "not handed to the traversal before this return"
                        for c in S.walk(arm["body"]):
                            if c["k"] in ("Call", "MethodCall") and S.callee_name(c) in rec and (c["sp"][0], c["sp"][1]) <= (r["sp"][2], r["sp"][3]):
                                if any(nm in S.idents(a) for a in c["args"]):
                                    ok = True
                                for a in par.ancestors(c):
                                    if (a["k"] == "MethodCall" and nm in S.idents(a["recv"])) or (a["k"] == "For" and nm in S.idents(a["iter"])):
                                        ok = True
                        if ok:
                            why = "translated before this return"
                        else:
                            for a in par.ancestors(r):
                                conds = []
                                if a["k"] == "If" and S.span_contains(a["then"]["sp"], r["sp"]):
                                    conds = [x for x in S.walk(a["cond"]) if x["k"] == "Let"]
                                for l in conds:
                                    if nm in S.idents(l["expr"]):
                                        h = S.pat_head(l["pat"])
                                        if h[0] == "variant" and len(h[1]) >= 2:
                                            try:
                                                ed = model.resolve_enum(t.fn.file, h[1][-2], [h[1][-1]])
                                            except Exception:
                                                ed = None
                                            vv = next((x for x in (ed or {}).get("variants", []) if x["name"] == h[1][-1]), None)
                                            if vv is not None and not P.child_fields(vv, ed["name"], extra=("ImmExpr", "AExpr", "CExpr", "Expr")):
                                                ok, why = True, f"the path has matched `{nm}` against {h[1][-2]}::{h[1][-1]}, a form without sub-terms"
                        run.ob("R09.14", f"{t.fn.name}|{vname}.{k} is translated before return #{ri}", ok, site(t.fn.file, r["sp"]), why,
                               witness="match eff(1) { _ => eff(2) }: the arm for a leading wildcard returns the translation of the arm body alone; "
                                       "eff(1) never runs")
    run.floor("(early return, sub-term field) pairs examined", n, 12)


def run(run, model):
    # liveness / effect walkers of the Go dead-code pass visit a sub-term whatever its shape (shared with C01 R01.14)
    from rules import c01 as _c01w
    run.try_rule(_c01w.r01_14, model, "R09.18", r"/go/dce\.rs$")
    run.try_rule(r09_10, model)
    run.try_rule(r09_11, model)
    run.try_rule(r09_9, model)
    run.try_rule(r09_8, model)
    run.try_rule(r09_6, model)
    from rules import c01
    run.try_rule(c01.r01_5, model, ("crates/compiler/src/go/dce.rs", "crates/compiler/src/go/compile.rs", "crates/compiler/src/anf.rs", "crates/compiler/src/lift.rs", "crates/compiler/src/mono.rs"))
    run.try_rule(r09_1, model)
    run.try_rule(r09_2, model)
    run.try_rule(r09_3, model)
    run.try_rule(r09_4, model)
    run.try_rule(r09_5, model)
    run.try_rule(r09_12, model)
    run.try_rule(r09_13, model)
    run.try_rule(r09_14, model)
    run.try_rule(r09_15, model)
    run.try_rule(r09_16, model)
    # no new place reverses, swaps or sorts a sequence (G-SEQ over resolved calls)
    from rules import gseq
    run.try_rule(gseq.r_seq, model, "R09.17")
    run.assume("children of a Lift IR variant are declared in source evaluation order (callee, arguments; lhs, rhs; receiver, arguments) - read and confirmed for ECall, EBinary, EDynCall")
